//! Reduced-feature behaviour probe (C19).  Built with exactly one library version and a chosen feature set; replays material
//! produced by the full build for every operation the feature set makes available and prints one JSON line per comparison.
#![allow(unused)]
use paseto_core::encodings::{Payload, WriteBytes};
use paseto_core::key::Key;
use paseto_core::paserk::KeyText;
use paseto_core::version::{Local, Public, Secret};
use serde_json::{Value, json};
use std::str::FromStr;

#[cfg(feature = "v1")]
type V = paseto_v1::core::V1;
#[cfg(feature = "v2")]
type V = paseto_v2::core::V2;
#[cfg(feature = "v3")]
type V = paseto_v3::core::V3;
#[cfg(feature = "v4")]
type V = paseto_v4::core::V4;

struct Raw(Vec<u8>);
impl Payload for Raw {
    const SUFFIX: &'static str = "";
    fn encode(self, mut w: impl WriteBytes) -> Result<(), Box<dyn std::error::Error + Send + Sync>> {
        w.write(&self.0);
        Ok(())
    }
    fn decode(p: &[u8]) -> Result<Self, Box<dyn std::error::Error + Send + Sync>> {
        Ok(Raw(p.to_vec()))
    }
}

fn h(v: &Value, k: &str) -> Vec<u8> {
    hex::decode(v[k].as_str().unwrap()).unwrap()
}
fn s<'a>(v: &'a Value, k: &str) -> &'a str {
    v[k].as_str().unwrap()
}
fn out(op: &str, same: bool) {
    println!("{}", json!({"op": op, "same": same}));
}
fn key<K: paseto_core::key::KeyType>(b: &[u8]) -> Key<V, K>
where
    V: paseto_core::key::HasKey<K>,
{
    KeyText::<V, K>::from_raw_bytes(b).try_into().expect("material key parses")
}

/// the reduced build's verdict on every offered key must be the full build's
fn offers<K: paseto_core::key::KeyType>(m: &Value, field: &str, op: &str)
where
    V: paseto_core::key::HasKey<K>,
{
    let mut same = true;
    let mut n = 0;
    for o in m[field].as_array().unwrap() {
        let b = hex::decode(o["hex"].as_str().unwrap()).unwrap();
        let ok = Key::<V, K>::try_from(KeyText::<V, K>::from_raw_bytes(&b)).is_ok();
        if ok != o["ok"].as_bool().unwrap() {
            same = false;
        }
        n += 1;
    }
    println!("{}", json!({"op": op, "same": same, "offers": n}));
}

fn main() {
    let args: Vec<String> = std::env::args().collect();
    let all: Value = serde_json::from_str(&std::fs::read_to_string(&args[1]).unwrap()).unwrap();
    let m = &all[&args[2]];
    let aad = h(m, "aad");
    let nv = paseto_core::validation::NoValidation::<Raw>::dangerous_no_validation;

    #[cfg(feature = "verifying")]
    {
        use paseto_core::tokens::SealedToken;
        let pk: Key<V, Public> = key(&h(m, "public_key"));
        let r = SealedToken::<V, Public, Raw, Vec<u8>>::from_str(s(m, "token_public")).and_then(|t| t.unseal(&pk, &aad, &nv()));
        out("verify", r.map(|u| u.claims.0 == h(m, "claims") && u.footer == h(m, "footer")).unwrap_or(false));
        // the purpose-named entry points exist in a verify-only build as well
        let r = SealedToken::<V, Public, Raw, Vec<u8>>::from_str(s(m, "token_public")).and_then(|t| t.verify_with_aad(&pk, &aad, &nv()));
        out("verify-by-name", r.map(|u| u.claims.0 == h(m, "claims")).unwrap_or(false));
        let r = SealedToken::<V, Public, Raw, Vec<u8>>::from_str(s(m, "token_public_bad")).and_then(|t| t.unseal(&pk, &aad, &nv()));
        out("verify-rejects-forgery", r.is_err());
        out("public-key-text", pk.to_string() == s(m, "public_key_text"));
        offers::<Public>(m, "offers_public", "key-offers-public");
        let mut same = true;
        let mut n = 0;
        for o in m["offers_tokens_public"].as_array().unwrap() {
            let ok = SealedToken::<V, Public, Raw, Vec<u8>>::from_str(o["text"].as_str().unwrap()).and_then(|t| t.unseal(&pk, &aad, &nv())).is_ok();
            same &= ok == o["ok"].as_bool().unwrap();
            n += 1;
        }
        println!("{}", json!({"op": "token-offers-public", "same": same, "offers": n}));
    }
    #[cfg(feature = "signing")]
    {
        use paseto_core::tokens::{SealedToken, UnsealedToken};
        let sk: Key<V, Secret> = key(&h(m, "secret_key"));
        out("public-key-of-secret", sk.public_key().to_string() == s(m, "public_key_text"));
        offers::<Secret>(m, "offers_secret", "key-offers-secret");
        let t = UnsealedToken::<V, Public, Raw>::new(Raw(h(m, "claims"))).with_footer(h(m, "footer")).seal(&sk, &aad).map(|t| t.to_string());
        match t {
            Ok(t) => {
                if m["sig_deterministic"].as_bool().unwrap() {
                    out("sign", t == s(m, "token_public"));
                } else {
                    let r = SealedToken::<V, Public, Raw, Vec<u8>>::from_str(&t).and_then(|t| t.unseal(&sk.public_key(), &aad, &nv()));
                    out("sign", r.map(|u| u.claims.0 == h(m, "claims")).unwrap_or(false));
                }
            }
            Err(_) => out("sign", false),
        }
        let t = UnsealedToken::<V, Public, Raw>::new(Raw(h(m, "claims"))).with_footer(h(m, "footer")).sign_with_aad(&sk, &aad).map(|t| t.to_string());
        out("sign-by-name", t.is_ok());
    }
    #[cfg(feature = "decrypting")]
    {
        use paseto_core::tokens::SealedToken;
        let lk: Key<V, Local> = key(&h(m, "local_key"));
        let r = SealedToken::<V, Local, Raw, Vec<u8>>::from_str(s(m, "token_local")).and_then(|t| t.unseal(&lk, &aad, &nv()));
        out("decrypt", r.map(|u| u.claims.0 == h(m, "claims") && u.footer == h(m, "footer")).unwrap_or(false));
        let r = SealedToken::<V, Local, Raw, Vec<u8>>::from_str(s(m, "token_local_bad")).and_then(|t| t.unseal(&lk, &aad, &nv()));
        out("decrypt-rejects-forgery", r.is_err());
        let r = SealedToken::<V, Local, Raw, Vec<u8>>::from_str(s(m, "token_local")).and_then(|t| t.decrypt_with_aad(&lk, &aad, &nv()));
        out("decrypt-by-name", r.map(|u| u.claims.0 == h(m, "claims")).unwrap_or(false));
        offers::<Local>(m, "offers_local", "key-offers-local");
        let mut same = true;
        let mut n = 0;
        for o in m["offers_tokens_local"].as_array().unwrap() {
            let ok = SealedToken::<V, Local, Raw, Vec<u8>>::from_str(o["text"].as_str().unwrap()).and_then(|t| t.unseal(&lk, &aad, &nv())).is_ok();
            same &= ok == o["ok"].as_bool().unwrap();
            n += 1;
        }
        println!("{}", json!({"op": "token-offers-local", "same": same, "offers": n}));
    }
    #[cfg(feature = "encrypting")]
    {
        use paseto_core::tokens::UnsealedToken;
        let lk: Key<V, Local> = key(&h(m, "local_key"));
        let t = UnsealedToken::<V, Local, Raw>::new(Raw(h(m, "claims"))).with_footer(h(m, "footer")).dangerous_seal_with_nonce(&lk, &aad, h(m, "nonce"));
        out("encrypt-with-nonce", t.map(|t| t.to_string() == s(m, "token_local_from_nonce")).unwrap_or(false));
        let t = UnsealedToken::<V, Local, Raw>::new(Raw(h(m, "claims"))).with_footer(h(m, "footer")).encrypt_with_aad(&lk, &aad).map(|t| t.to_string());
        out("encrypt-by-name", t.is_ok());
    }
    #[cfg(feature = "id")]
    {
        // ids of key texts need no other feature than `id` plus the key kind's own feature
        #[cfg(feature = "decrypting")]
        {
            let lk: Key<V, Local> = key(&h(m, "local_key"));
            out("lid", lk.id().to_string() == s(m, "lid"));
        }
        #[cfg(feature = "verifying")]
        {
            let pk: Key<V, Public> = key(&h(m, "public_key"));
            out("pid", pk.id().to_string() == s(m, "pid"));
        }
        #[cfg(feature = "signing")]
        {
            let sk: Key<V, Secret> = key(&h(m, "secret_key"));
            out("sid", sk.id().to_string() == s(m, "sid"));
        }
        out("id-feature-alone-builds", true);
    }
    #[cfg(feature = "pie-wrap")]
    {
        use paseto_core::paserk::PieWrappedKey;
        let lk: Key<V, Local> = key(&h(m, "local_key"));
        let r = PieWrappedKey::<V, Local>::from_str(s(m, "pie")).and_then(|w| w.unwrap(&lk));
        out("pie-unwrap", r.map(|k| k.expose_key().as_raw_bytes() == h(m, "wrapped_key")).unwrap_or(false));
        let w = key::<Local>(&h(m, "wrapped_key")).wrap_pie(&lk).map(|w| w.to_string());
        let back = w.and_then(|w| PieWrappedKey::<V, Local>::from_str(&w)).and_then(|w| w.unwrap(&lk));
        out("pie-wrap-roundtrip", back.map(|k| k.expose_key().as_raw_bytes() == h(m, "wrapped_key")).unwrap_or(false));
    }
    #[cfg(feature = "pbkw")]
    {
        use paseto_core::paserk::PasswordWrappedKey;
        let r = PasswordWrappedKey::<V, Local>::from_str(s(m, "pw")).and_then(|w| w.unwrap(&h(m, "pw_pass")));
        out("pw-unwrap", r.map(|k| k.expose_key().as_raw_bytes() == h(m, "wrapped_key")).unwrap_or(false));
    }
    #[cfg(feature = "pke")]
    {
        use paseto_core::paserk::SealedKey;
        use paseto_core::version::PkeSecret;
        let sk: Key<V, PkeSecret> = key(&h(m, "pke_secret"));
        let r = SealedKey::<V>::from_str(s(m, "sealed")).and_then(|w| w.unseal(&sk));
        out("unseal-key", r.map(|k| k.expose_key().as_raw_bytes() == h(m, "wrapped_key")).unwrap_or(false));
    }
    out("probe-ran", true);
}
