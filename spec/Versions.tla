------------------------------ MODULE Versions -------------------------------
(***************************************************************************)
(* Per-version constants of PASETO v1..v4 and PASERK k1..k4, from the      *)
(* specification texts: field widths, which versions bind an implicit      *)
(* assertion, the fixed lengths of every serialised form.                  *)
(***************************************************************************)
EXTENDS Naturals

HasImplicitAssertion(ver) == ver \in {3, 4}

\* ---- tokens: payload = nonce || ciphertext || tag   /  message || signature
NonceLen(ver) == IF ver = 2 THEN 24 ELSE 32
TagLen(ver) == CASE ver = 1 -> 48 [] ver = 2 -> 16 [] ver = 3 -> 48 [] ver = 4 -> 32
SigLen(ver) == CASE ver = 1 -> 256 [] ver = 2 -> 64 [] ver = 3 -> 96 [] ver = 4 -> 64

TokenPayloadLen(ver, purpose, claimsLen) ==
  IF purpose = "local" THEN NonceLen(ver) + claimsLen + TagLen(ver) ELSE claimsLen + SigLen(ver)

\* ---- keys (raw bytes inside the PASERK text)
LocalKeyLen == 32
SecretKeyLen(ver) == CASE ver = 2 -> 64 [] ver = 3 -> 48 [] ver = 4 -> 64 [] OTHER -> 0   \* v1: DER, variable
PublicKeyLen(ver) == CASE ver = 2 -> 32 [] ver = 3 -> 49 [] ver = 4 -> 32 [] OTHER -> 0
KeyIdLen == 33

\* ---- PASERK blobs
PieTagLen(ver) == IF ver \in {1, 3} THEN 48 ELSE 32
PieNonceLen == 32
PieLen(ver, keyLen) == PieTagLen(ver) + PieNonceLen + keyLen

PwSaltLen(ver) == IF ver \in {1, 3} THEN 32 ELSE 16
PwParamLen(ver) == IF ver \in {1, 3} THEN 4 ELSE 16            \* iterations u32 | mem u64, time u32, para u32 (big-endian)
PwNonceLen(ver) == IF ver \in {1, 3} THEN 16 ELSE 24
PwTagLen(ver) == IF ver \in {1, 3} THEN 48 ELSE 32
PwLen(ver, keyLen) == PwSaltLen(ver) + PwParamLen(ver) + PwNonceLen(ver) + keyLen + PwTagLen(ver)

SealLen(ver) == CASE ver = 1 -> 48 + 32 + 512        \* tag || edk || c  (RSA-4096 ciphertext at fixed width)
                  [] ver = 2 -> 32 + 32 + 32         \* tag || epk || edk
                  [] ver = 3 -> 48 + 49 + 32
                  [] ver = 4 -> 32 + 32 + 32

BlobLen(wkind, ver, keyLen) ==
  CASE wkind = "pie" -> PieLen(ver, keyLen)
    [] wkind = "pw" -> PwLen(ver, keyLen)
    [] wkind = "seal" -> SealLen(ver)

\* PBKW cost budget of property C04/C06/C07 (larger attacker-chosen costs are out of scope)
PbkdfBudget(iterations) == iterations >= 1 /\ iterations <= 10000
ArgonBudget(memBytes, time, para) == memBytes <= 64 * 1024 * 1024 /\ time <= 3 /\ para = 1
=============================================================================
