-------------------------------- MODULE Ctr --------------------------------
(***************************************************************************)
(* Counter-block arithmetic of AES-256-CTR as PASETO v1/v3 and PASERK      *)
(* k1/k3 use it (OpenSSL aes-256-ctr / NIST SP 800-38A with the standard   *)
(* incrementing function over the whole block): block j of the keystream   *)
(* is AES(Ek, (IV + j) mod 2^(8W)), IV and counter big-endian over all W    *)
(* bytes (W = 16).  Ctr64 is the *named deviation*: only the low 8 bytes   *)
(* are incremented (RustCrypto ctr::Ctr64BE).                              *)
(***************************************************************************)
EXTENDS Bytes

\* add n (a natural) to the big-endian byte string s, modulo 256^Len(s)
RECURSIVE AddBE(_, _)
AddBE(s, n) ==
  IF s = << >> THEN << >>
  ELSE LET last == s[Len(s)]
           sum == last + (n % 256)
           carry == (n \div 256) + (sum \div 256)
       IN AddBE(DropLast(s, 1), carry) \o <<sum % 256>>

Inc128(iv, j) == AddBE(iv, j)

\* low-half-only counter: high half fixed, low half wraps on its own
CtrLow(iv, j, lowBytes) ==
  Take(iv, Len(iv) - lowBytes) \o AddBE(LastN(iv, lowBytes), j)
Ctr64(iv, j) == CtrLow(iv, j, 8)

\* does adding j carry out of the low `lowBytes` bytes?
RECURSIVE CarriesOut(_, _)
CarriesOut(low, j) ==
  IF low = << >> THEN j > 0
  ELSE LET sum == low[Len(low)] + (j % 256)
       IN CarriesOut(DropLast(low, 1), (j \div 256) + (sum \div 256))

=============================================================================
