--------------------------- MODULE Obs_ClaimsJson ----------------------------
(* Observation-set validation for C14.                                        *)
EXTENDS ClaimsJson, Json, IOUtils, TLC

Rec == ndJsonDeserialize(IOEnv.OBS)
N == Len(Rec)
Buckets == 32

VARIABLE i
Init == i = 0
Next == \/ i = 0 /\ i' \in {0 - b : b \in 1..Buckets}
        \/ i < 0 /\ i' \in {k \in 1..N : k % Buckets = (0 - i) - 1}

SlotsEq(rs, ss) == \A f \in Fields : rs[f] = ss[f]

HasDup(ms) == \E a \in 1..Len(ms), b \in 1..Len(ms) : a < b /\ ms[a][1] = ms[b][1] /\ ms[a][1] \in Fields

PresentNames(p) == SelectSeq(FieldOrder, LAMBDA f : p[f])

Verdict(r) ==
  CASE r.fn = "decode" ->
         LET d == Decode(r.members) IN
         IF ~r.generic_ok THEN "test-input-not-json"
         \* a repeated registered member may be refused (the implementation reports duplicate_field) or not:
         \* the property only constrains what is returned when decoding succeeds
         ELSE IF ~HasDup(r.members) /\ r.ok # d.ok THEN (IF r.ok THEN "decoded-but-must-fail" ELSE "failed-but-must-decode")
         ELSE IF ~HasDup(r.members) /\ r.ok /\ ~SlotsEq(r.slots, d.slots) THEN "decoded-values-differ"
         ELSE IF r.ok /\ ~(\A f \in Fields : r.slots[f] = GenericSlot(r.members, f)) THEN "disagrees-with-generic-parser"
         ELSE "ok"
    [] r.fn = "roundtrip" ->
         IF ~r.encode_ok THEN "encode-failed"
         ELSE IF r.names # PresentNames(r.present) THEN "wire-members-or-order-differ"
         ELSE IF \E k \in 1..Len(r.types) : r.types[k] # "string" THEN "wire-type-not-string"
         ELSE IF ~r.decode_ok THEN "own-output-not-decodable"
         ELSE IF ~r.same THEN "round-trip-changes-value"
         ELSE IF ~r.ts_rfc3339 THEN "timestamp-not-rfc3339-exact"
         ELSE IF ~r.strings_same THEN "string-not-preserved-on-wire"
         ELSE "ok"
    [] r.fn = "json" ->
         IF r.payload_encode_ok /\ r.payload_bytes_equal /\ r.footer_encode_ok /\ r.footer_bytes_equal
            /\ r.payload_decode_equal /\ r.footer_decode_equal /\ r.bad_agrees /\ r.framed_agree THEN "ok" ELSE "json-wrapper-not-transparent"
    [] r.fn = "footer-empty" ->
         IF ~r.json_accepts_empty /\ r.unit_accepts_empty /\ ~r.unit_accepts_nonempty THEN "ok" ELSE "empty-footer-rule"
    [] OTHER -> "unknown-record"

ObsOK == i <= 0 \/ LET v == Verdict(Rec[i]) IN v = "ok" \/ PrintT(<<"VIOL", i, v>>)
=============================================================================
