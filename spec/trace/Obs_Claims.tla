----------------------------- MODULE Obs_Claims ------------------------------
(* Observation-set validation for C11: every record is one call of a real    *)
(* validator value (built from a TLC-generated expression) on a real          *)
(* RegisteredClaims value, directly or through a real unseal.                 *)
EXTENDS Claims, Json, IOUtils, TLC

Rec == ndJsonDeserialize(IOEnv.OBS)
N == Len(Rec)
Buckets == 64

VARIABLE i
Init == i = 0
Next == \/ i = 0 /\ i' \in {0 - b : b \in 1..Buckets}
        \/ i < 0 /\ i' \in {k \in 1..N : k % Buckets = (0 - i) - 1}

Verdict(r) ==
  LET want == AcceptsTop(r.expr, <<r.x, r.y>>) IN
  CASE r.fn = "accepts" ->
         IF r.got # want THEN (IF r.got THEN "accepted-but-must-reject" ELSE "rejected-but-must-accept")
         ELSE IF ~r.got /\ r.errc # "claims" THEN "wrong-error-class" ELSE "ok"
    [] r.fn = "unseal" ->
         IF r.got # want THEN (IF r.got THEN "claims-released-although-validator-rejects" ELSE "claims-withheld-although-validator-accepts")
         ELSE IF ~r.got /\ r.errc # "claims" THEN "wrong-error-class"
         ELSE IF r.got /\ ~r.same THEN "released-claims-differ" ELSE "ok"
    [] OTHER -> "unknown-record"

ObsOK == i <= 0 \/ LET v == Verdict(Rec[i]) IN v = "ok" \/ PrintT(<<"VIOL", i, v>>)
=============================================================================
