----------------------------- MODULE Obs_Claims ------------------------------
(* Observation-set validation for C11: every record is one call of a real    *)
(* validator value (built from a TLC-generated expression) on a real          *)
(* RegisteredClaims value, directly or through a real unseal.                 *)
EXTENDS Claims, Json, IOUtils, TLC

Rec == ndJsonDeserialize(IOEnv.OBS)
N == Len(Rec)
Buckets == 64

VARIABLE i
Init == i = 0
Next == \/ i = 0 /\ i' \in {0 - b : b \in 1..Buckets}
        \/ i < 0 /\ i' \in {k \in 1..N : k % Buckets = (0 - i) - 1}

Opt(x) == IF Len(x) = 0 THEN << >> ELSE <<x[1]>>
Verdict(r) ==
  IF r.fn = "builder" THEN
    LET want == Built(NewClaims(<<r.now[1], r.now[2]>>, r.k), r.setters)
        got == [exp |-> Opt(r.got.exp), nbf |-> Opt(r.got.nbf), iat |-> Opt(r.got.iat), iss |-> Opt(r.got.iss),
                sub |-> Opt(r.got.sub), aud |-> Opt(r.got.aud), jti |-> Opt(r.got.jti)]
    IN IF got # want THEN "builder-produced-other-claims"
       ELSE IF r.valid_at # BuiltValidAt(<<r.now[1], r.now[2]>>, r.k, <<r.t[1], r.t[2]>>) THEN "fresh-claims-validity-window-wrong"
       ELSE "ok"
  ELSE IF r.fn = "clock" THEN
    \* valid_now() / now(d) read the system clock: claims an hour either side of it are judged accordingly
    (IF r.future_exp_accepted /\ ~r.past_exp_accepted /\ r.past_nbf_accepted /\ ~r.future_nbf_accepted /\ r.now_claims_valid_now THEN "ok"
     ELSE "system-clock-validators-inconsistent")
  ELSE
  LET want == AcceptsTop(r.expr, <<r.x, r.y>>) IN
  CASE r.fn = "accepts" ->
         IF r.got # want THEN (IF r.got THEN "accepted-but-must-reject" ELSE "rejected-but-must-accept")
         ELSE IF ~r.got /\ r.errc # "claims" THEN "wrong-error-class" ELSE "ok"
    [] r.fn = "unseal" ->
         IF r.got # want THEN (IF r.got THEN "claims-released-although-validator-rejects" ELSE "claims-withheld-although-validator-accepts")
         ELSE IF ~r.got /\ r.errc # "claims" THEN "wrong-error-class"
         ELSE IF r.got /\ ~r.same THEN "released-claims-differ" ELSE "ok"
    [] OTHER -> "unknown-record"

ObsOK == i <= 0 \/ LET v == Verdict(Rec[i]) IN v = "ok" \/ PrintT(<<"VIOL", i, v>>)
=============================================================================
