----------------------------- MODULE Trace_Ideal ------------------------------
(***************************************************************************)
(* Trace validation of recorded executions of the real crates against L0.  *)
(*                                                                         *)
(* The harness writes one NDJSON event per specification action, at the    *)
(* public call's return and from inside its own Payload / Footer /         *)
(* Validate / getrandom callbacks.  Byte strings are interned (id 0 is the *)
(* empty string), so equality of ids is equality of bytes.  Each trace     *)
(* action is  IsEvent(name) /\ Ideal!Action(logged arguments).             *)
(*                                                                         *)
(* A trace is a sequence of independent scenarios separated by Reset       *)
(* events.  When no action of the specification matches the next event,    *)
(* the Mismatch step prints a VIOL tuple (event index, event name, state   *)
(* of the operation in flight) and resumes after the next Reset, so one    *)
(* run reports every scenario the specification rejects.                   *)
(***************************************************************************)
EXTENDS Naturals, Sequences, FiniteSets, TLC, Json, IOUtils, Versions, Rng

Rec == ndJsonDeserialize(IOEnv.TRACE)
N == Len(Rec)

VARIABLES pubOf, tokens, blobs, used, op, last,
          texts,    \* text form -> the token it is the serialisation of (C01: parse . to_string = id)
          l         \* index of the next event

I == INSTANCE Ideal WITH Empty <- 0

ivars == <<pubOf, tokens, blobs, used, op, last>>
tvars == <<pubOf, tokens, blobs, used, op, last, texts, l>>

E == Rec[l]
IsEvent(name) == l <= N /\ E.ev = name /\ l' = l + 1

SetOf(seq) == {seq[k] : k \in 1..Len(seq)}

TInit == I!Init /\ texts = << >> /\ l = 1

\* ---- scenario control ---------------------------------------------------
TReset ==
  /\ IsEvent("Reset")
  /\ op = I!Idle
  /\ pubOf' = << >> /\ tokens' = {} /\ blobs' = {} /\ op' = I!Idle /\ last' = I!NoResult
  /\ texts' = << >>
  /\ UNCHANGED used

\* a stateless law observed by the driver: the parameter block of a password-wrapped key is what was asked for and
\* survives params() -> password_wrap_with_params (PASERK PBKW); the event carries the comparison's operands' ids
TLaw == IsEvent("Law") /\ E.lhs = E.rhs /\ UNCHANGED <<ivars, texts>>

\* informational events (tamper descriptions, key generation notes): no specification action
TNote == IsEvent("Note") /\ UNCHANGED <<ivars, texts>>

TPair == IsEvent("Pair") /\ I!LearnPair(E.sk, E.pk) /\ UNCHANGED texts

\* ---- sealing ------------------------------------------------------------
TSealCall == IsEvent("SealCall") /\ I!SealBegin(E.ver, E.purpose, E.key, E.claims, E.footer, E.aad) /\ UNCHANGED texts
TDraw == IsEvent("Draw") /\ I!Draw(E.ok, E.val) /\ UNCHANGED texts
TFooterEncode == IsEvent("FooterEncode") /\ I!EncodeFooter(E.ok) /\ UNCHANGED texts
TClaimsEncode == IsEvent("ClaimsEncode") /\ I!EncodeClaims(E.ok) /\ UNCHANGED texts
TSealRet ==
  /\ IsEvent("SealRet")
  /\ IF E.ok THEN /\ I!Emit(E.wire, SetOf(E.fresh))
                  /\ E.footer = op.footer                                   \* the token carries the footer it was given
                  /\ E.len = TokenPayloadLen(op.ver, I!Base(op.purpose), E.clen)     \* and has the prescribed length
                  /\ EmbedOK("seal", op.ver, I!Base(op.purpose), op.drawn, SetOf(E.fresh))   \* the drawn randomness is what it embeds (C16)
             ELSE I!SealFail(E.errc)
  /\ UNCHANGED texts

\* ---- text form ----------------------------------------------------------
TToString ==
  /\ IsEvent("ToString")
  /\ texts' = [s \in (DOMAIN texts) \cup {E.str} |->
                 IF s = E.str THEN [ver |-> E.ver, purpose |-> E.purpose, wire |-> E.wire, footer |-> E.footer]
                 ELSE texts[s]]
  /\ UNCHANGED ivars

\* parsing the serialisation of a token yields that token; any other string: no constraint here (C09)
TParseRet ==
  /\ IsEvent("ParseRet")
  /\ (E.str \in DOMAIN texts /\ texts[E.str].ver = E.ver /\ texts[E.str].purpose = E.purpose) =>
        (E.ok /\ E.wire = texts[E.str].wire /\ E.footer = texts[E.str].footer)
  \* what a parsed token shows (Display) is what was presented on the wire: one string per value (C09)
  /\ E.ok => (E.wire = E.pwire /\ E.footer = E.pfooter)
  /\ UNCHANGED <<ivars, texts>>

\* ---- unsealing ----------------------------------------------------------
TUnsealCall == IsEvent("UnsealCall") /\ I!UnsealBegin(E.ver, E.purpose, E.wire, E.footer, E.key, E.aad) /\ UNCHANGED texts
TDecode == IsEvent("Decode") /\ I!Decode(E.bytes, E.ok) /\ UNCHANGED texts
TValidate == IsEvent("Validate") /\ I!Validate(E.claims, E.verdict) /\ UNCHANGED texts
TUnsealRet ==
  /\ IsEvent("UnsealRet")
  /\ IF E.ok THEN I!Release(E.claims, E.footer) ELSE I!ReturnErr(E.errc)
  /\ UNCHANGED texts

\* ---- PASERK -------------------------------------------------------------
TWrapCall == IsEvent("WrapCall") /\ I!WrapBegin(E.wkind, E.ver, E.ktype, E.key, E.with) /\ UNCHANGED texts
TWrapRet ==
  /\ IsEvent("WrapRet")
  /\ IF E.ok THEN /\ I!WrapEmit(E.blob, SetOf(E.fresh))
                  /\ E.len = BlobLen(op.wkind, op.ver, E.klen)               \* fixed length per format (C05)
                  /\ EmbedOK("wrap", op.ver, op.wkind, op.drawn, SetOf(E.fresh))
             ELSE I!WrapFail(E.errc)
  /\ UNCHANGED texts
TUnwrap ==
  /\ IsEvent("Unwrap")
  /\ I!Unwrap(E.wkind, E.ver, E.ktype, E.blob, E.with, E.ok, E.key, E.errc)
  /\ UNCHANGED texts

\* ---- key generation --------------------------------------------------------
TGenCall == IsEvent("KeyGenCall") /\ I!GenBegin(E.ver, E.kind) /\ UNCHANGED texts
TGenRet ==
  /\ IsEvent("KeyGenRet")
  /\ IF E.ok THEN I!GenEmit(E.key) ELSE I!GenFail(E.errc)
  /\ UNCHANGED texts

Matched ==
  \/ TGenCall \/ TGenRet
  \/ TReset \/ TNote \/ TPair \/ TLaw
  \/ TSealCall \/ TDraw \/ TFooterEncode \/ TClaimsEncode \/ TSealRet
  \/ TToString \/ TParseRet
  \/ TUnsealCall \/ TDecode \/ TValidate \/ TUnsealRet
  \/ TWrapCall \/ TWrapRet \/ TUnwrap

\* first Reset at or after position k (N + 1 if none)
NextReset(k) == IF \E j \in k..N : Rec[j].ev = "Reset"
                THEN CHOOSE j \in k..N : Rec[j].ev = "Reset" /\ \A m \in k..(j - 1) : Rec[m].ev # "Reset"
                ELSE N + 1

OpSummary == IF op.kind = "unseal" THEN <<"unseal", op.auth, op.decoded, op.validated>>
             ELSE IF op.kind \in {"seal", "wrap", "gen"} THEN <<op.kind, op.failed, op.rngFailed>>
             ELSE <<op.kind>>

\* the specification has no behaviour that continues with this event
Mismatch ==
  /\ l <= N
  /\ ~ENABLED Matched
  /\ PrintT(<<"VIOL", l, E.ev, OpSummary>>)
  /\ l' = NextReset(l + 1)
  /\ pubOf' = << >> /\ tokens' = {} /\ blobs' = {} /\ op' = I!Idle /\ last' = I!NoResult /\ texts' = << >>
  /\ UNCHANGED used

TNext == Matched \/ Mismatch

\* all of L0's invariants are evaluated in every state of every recorded trace
TraceInv == I!InvOrder /\ I!InvRelease /\ I!InvErrClass /\ I!InvUnwrap /\ I!InvNoAadOnOldVersions /\ I!TypeOK

\* printed exactly once, when the whole trace has been consumed
Done == l = N + 1 => PrintT(<<"DONE", l>>)
=============================================================================
