---------------------------- MODULE Obs_Features -----------------------------
(* Observation-set validation for C19: cargo's verdict for each distinct       *)
(* feature closure, and the behaviour of reduced builds against the full one.   *)
EXTENDS Naturals, Sequences, Json, IOUtils, TLC

Rec == ndJsonDeserialize(IOEnv.OBS)
N == Len(Rec)

VARIABLE i
Init == i \in 1..N
Next == UNCHANGED i

Verdict(r) ==
  CASE r.fn = "featbuild" -> IF r.ok THEN "ok" ELSE "feature-subset-does-not-build"
    [] r.fn = "featbehaviour" ->
         IF ~r.ran THEN "reduced-build-probe-did-not-run"
         ELSE IF ~r.same THEN "reduced-build-behaves-differently-from-the-full-build" ELSE "ok"
    [] OTHER -> "unknown-record"

ObsOK == LET v == Verdict(Rec[i]) IN v = "ok" \/ PrintT(<<"VIOL", i, v>>)
=============================================================================
