INIT TInit
NEXT TNext
INVARIANTS TraceInv Done
CHECK_DEADLOCK FALSE
