------------------------------ MODULE Obs_PAE -------------------------------
(* Observation-set validation for C15: each record is one call of           *)
(* pre_auth_encode with the given pieces (each a list of fragments); `out`  *)
(* is what a Vec writer received, `writes` the exact sequence of write()    *)
(* calls a streaming writer received.                                       *)
EXTENDS PAE, Json, IOUtils, TLC

Rec == ndJsonDeserialize(IOEnv.OBS)
N == Len(Rec)
Buckets == 32

VARIABLE i
Init == i = 0
Next == \/ i = 0 /\ i' \in {0 - b : b \in 1..Buckets}
        \/ i < 0 /\ i' \in {k \in 1..N : k % Buckets = (0 - i) - 1}

Verdict(r) ==
  CASE r.fn = "pae" ->
         LET want == PAE(r.pieces) IN
         IF r.out # want THEN "encoding-differs"
         ELSE IF CatAll(r.writes) # want THEN "streamed-bytes-differ"
         ELSE IF r.out # PAEFlat(Flatten(r.pieces)) THEN "fragmentation-changes-encoding"
         ELSE LET back == Parse(r.out) IN
              IF ~back.ok \/ back.v # Flatten(r.pieces) THEN "not-invertible" ELSE "ok"
    [] OTHER -> "unknown-record"

ObsOK == i <= 0 \/ LET v == Verdict(Rec[i]) IN v = "ok" \/ PrintT(<<"VIOL", i, v>>)
=============================================================================
