------------------------------- MODULE Obs_Keys ------------------------------
(* Observation-set validation for C08 (and the panic freedom of key parsing). *)
EXTENDS Keys, Json, IOUtils, TLC

Rec == ndJsonDeserialize(IOEnv.OBS)
N == Len(Rec)
Buckets == 64

VARIABLE i
Init == i = 0
Next == \/ i = 0 /\ i' \in {0 - b : b \in 1..Buckets}
        \/ i < 0 /\ i' \in {k \in 1..N : k % Buckets = (0 - i) - 1}

Verdict(r) ==
  IF r.fn # "keyparse" THEN "unknown-record"
  ELSE IF r.result \in {"panic", "panic-after-accept"} THEN "panic"
  ELSE LET b == r.bytes
           long == r.len > 130                       \* only RSA material is that long; its bytes are not needed by the predicate
           e == Expected(r.be, r.ver, r.kind, IF long THEN <<48>> ELSE b, r.oracle)
       IN IF e = "accept" /\ ~r.ok THEN "valid-key-rejected"
          ELSE IF e = "reject" /\ r.ok THEN "invalid-key-accepted"
          ELSE IF r.ok /\ ~PostOK(r.ver, r.kind, r.ver # 1 \/ r.kind = "local" \/ r.cls \in {"valid", "rsa-der"}, r.post) THEN "accepted-key-misbehaves"
          ELSE "ok"

ObsOK == i <= 0 \/ LET v == Verdict(Rec[i]) IN v = "ok" \/ PrintT(<<"VIOL", i, v>>)
=============================================================================
