------------------------------- MODULE Obs_Keys ------------------------------
(* Observation-set validation for C08 (and the panic freedom of key parsing). *)
EXTENDS Keys, Json, IOUtils, TLC

Rec == ndJsonDeserialize(IOEnv.OBS)
N == Len(Rec)
Buckets == 64

VARIABLE i
Init == i = 0
Next == \/ i = 0 /\ i' \in {0 - b : b \in 1..Buckets}
        \/ i < 0 /\ i' \in {k \in 1..N : k % Buckets = (0 - i) - 1}

RECURSIVE Lex(_, _, _)
Lex(a, b, k) == IF k > Len(a) /\ k > Len(b) THEN 0
                ELSE IF k > Len(a) THEN 0 - 1
                ELSE IF k > Len(b) THEN 1
                ELSE IF a[k] < b[k] THEN 0 - 1
                ELSE IF a[k] > b[k] THEN 1
                ELSE Lex(a, b, k + 1)

(* key texts compare, order and hash as the byte strings they hold, whatever their two lengths *)
KeyRel(r) == IF r.result = "panic" THEN "panic"
             ELSE LET c == Lex(r.bytes, r.other, 1)
                  IN IF r.eq # (c = 0) THEN "key-text-equality-is-not-byte-equality"
                     ELSE IF r.ord # c THEN "key-text-order-is-not-byte-order"
                     ELSE IF c = 0 /\ ~r.heq THEN "equal-key-texts-hash-differently"
                     ELSE "ok"

(* a key the library generated itself is a key like any other: its export parses back to the same key (bytes, PASERK text, public half) *)
KeyGen(r) == IF r.result = "panic" THEN "panic"
             ELSE IF r.result # "ok" THEN "key-generation-failed"
             ELSE IF ~(r.reparse_equal /\ r.same_public /\ r.text_roundtrip) THEN "generated-key-does-not-survive-serialisation"
             ELSE "ok"

Verdict(r) ==
  IF r.fn = "keyrel" THEN KeyRel(r)
  ELSE IF r.fn = "keygen" THEN KeyGen(r)
  ELSE IF r.fn # "keyparse" THEN "unknown-record"
  ELSE IF r.result \in {"panic", "panic-after-accept"} THEN "panic"
  ELSE LET b == r.bytes
           long == r.len > 130                       \* only RSA material is that long; its bytes are not needed by the predicate
           e0 == Expected(r.be, r.ver, r.kind, IF long THEN <<48>> ELSE b, r.oracle)
           \* damaged DER (not a conforming encoding to begin with) that the independent parser still reads but the RustCrypto
           \* parser does not: the two DER parsers disagree on well-formedness, nothing is demanded (Keys!Expected says the same
           \* for the opposite disagreement)
           e == IF e0 = "accept" /\ r.ver = 1 /\ r.kind # "local" /\ r.cls \notin {"valid", "rsa-der", "rsa-pem"} /\ r.oracle.rc_bits = 0
                THEN "either" ELSE e0
       IN IF e = "accept" /\ ~r.ok THEN "valid-key-rejected"
          ELSE IF e = "reject" /\ r.ok THEN "invalid-key-accepted"
          ELSE IF r.ok /\ ~PostOK(r.ver, r.kind, r.ver # 1 \/ r.kind = "local" \/ r.cls \in {"valid", "rsa-der"}, r.post) THEN "accepted-key-misbehaves"
          ELSE "ok"

ObsOK == i <= 0 \/ LET v == Verdict(Rec[i]) IN v = "ok" \/ PrintT(<<"VIOL", i, v>>)
=============================================================================
