INIT Init
NEXT Next
INVARIANT ObsOK
CHECK_DEADLOCK FALSE
