----------------------------- MODULE Obs_Typing ------------------------------
(* Observation-set validation for C18: rustc's verdict on each generated       *)
(* program, per backend crate.                                                  *)
EXTENDS Typing, Sequences, Json, IOUtils, TLC

Rec == ndJsonDeserialize(IOEnv.OBS)
N == Len(Rec)
Buckets == 16

VARIABLE i
Init == i = 0
Next == \/ i = 0 /\ i' \in {0 - b : b \in 1..Buckets}
        \/ i < 0 /\ i' \in {k \in 1..N : k % Buckets = (0 - i) - 1}

\* error codes that mean "rejected by the type system at the probed expression":
\* mismatched types, unsatisfied trait bound, no such method/impl for the type, type mismatch in projection,
\* private field, missing Display/Debug/Serialize impl, binary-op/From not implemented
TypeErrors == {"E0308", "E0277", "E0599", "E0271", "E0616", "E0369", "E0282", "E0283", "E0609", "E0614", "E0624", "E0603"}

Verdict(r) ==
  IF r.fn # "probe" THEN "unknown-record"
  ELSE LET want == Permitted([op |-> r.op, k |-> r.k, rel |-> r.rel]) IN
       IF want /\ ~r.compiled THEN "well-typed-program-rejected"
       ELSE IF ~want /\ r.compiled THEN "misuse-compiles"
       ELSE IF ~want /\ (Len(r.codes) = 0 \/ \E c \in 1..Len(r.codes) : r.codes[c] \notin TypeErrors) THEN "probe-failed-for-another-reason"
       ELSE "ok"

ObsOK == i <= 0 \/ LET v == Verdict(Rec[i]) IN v = "ok" \/ PrintT(<<"VIOL", i, v>>)
=============================================================================
