------------------------------ MODULE Obs_Cross ------------------------------
(* Observation-set validation for C10: a valid serialised value of (source    *)
(* backend, kind) offered to the parser of (destination backend, kind).        *)
EXTENDS TextFormat, Json, IOUtils, TLC

Rec == ndJsonDeserialize(IOEnv.OBS)
N == Len(Rec)
Buckets == 64

VARIABLE i
Init == i = 0
Next == \/ i = 0 /\ i' \in {0 - b : b \in 1..Buckets}
        \/ i < 0 /\ i' \in {k \in 1..N : k % Buckets = (0 - i) - 1}

\* the PASERK text kind a parser / value belongs to (PKE keys share the public / secret text form by design)
TextKindOf(k) ==
  CASE k \in {"key.local", "keytext.local"} -> "key.local"
    [] k \in {"key.public", "keytext.public", "key.pkepublic"} -> "key.public"
    [] k \in {"key.secret", "keytext.secret", "key.pkesecret"} -> "key.secret"
    [] k \in {"id.pid", "id.pkepid"} -> "id.pid"          \* the id of a key-sealing public key is a pid
    [] k \in {"id.sid", "id.pkesid"} -> "id.sid"
    [] OTHER -> k

FullKeyParser(k) == k \in {"key.local", "key.public", "key.secret", "key.pkepublic", "key.pkesecret"}
\* v1 signing keys are RSA-2048 and v1 PKE keys RSA-4096: the same text form, different validity
RsaClass(k) == IF k \in {"key.pkepublic", "key.pkesecret"} THEN "pke" ELSE "sig"

\* fixed key lengths (Versions.tla); 0 = variable (v1 DER)
KeyLenOf(ver, kind) == CASE kind = "key.local" -> 32
                         [] kind = "key.public" -> (CASE ver = 3 -> 49 [] ver \in {2, 4} -> 32 [] OTHER -> 0)
                         [] kind = "key.secret" -> (CASE ver = 3 -> 48 [] ver \in {2, 4} -> 64 [] OTHER -> 0)
                         \* key-sealing keys: P-384 keys (k3), Ed25519-shaped keys converted to X25519 (k2, k4), RSA (k1: DER, no fixed length)
                         [] kind = "key.pkepublic" -> (CASE ver = 3 -> 49 [] ver \in {2, 4} -> 32 [] OTHER -> 0)
                         [] kind = "key.pkesecret" -> (CASE ver = 3 -> 48 [] ver \in {2, 4} -> 64 [] OTHER -> 0)
                         [] kind \in {"id.lid", "id.pid", "id.sid", "id.pkepid", "id.pkesid"} -> 33

Verdict(r) ==
  IF r.fn = "xbody" THEN
       (IF r.result = "panic" THEN "panic"
        ELSE IF r.ok /\ KeyLenOf(r.dst_ver, r.dst_kind) # 0 /\ r.body_len # KeyLenOf(r.dst_ver, r.dst_kind)
             THEN "bytes-of-another-kinds-length-accepted-as-key" ELSE "ok")
  ELSE IF r.fn = "xsuffix" THEN          \* the payload encoding (header suffix) is part of the kind
       (IF r.panic THEN "panic"
        ELSE IF r.src_suffix # r.dst_suffix /\ r.parsed THEN "token-of-another-payload-encoding-accepted"
        ELSE IF r.src_suffix = r.dst_suffix /\ ~(r.parsed /\ r.opened) THEN "own-payload-encoding-rejected"
        ELSE "ok")
  ELSE IF r.fn = "xser" THEN (IF r.binary_form_is_the_text THEN "ok" ELSE "binary-serde-form-drops-the-version-and-kind-header")
  ELSE IF r.fn = "xserde" THEN          \* through serde in a binary format: the same separation as through FromStr
       (LET same == r.src_ver = r.dst_ver /\ TextKindOf(r.src_kind) = TextKindOf(r.dst_kind)
        IN IF r.result = "panic" THEN "panic"
           ELSE IF ~same /\ r.ok THEN "accepted-as-another-version-or-kind-through-serde"
           ELSE IF same /\ r.form = "text" /\ ~r.ok THEN "own-kind-rejected-through-serde"
           ELSE "ok")
  ELSE IF r.fn # "xparse" THEN "unknown-record"
  ELSE IF r.result = "panic" THEN "panic"
  ELSE LET same == r.src_ver = r.dst_ver /\ TextKindOf(r.src_kind) = TextKindOf(r.dst_kind)
           grammar == ParseText(TextKindOf(r.dst_kind), r.dst_ver, r.text, TRUE).ok
       IN IF ~same /\ r.ok THEN "accepted-as-another-version-or-kind"
          ELSE IF ~same /\ grammar THEN "specification-grammar-is-not-prefix-free"
          ELSE IF same /\ ~grammar THEN "source-value-not-wellformed"
          ELSE IF same /\ ~r.ok /\ ~(FullKeyParser(r.dst_kind) /\ r.dst_ver = 1 /\ RsaClass(r.src_kind) # RsaClass(r.dst_kind))
               THEN "own-kind-rejected"
          ELSE IF same /\ r.ok /\ FullKeyParser(r.dst_kind) /\ r.dst_ver = 1 /\ FullKeyParser(r.src_kind) /\ RsaClass(r.src_kind) # RsaClass(r.dst_kind)
               THEN "rsa-key-of-the-wrong-size-accepted"
          ELSE "ok"

ObsOK == i <= 0 \/ LET v == Verdict(Rec[i]) IN v = "ok" \/ PrintT(<<"VIOL", i, v>>)
=============================================================================
