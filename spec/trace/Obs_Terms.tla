------------------------------ MODULE Obs_Terms ------------------------------
(* Observation-set validation for C03 / C07 / C13.  Each record reports, for  *)
(* one L1 case (Gen_Terms.tla) at one backend, whether the relation the        *)
(* specification prescribes between the real bytes and the evaluated term      *)
(* holds.  Which relation is prescribed for which (operation, direction,       *)
(* version) is decided here; the evaluator's counter increment is checked      *)
(* against Ctr.tla on the same file.                                           *)
EXTENDS Ctr, Versions, Json, IOUtils, TLC

Rec == ndJsonDeserialize(IOEnv.OBS)
N == Len(Rec)
Buckets == 32

VARIABLE i
Init == i = 0
Next == \/ i = 0 /\ i' \in {0 - b : b \in 1..Buckets}
        \/ i < 0 /\ i' \in {k \in 1..N : k % Buckets = (0 - i) - 1}

Deterministic(ver) == ver \in {2, 4}        \* Ed25519 signatures are a function of key and message

\* the relation the specification prescribes
Prescribed(r) ==
  CASE r.dir \in {"forward", "backward", "stable", "vector"} -> "equal"
    [] r.dir = "verify" -> "valid"
    [] r.dir = "reference" -> "accepted-same"
    [] OTHER -> "none"

Verdict(r) ==
  CASE r.fn = "idcmp" ->
         LET want == CmpBE(r.a, r.b) IN
         IF r.cmp # want \/ r.partial_cmp # want THEN "key-id-ordering-disagrees-with-bytes"
         ELSE IF r.eq # (r.a = r.b) THEN "key-id-equality-disagrees-with-bytes"
         ELSE IF r.a = r.b /\ ~r.hash_eq THEN "equal-key-ids-hash-differently"
         ELSE IF ~r.bytes_back THEN "key-id-bytes-not-preserved" ELSE "ok"
    [] r.fn = "idparse" ->
         IF r.panic THEN "key-id-parser-panicked"
         ELSE IF r.ok /\ ~r.header_exact THEN "key-id-with-a-malformed-type-header-accepted"
         ELSE IF r.header_exact /\ r.ok # (r.len = 33) THEN (IF r.ok THEN "key-id-of-the-wrong-length-accepted" ELSE "33-byte-key-id-rejected")
         ELSE IF r.de_ok # r.ok THEN "serde-accepts-another-set-of-key-id-strings"
         ELSE IF r.ok /\ ~(r.text_back /\ r.bytes_back) THEN "key-id-does-not-round-trip-through-text"
         ELSE IF r.ok /\ ~r.serde_same THEN "key-id-differs-through-serde" ELSE "ok"
    [] r.fn = "inc128" -> IF r.out = Inc128(r.x, r.j) THEN "ok" ELSE "evaluator-counter-arithmetic-differs-from-Ctr"
    [] r.fn = "term" ->
         IF r.rel # Prescribed(r) THEN "wrong-relation-reported"
         ELSE IF r.kind = "public" /\ r.dir = "forward" /\ ~Deterministic(r.ver) THEN "equality-demanded-of-randomized-signature"
         ELSE IF r.holds THEN "ok"
         ELSE CASE r.dir = "reference" -> "spec-conforming-input-not-accepted-or-differs"
                [] r.dir = "vector" -> "L1-does-not-reproduce-an-official-vector"
                [] r.dir = "verify" -> "signature-invalid-under-independent-verifier"
                [] OTHER -> "output-differs-from-spec"
    [] OTHER -> "unknown-record"

ObsOK == i <= 0 \/ LET v == Verdict(Rec[i]) IN v = "ok" \/ PrintT(<<"VIOL", i, v>>)
=============================================================================
