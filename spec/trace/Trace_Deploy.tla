---------------------------- MODULE Trace_Deploy ----------------------------
(* Validates what the real crates did, when driven through behaviours of Deploy.tla, against Deploy.tla itself.        *)
(* Each Act event carries the action descriptor the harness executed plus what it observed: whether the call succeeded, *)
(* the verdict a Verify released, and the verifier's key store projected onto (kind, slot).  A trace action is         *)
(*   IsEvent("Act") /\ Deploy!Do(descriptor) /\ observed outcome = last' /\ observed store = store'.                   *)
(* When no action of the specification explains an event, Mismatch prints a VIOL tuple and resumes at the next Reset.  *)
EXTENDS Naturals, Sequences, FiniteSets, TLC, Json, IOUtils

Rec == ndJsonDeserialize(IOEnv.TRACE)
N == Len(Rec)

VARIABLES gen, store, via, blobs, net, issued, accepted, clock, last, l

D == INSTANCE Deploy WITH Slots <- 1..3, Evil <- 3, ClaimSet <- 1..2, NoteSet <- 0..1, Services <- {"a", "b"}, MaxNet <- 8, MaxBlobs <- 8, MaxClock <- 3, Weaken <- "none"

dvars == <<gen, store, via, blobs, net, issued, accepted, clock, last>>
E == Rec[l]
IsEvent(name) == l <= N /\ E.ev = name /\ l' = l + 1
SetOf(seq) == {seq[k] : k \in 1..Len(seq)}

TInit == D!Init /\ l = 1

Fresh ==
  /\ gen' = [s \in 1..3 |-> "none"]
  /\ store' = {} /\ via' = {} /\ blobs' = << >> /\ net' = << >> /\ issued' = {} /\ accepted' = {} /\ clock' = 0
  /\ last' = D!Done(TRUE)

TReset == IsEvent("Reset") /\ Fresh

TAct ==
  /\ IsEvent("Act")
  /\ D!Do(D!Act(E.a, E.s, E.k, E.u, E.i, E.j, E.c, E.n, E.t))
  /\ last'.ok = E.ok
  /\ last'.acc = [kind |-> E.acc.kind, key |-> E.acc.key, claims |-> E.acc.claims, note |-> E.acc.note, aud |-> E.acc.aud]
  /\ store' = {[kind |-> e.kind, key |-> e.key] : e \in SetOf(E.store)}

Matched == TReset \/ TAct

NextReset(k) == IF \E m \in k..N : Rec[m].ev = "Reset" THEN CHOOSE m \in k..N : Rec[m].ev = "Reset" /\ \A m2 \in k..(m - 1) : Rec[m2].ev # "Reset" ELSE N + 1

Mismatch ==
  /\ l <= N
  /\ ~ENABLED Matched
  /\ PrintT(<<"VIOL", l, E.ev, <<E.a, Len(net), Len(blobs)>>>>)
  /\ l' = NextReset(l + 1)
  /\ Fresh

TNext == Matched \/ Mismatch

\* the design's invariants are evaluated in every state of every recorded behaviour
TraceInv == D!Authentic /\ D!Addressed /\ D!StoreTyped /\ D!ClosedChannels /\ D!ViaComplete
Done == l = N + 1 => PrintT(<<"DONE", l>>)
=============================================================================
