------------------------------ MODULE Obs_Shared -----------------------------
(* Observation-set validation for C17.  The key is immutable in Shared.tla,   *)
(* so any merge order of the threads' events is a behaviour: each result is    *)
(* validated against the sequential function (the same call on a fresh copy   *)
(* of the key), without ordering events across threads.                        *)
EXTENDS Naturals, Sequences, Json, IOUtils, TLC

Rec == ndJsonDeserialize(IOEnv.OBS)
N == Len(Rec)
Buckets == 64

VARIABLE i
Init == i = 0
Next == \/ i = 0 /\ i' \in {0 - b : b \in 1..Buckets}
        \/ i < 0 /\ i' \in {k \in 1..N : k % Buckets = (0 - i) - 1}

Verdict(r) ==
  IF r.fn # "shared" THEN "unknown-record"
  ELSE IF r.panic THEN "crash-or-panic"
  ELSE IF r.det /\ (r.ok # r.ref_ok \/ r.res # r.ref_res) THEN "result-differs-from-sequential-use-of-a-fresh-copy"
  ELSE IF ~r.det /\ (~r.ok \/ ~r.post_ok) THEN "randomized-result-fails-its-sequential-postcondition"
  ELSE "ok"

ObsOK == i <= 0 \/ LET v == Verdict(Rec[i]) IN v = "ok" \/ PrintT(<<"VIOL", i, v>>)
=============================================================================
