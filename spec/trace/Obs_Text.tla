------------------------------ MODULE Obs_Text ------------------------------
(* Observation-set validation for C09: every record of the NDJSON file is   *)
(* one call of the real code (decoder, encoder, FromStr/Display/serde of a  *)
(* text type at some backend); the specification computes what it must be.  *)
EXTENDS TextFormat, Json, IOUtils, TLC

Rec == ndJsonDeserialize(IOEnv.OBS)
N == Len(Rec)
Buckets == 64

VARIABLE i
\* fan-out in two levels so that TLC's workers share the records
Init == i = 0
Next == \/ i = 0 /\ i' \in {0 - b : b \in 1..Buckets}
        \/ i < 0 /\ i' \in {k \in 1..N : k % Buckets = (0 - i) - 1}

BeVer(be) == CASE be = "v1" -> 1 [] be = "v2" -> 2 [] be \in {"v3", "v3lc"} -> 3 [] be \in {"v4", "v4na"} -> 4

Verdict(r) ==
  CASE r.fn = "dec" ->
         LET d == Decode(r.in) IN
         IF r.ok # d.ok THEN (IF r.ok THEN "accepted-noncanonical" ELSE "rejected-canonical")
         ELSE IF r.ok /\ r.out # d.v THEN "decoded-bytes-differ" ELSE "ok"
    [] r.fn = "enc" -> IF r.out = Encode(r.in) THEN "ok" ELSE "encoded-chars-differ"
    [] r.fn = "parse" ->
         LET nofooter == r.kind = "token.local.nofooter"
             kind == IF nofooter THEN "token.local" ELSE r.kind
             p == ParseText(kind, BeVer(r.be), r.in, ~nofooter)
         IN IF r.ok # p.ok THEN (IF r.ok THEN "accepted-malformed" ELSE "rejected-wellformed")
            ELSE IF r.de_ok # p.ok THEN "serde-acceptance-differs"
            ELSE IF ~r.ok THEN "ok"
            ELSE IF r.out # TextOf(kind, BeVer(r.be), p.payload, p.footer) THEN "display-differs"
            ELSE IF ~SameText(kind, r.in, r.out) THEN "not-one-string-per-value"
            ELSE IF r.ser # r.out THEN "serde-form-differs"
            ELSE "ok"
    [] r.fn = "keyobj" ->      \* Key::from_str: a key object comes only out of well-formed PASERK text of its own version and kind
         LET p == ParseText(r.kind, BeVer(r.be), r.in, TRUE)
         IN IF r.panic THEN "panic"
            ELSE IF r.ok /\ ~p.ok THEN "key-accepted-from-malformed-text"
            ELSE IF r.ok /\ BeVer(r.be) # 1 /\ ~SameText(r.kind, r.in, r.out) THEN "not-one-string-per-value"
            ELSE "ok"
    [] OTHER -> "unknown-record"

ObsOK == i <= 0 \/ LET v == Verdict(Rec[i]) IN v = "ok" \/ PrintT(<<"VIOL", i, v>>)
=============================================================================
