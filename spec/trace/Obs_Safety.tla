------------------------------ MODULE Obs_Safety -----------------------------
(* Observation-set validation for C04.  Every record is one input string      *)
(* offered to one parser of one backend and the outcome of every follow-up    *)
(* operation on what was accepted.  The contract of every operation is total:  *)
(* Ok or Err; "panic" is not a result the specification has.  Where the text   *)
(* is short enough to be carried, the parse outcome itself is fixed by the     *)
(* grammar (TextFormat.tla).                                                   *)
EXTENDS TextFormat, Json, IOUtils, TLC

Rec == ndJsonDeserialize(IOEnv.OBS)
N == Len(Rec)
Buckets == 64

VARIABLE i
Init == i = 0
Next == \/ i = 0 /\ i' \in {0 - b : b \in 1..Buckets}
        \/ i < 0 /\ i' \in {k \in 1..N : k % Buckets = (0 - i) - 1}

Results == {"ok", "err", "skipped-over-budget"}

Verdict(r) ==
  IF r.fn # "safety" THEN "unknown-record"
  ELSE IF \E k \in 1..Len(r.steps) : r.steps[k].result \notin Results THEN "panic"
  ELSE IF Len(r.steps) = 0 THEN "nothing-ran"
  ELSE IF r.has_text /\ r.steps[1].op = "parse"
          /\ (r.steps[1].result = "ok") # ParseText(r.parser, r.ver, r.text, TRUE).ok
       THEN (IF r.steps[1].result = "ok" THEN "malformed-text-accepted" ELSE "wellformed-text-rejected")
  ELSE "ok"

ObsOK == i <= 0 \/ LET v == Verdict(Rec[i]) IN v = "ok" \/ PrintT(<<"VIOL", i, v>>)
=============================================================================
