------------------------------ MODULE Features -------------------------------
(***************************************************************************)
(* C19: the cargo feature lattice of the RustCrypto-based crates.  The     *)
(* feature tables (feature -> features it enables) are READ FROM THE       *)
(* Cargo.toml FILES OF THE WORKING TREE by bin/check and handed over as a  *)
(* JSON file; this module computes closures, the operations each closure   *)
(* makes available (from the property text), and checks the documented     *)
(* implications.                                                           *)
(***************************************************************************)
EXTENDS Naturals, Sequences, FiniteSets, TLC, Json, IOUtils, SequencesExt

Tables == JsonDeserialize(IOEnv.FEATURES)     \* [crate |-> [feature |-> <<enabled features>>]]
Crates == DOMAIN Tables
Feats(c) == DOMAIN Tables[c]
SetOf(s) == {s[k] : k \in 1..Len(s)}

Step(c, S) == S \cup UNION {SetOf(Tables[c][f]) \cap Feats(c) : f \in S}
RECURSIVE Closure(_, _)
Closure(c, S) == LET T == Step(c, S) IN IF T = S THEN S ELSE Closure(c, T)

\* the operation a documented feature stands for
Operations == {"verify", "sign", "decrypt", "encrypt", "id", "password-wrap", "pie-wrap", "seal-key"}
FeatureFor(op) == CASE op = "verify" -> "verifying" [] op = "sign" -> "signing" [] op = "decrypt" -> "decrypting" [] op = "encrypt" -> "encrypting"
                    [] op = "id" -> "id" [] op = "password-wrap" -> "pbkw" [] op = "pie-wrap" -> "pie-wrap" [] op = "seal-key" -> "pke"
Available(c, S) == {op \in Operations : FeatureFor(op) \in Closure(c, S)}

\* implications the documentation states (signing needs verifying, encrypting needs decrypting, every PASERK
\* operation needs encrypting, key sealing needs signing keys, `paserk` is all four PASERK features)
Documented == {<<"signing", "verifying">>, <<"encrypting", "decrypting">>, <<"pbkw", "encrypting">>, <<"pie-wrap", "encrypting">>,
               <<"pke", "encrypting">>, <<"pke", "signing">>, <<"paserk", "pbkw">>, <<"paserk", "pie-wrap">>, <<"paserk", "pke">>, <<"paserk", "id">>}

VARIABLES c, S
Init == c \in Crates /\ S \in SUBSET (Feats(c) \ {"default"})
Next == UNCHANGED <<c, S>>

Idempotent == Closure(c, Closure(c, S)) = Closure(c, S)
Monotone == \A f \in Feats(c) : Closure(c, S) \subseteq Closure(c, S \cup {f})
AvailabilityMonotone == \A f \in Feats(c) : Available(c, S) \subseteq Available(c, S \cup {f})
DocumentedHold ==
  \A d \in Documented : (d[1] \in Feats(c) /\ d[1] \in Closure(c, S)) =>
      (d[2] \in Closure(c, S) \/ PrintT(<<"VIOL", 0, "documented-implication-missing", c, d[1], d[2]>>))
DefaultIsEverything ==
  ("default" \in Feats(c) /\ "signing" \in Feats(c) /\ S = {}) =>
      (Available(c, {"default"}) = Operations \/ PrintT(<<"VIOL", 0, "default-features-do-not-enable-everything", c>>))

Emit == PrintT(<<"FEAT", c, ToJson(SetToSeq(S)), ToJson(SetToSeq(Closure(c, S))), ToJson(SetToSeq(Available(c, S)))>>)
=============================================================================
