-------------------------------- MODULE Keys ---------------------------------
(***************************************************************************)
(* Which byte strings are keys (C08), per PASETO version and key kind,     *)
(* from the PASETO / PASERK texts:                                         *)
(*   local            exactly 32 bytes, any value                          *)
(*   v2/v4 public     32 bytes that are a point of edwards25519            *)
(*   v2/v4 secret     64 bytes: seed || public key OF THAT SEED            *)
(*   v3 public        49 bytes: SEC1 compressed point (tag 02/03) on P-384 *)
(*   v3 secret        48 bytes: big-endian scalar in 1 .. n-1              *)
(*   v1 public/secret DER (or PEM) RSA key with a 2048-bit modulus;        *)
(*   v1 PKE keys      the same with a 4096-bit modulus                     *)
(* Curve membership and RSA parsing are not computable in TLC: they are    *)
(* uninterpreted predicates whose value is supplied by an oracle           *)
(* independent of the backend under test (`o`).  The verdict is            *)
(* three-valued: where the texts leave room ("either") no verdict is       *)
(* demanded.                                                               *)
(***************************************************************************)
EXTENDS Bytes

P384Order == <<255, 255, 255, 255, 255, 255, 255, 255, 255, 255, 255, 255, 255, 255, 255, 255, 255, 255, 255, 255, 255, 255, 255, 255,
               199, 99, 77, 129, 244, 55, 45, 223, 88, 26, 13, 178, 72, 176, 167, 122, 236, 236, 25, 106, 204, 197, 41, 115>>

ScalarInRange(b) == Len(b) = 48 /\ ~AllEq(b, 0) /\ CmpBE(b, P384Order) < 0

PublicKinds == {"public", "pkepublic"}
SecretKinds == {"secret", "pkesecret"}

\* which oracle is independent of the backend
P384OnCurve(be, o) == IF be = "v3" THEN o.lc_decodes ELSE o.rc_decodes
RsaBits(be, o) == o.lc_bits                      \* paseto-v1 is RustCrypto: aws-lc is the independent parser

Expected(be, ver, kind, b, o) ==
  CASE kind = "local" -> IF Len(b) = 32 THEN "accept" ELSE "reject"
    [] ver \in {2, 4} /\ kind \in PublicKinds ->
         IF Len(b) # 32 \/ ~o.ed_on_curve THEN "reject"
         ELSE IF o.ed_strict THEN "accept" ELSE "either"        \* small-order / non-canonical encodings: not demanded either way
    [] ver \in {2, 4} /\ kind \in SecretKinds ->
         IF Len(b) = 64 /\ o.pk_of_seed = Drop(b, 32) THEN "accept" ELSE "reject"
    [] ver = 3 /\ kind \in PublicKinds ->
         IF Len(b) = 49 /\ b[1] \in {2, 3} /\ P384OnCurve(be, o) THEN "accept" ELSE "reject"
    [] ver = 3 /\ kind \in SecretKinds -> IF ScalarInRange(b) THEN "accept" ELSE "reject"
    [] ver = 1 ->
         LET want == IF kind \in {"pkepublic", "pkesecret"} THEN 4096 ELSE 2048
         IN IF RsaBits(be, o) = want THEN "accept"
            ELSE IF RsaBits(be, o) = 0 /\ o.rc_bits = want THEN "either"   \* the two DER parsers disagree on well-formedness
            ELSE "reject"

EncodedLen(ver, kind) ==
  CASE kind = "local" -> 32
    [] ver \in {2, 4} /\ kind \in PublicKinds -> 32
    [] ver \in {2, 4} -> 64
    [] ver = 3 /\ kind \in PublicKinds -> 49
    [] ver = 3 -> 48
    [] OTHER -> 0          \* v1: variable (DER)

\* what must hold of every accepted key (p = the harness' post-acceptance observations)
\* canonicalInput: the offered bytes are an encoding the format makes unique (every fixed-width kind; for v1 only DER
\* that a conforming encoder produced -- arbitrary accepted DER/PEM is canonicalised by design, so only idempotence is demanded)
PostOK(ver, kind, canonicalInput, p) ==
  /\ (canonicalInput => p.reenc_equal)        \* bytes survive serialisation unchanged
  /\ p.reenc_idempotent
  /\ p.text_roundtrip
  /\ p.clone_equal
  /\ (EncodedLen(ver, kind) # 0 => p.enc_len = EncodedLen(ver, kind))
  /\ (kind = "local" => p.use_ok)
  /\ (kind = "secret" => p.pub_matches /\ p.sign_verify)
=============================================================================
