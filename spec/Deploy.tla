------------------------------- MODULE Deploy -------------------------------
(***************************************************************************)
(* L2: the library as it is deployed.                                      *)
(*                                                                         *)
(* An issuer holds keys in numbered slots and rotates them; every token it *)
(* seals carries, in its footer, the key id (k*.lid / k*.pid) of the key it *)
(* was sealed with plus a note the issuer chose.  A verifier keeps a store  *)
(* of keys indexed by the key id it computes itself, reads the key id from  *)
(* the token's UNVERIFIED footer (SealedToken::unverified_footer), selects  *)
(* the key, unseals, and reports claims, key and the footer note.  Keys     *)
(* reach the verifier as PASERK: plaintext public keys, PIE wraps under a   *)
(* pre-shared key, password wraps under a pre-shared password, and PKE      *)
(* seals to the verifier's key pair.  The attacker owns the slot Evil,      *)
(* sees every message, can re-send, bit-flip and re-label PASERKs, swap     *)
(* footers between tokens, re-label tokens, seal tokens under its own keys  *)
(* with a footer naming somebody else's key id, publish its own public key  *)
(* and seal its own local key to the verifier (PKE and plaintext public     *)
(* keys are unauthenticated channels).                                      *)
(*                                                                         *)
(* Token and PASERK security are L0's guarantees (Ideal.tla); here they are *)
(* the enabling conditions of Import and Verify, and what is checked is     *)
(* what a deployment relies on: whatever the attacker does, a token is      *)
(* accepted under a key that is not the attacker's only if the owner of     *)
(* that key sealed exactly those claims with exactly that footer note, the  *)
(* store only ever maps a key id to the key it identifies and with the      *)
(* right type, and the attacker's keys never arrive over the pre-shared     *)
(* channels.  The implementation is bound to this module by replaying       *)
(* TLC-generated behaviours (spec/gen/Gen_Deploy.tla) through the real      *)
(* crates and validating what they did with spec/trace/Trace_Deploy.tla.    *)
(***************************************************************************)
EXTENDS Naturals, Sequences, FiniteSets

CONSTANTS Slots,      \* key slots (positive integers)
          Evil,       \* the attacker's slot
          ClaimSet,   \* claims values (positive integers)
          NoteSet,    \* footer notes
          Services,   \* the services that verify tokens (strings); they share the key store, each demands its own name as audience
          MaxNet, MaxBlobs,
          MaxClock,   \* the verifier's clock runs 0..MaxClock; a token expires ttl ticks after it was issued
          Weaken      \* "none": the design;  "footer" | "label" | "key" | "aud": the design with one guarantee withdrawn (spec/neg)

VARIABLES gen,        \* slot -> "none" | "local" | "pair": key material that exists
          store,      \* the verifier's key store: set of [kind, key]; indexed, in the code, by the id the verifier computes
          via,        \* how each store entry arrived: set of [kind, key, form]
          blobs,      \* PASERK messages ever sent (sequence: actions refer to them by position)
          net,        \* tokens ever sent
          issued,     \* what the owners of the slots sealed: [kind, key, claims, note]
          accepted,   \* what the verifier released
          clock,      \* the current time (issuer and verifier share it)
          last        \* outcome of the last action

vars == <<gen, store, via, blobs, net, issued, accepted, clock, last>>

Kinds == {"local", "public"}
Material(kind) == IF kind = "local" THEN "local" ELSE "pair"
StoredAs(kkind) == IF kkind = "local" THEN "local" ELSE "public"     \* a secret key is stored as its public key
Auds == Services \cup {"none"}                                        \* "none": the token carries no audience claim
NoAcc == [kind |-> "", key |-> 0, claims |-> 0, note |-> 0, aud |-> ""]
Done(ok) == [ok |-> ok, acc |-> NoAcc]

\* uniform action descriptor (the generator prints these, the trace carries them back)
Act(a, s, k, u, i, j, c, n, t) == [a |-> a, s |-> s, k |-> k, u |-> u, i |-> i, j |-> j, c |-> c, n |-> n, t |-> t]

Init ==
  /\ gen = [s \in Slots |-> "none"]
  /\ store = {} /\ via = {} /\ blobs = << >> /\ net = << >>
  /\ issued = {} /\ accepted = {} /\ clock = 0
  /\ last = Done(TRUE)

\* ---- keys ------------------------------------------------------------------
GenKey(s, m) ==
  /\ gen[s] = "none" /\ m \in {"local", "pair"}
  /\ gen' = [gen EXCEPT ![s] = m]
  /\ last' = Done(TRUE)
  /\ UNCHANGED <<store, via, blobs, net, issued, accepted, clock>>

\* ---- key distribution --------------------------------------------------------
\* form: plain | pie | pw | seal;  kind: what is inside (local | secret | public);  label: what the header says;
\* under: "own" = the verifier's pre-shared key / password / key pair, "other" = somebody else's
Blob(form, kind, key, under) == [form |-> form, kind |-> kind, label |-> kind, key |-> key, under |-> under, intact |-> TRUE]

Send(b) ==
  /\ Len(blobs) < MaxBlobs
  /\ blobs' = Append(blobs, b)
  /\ last' = Done(TRUE)
  /\ UNCHANGED <<gen, store, via, net, issued, accepted, clock>>

SendPlain(s) == gen[s] = "pair" /\ Send(Blob("plain", "public", s, "own"))
\* the attacker does not know the pre-shared key or password
SendWrapped(form, s, kind, u) ==
  /\ form \in {"pie", "pw"} /\ kind \in {"local", "secret"} /\ u \in {"own", "other"}
  /\ gen[s] = (IF kind = "local" THEN "local" ELSE "pair")
  /\ (s = Evil => u = "other")
  /\ Send(Blob(form, kind, s, u))
\* anybody can seal to the verifier's public key
SendSeal(s, u) == gen[s] = "local" /\ u \in {"own", "other"} /\ Send(Blob("seal", "local", s, u))

Flip(kind) == IF kind = "local" THEN "secret" ELSE "local"
TamperBlob(i, how) ==
  /\ i \in 1..Len(blobs)
  /\ \/ how = "flip" /\ blobs[i].form # "plain" /\ Send([blobs[i] EXCEPT !.intact = FALSE])
     \/ how = "relabel" /\ blobs[i].form \in {"pie", "pw"} /\ Send([blobs[i] EXCEPT !.label = Flip(@)])

ImportOk(b) == b.intact /\ (Weaken = "label" \/ b.label = b.kind) /\ b.under = "own"
Import(i) ==
  /\ i \in 1..Len(blobs)
  /\ LET b == blobs[i]
         e == [kind |-> StoredAs(b.label), key |-> b.key] IN     \* the verifier parses by the header it sees
     IF ImportOk(b)
     THEN /\ store' = store \cup {e}
          /\ via' = via \cup {[kind |-> e.kind, key |-> e.key, form |-> b.form]}
          /\ last' = Done(TRUE)
     ELSE /\ last' = Done(FALSE) /\ UNCHANGED <<store, via>>
  /\ UNCHANGED <<gen, blobs, net, issued, accepted, clock>>

Forget(kind, s) ==
  /\ [kind |-> kind, key |-> s] \in store
  /\ store' = store \ {[kind |-> kind, key |-> s]}
  /\ via' = {v \in via : ~(v.kind = kind /\ v.key = s)}
  /\ last' = Done(TRUE)
  /\ UNCHANGED <<gen, blobs, net, issued, accepted, clock>>

\* ---- tokens ------------------------------------------------------------------
\* head: purpose in the header;  bkind, key, claims: what the body was sealed as / with / over;
\* (bkk, bks, bnote): the footer the body is bound to;  (fkk, fks, fnote): the footer the token carries
Tok(kind, s, c, n, t, e, aud) ==
  [head |-> kind, bkind |-> kind, key |-> s, claims |-> c, exp |-> e, aud |-> aud,
   bkk |-> kind, bks |-> t, bnote |-> n, fkk |-> kind, fks |-> t, fnote |-> n]

Emit(t) ==
  /\ Len(net) < MaxNet
  /\ net' = Append(net, t)
  /\ last' = Done(TRUE)
  /\ UNCHANGED <<gen, store, via, blobs, accepted, clock>>

\* the owner of slot s seals claims c; an honest issuer names its own key in the footer, the attacker may name slot t
\* the claims are built with RegisteredClaims::new(now, ttl): not valid before now, expiring ttl ticks later;
\* for_audience(aud) names the service the token is meant for (or nobody)
Issue(s, kind, c, n, t, ttl, aud) ==
  /\ kind \in Kinds /\ c \in ClaimSet /\ n \in NoteSet /\ ttl \in 0..1 /\ aud \in Auds
  /\ gen[s] = Material(kind)
  /\ gen[t] = Material(kind)
  /\ (s # Evil => t = s)
  /\ Emit(Tok(kind, s, c, n, t, clock + ttl, aud))
  /\ issued' = IF t = s THEN issued \cup {[kind |-> kind, key |-> s, claims |-> c, note |-> n, aud |-> aud]} ELSE issued

Refoot(i, j) ==
  /\ i \in 1..Len(net) /\ j \in 1..Len(net) /\ i # j
  /\ Emit([net[i] EXCEPT !.fkk = net[j].fkk, !.fks = net[j].fks, !.fnote = net[j].fnote])
  /\ UNCHANGED issued

Relabel(i) ==
  /\ i \in 1..Len(net)
  /\ Emit([net[i] EXCEPT !.head = IF @ = "local" THEN "public" ELSE "local"])
  /\ UNCHANGED issued

VerifyOk(t, who) ==
  /\ t.head = t.bkind                                            \* C10: a body is only ever opened as what it was sealed as
  /\ (Weaken = "footer" \/ <<t.fkk, t.fks, t.fnote>> = <<t.bkk, t.bks, t.bnote>>)   \* C02: the footer is authenticated
  /\ t.fkk = t.head                                              \* a lid names local keys, a pid public keys
  /\ [kind |-> t.head, key |-> t.fks] \in store                  \* C13: lookup by key id
  /\ (Weaken = "key" \/ t.key = t.fks)                          \* C02: only the sealing key opens it
  /\ t.exp >= clock                                              \* C11: Time::valid_at(now) - released only while not expired
  /\ (Weaken = "aud" \/ t.aud = who)                             \* C11: .and_then(ForAudience(who)) - a missing audience is not this service's
\* service `who` verifies token i
Verify(i, who) ==
  /\ i \in 1..Len(net) /\ who \in Services
  /\ LET t == net[i]
         a == [kind |-> t.head, key |-> t.fks, claims |-> t.claims, note |-> t.fnote, aud |-> who] IN
     IF VerifyOk(t, who)
     THEN accepted' = accepted \cup {a} /\ last' = [ok |-> TRUE, acc |-> a]
     ELSE last' = Done(FALSE) /\ UNCHANGED accepted
  /\ UNCHANGED <<gen, store, via, blobs, net, issued, clock>>

Tick ==
  /\ clock < MaxClock
  /\ clock' = clock + 1
  /\ last' = Done(TRUE)
  /\ UNCHANGED <<gen, store, via, blobs, net, issued, accepted>>

\* ---- dispatch ------------------------------------------------------------------
Do(x) ==
  CASE x.a = "GenKey"     -> GenKey(x.s, x.k)
    [] x.a = "SendPlain"  -> SendPlain(x.s)
    [] x.a = "SendPie"    -> SendWrapped("pie", x.s, x.k, x.u)
    [] x.a = "SendPw"     -> SendWrapped("pw", x.s, x.k, x.u)
    [] x.a = "SendSeal"   -> SendSeal(x.s, x.u)
    [] x.a = "TamperBlob" -> TamperBlob(x.i, x.k)
    [] x.a = "Import"     -> Import(x.i)
    [] x.a = "Forget"     -> Forget(x.k, x.s)
    [] x.a = "Issue"      -> Issue(x.s, x.k, x.c, x.n, x.t, x.j, x.u)
    [] x.a = "Tick"       -> Tick
    [] x.a = "Refoot"     -> Refoot(x.i, x.j)
    [] x.a = "Relabel"    -> Relabel(x.i)
    [] x.a = "Verify"     -> Verify(x.i, x.u)
    [] OTHER              -> FALSE

Acts ==
  {Act("GenKey", s, m, "", 0, 0, 0, 0, 0) : s \in Slots, m \in {"local", "pair"}}
  \cup {Act("SendPlain", s, "", "", 0, 0, 0, 0, 0) : s \in Slots}
  \cup {Act(f, s, k, u, 0, 0, 0, 0, 0) : f \in {"SendPie", "SendPw"}, s \in Slots, k \in {"local", "secret"}, u \in {"own", "other"}}
  \cup {Act("SendSeal", s, "", u, 0, 0, 0, 0, 0) : s \in Slots, u \in {"own", "other"}}
  \cup {Act("TamperBlob", 0, h, "", i, 0, 0, 0, 0) : h \in {"flip", "relabel"}, i \in 1..MaxBlobs}
  \cup {Act("Import", 0, "", "", i, 0, 0, 0, 0) : i \in 1..MaxBlobs}
  \cup {Act("Forget", s, k, "", 0, 0, 0, 0, 0) : s \in Slots, k \in Kinds}
  \cup {Act("Issue", s, k, u, 0, ttl, c, n, t) : s \in Slots, k \in Kinds, c \in ClaimSet, n \in NoteSet, t \in Slots, ttl \in 0..1, u \in Auds}
  \cup {Act("Tick", 0, "", "", 0, 0, 0, 0, 0)}
  \cup {Act("Refoot", 0, "", "", i, j, 0, 0, 0) : i \in 1..MaxNet, j \in 1..MaxNet}
  \cup {Act("Relabel", 0, "", "", i, 0, 0, 0, 0) : i \in 1..MaxNet}
  \cup {Act("Verify", 0, "", u, i, 0, 0, 0, 0) : i \in 1..MaxNet, u \in Services}

Next == \E x \in Acts : Do(x)
Spec == Init /\ [][Next]_vars

\* the same relation as an explicit disjunction (what spec/proofs/Deploy_proofs.tla reasons about)
NextD ==
  \/ \E s \in Slots, m \in {"local", "pair"} : GenKey(s, m)
  \/ \E s \in Slots : SendPlain(s)
  \/ \E f \in {"pie", "pw"}, s \in Slots, k \in {"local", "secret"}, u \in {"own", "other"} : SendWrapped(f, s, k, u)
  \/ \E s \in Slots, u \in {"own", "other"} : SendSeal(s, u)
  \/ \E i \in 1..MaxBlobs, h \in {"flip", "relabel"} : TamperBlob(i, h)
  \/ \E i \in 1..MaxBlobs : Import(i)
  \/ \E k \in Kinds, s \in Slots : Forget(k, s)
  \/ \E s \in Slots, k \in Kinds, c \in ClaimSet, n \in NoteSet, t \in Slots, ttl \in 0..1, u \in Auds : Issue(s, k, c, n, t, ttl, u)
  \/ Tick
  \/ \E i \in 1..MaxNet, j \in 1..MaxNet : Refoot(i, j)
  \/ \E i \in 1..MaxNet : Relabel(i)
  \/ \E i \in 1..MaxNet, u \in Services : Verify(i, u)
SpecD == Init /\ [][NextD]_vars
DispatchIsDisjunction == [][NextD]_vars

\* ---- what a deployment relies on ----------------------------------------------
TypeOK ==
  /\ gen \in [Slots -> {"none", "local", "pair"}]
  /\ \A e \in store : e.kind \in Kinds /\ e.key \in Slots
  /\ Len(net) <= MaxNet /\ Len(blobs) <= MaxBlobs

\* a token is accepted by a service under an honest key only if that key's owner sealed those claims with that footer note
\* for that service
Authentic == \A a \in accepted : a.key # Evil => a \in issued
\* attacker tokens are accepted only as the attacker's
EvilIsEvil == \A a \in accepted : a.key = Evil => \E t \in {net[k] : k \in 1..Len(net)} : t.key = Evil /\ t.claims = a.claims
\* whoever sealed it, a service releases only what is addressed to it
Addressed == \A a \in accepted : \E k \in 1..Len(net) : net[k].claims = a.claims /\ (Weaken = "aud" \/ net[k].aud = a.aud)
\* the store maps a key id to a key of the type the id says, and only to keys that exist
StoreTyped == \A e \in store : gen[e.key] = Material(e.kind)
\* the attacker's keys never arrive over the pre-shared channels
ClosedChannels == \A v \in via : v.form \in {"pie", "pw"} => v.key # Evil
\* every store entry has a provenance
ViaComplete == \A e \in store : \E v \in via : v.kind = e.kind /\ v.key = e.key
\* a verdict is released only under a key that is in the store at that moment (revocation is immediate)
AcceptNeedsKey == [][\A a \in accepted' \ accepted : [kind |-> a.kind, key |-> a.key] \in store]_vars
\* nothing is released after it has expired, and time does not run backwards
NotExpired == [][\A a \in accepted' \ accepted : \E k \in 1..Len(net) : net[k].claims = a.claims /\ net[k].exp >= clock]_vars
ClockMonotone == [][clock' >= clock]_vars
\* the store changes only on Import and Forget; key material never changes once generated
GenStable == [][\A s \in Slots : gen[s] # "none" => gen'[s] = gen[s]]_vars
=============================================================================
