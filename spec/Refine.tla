-------------------------------- MODULE Refine --------------------------------
(***************************************************************************)
(* L1 refines L0 (C02, C06, C10, C15 at the design level).                 *)
(*                                                                         *)
(* A byte-level model of "authenticate PAE(header, nonce, ciphertext,      *)
(* footer, assertion) with a full-length tag", scaled down: bytes are      *)
(* 0/1, fields have 0..2 bytes, the tag has TagLen bytes.  The MAC is       *)
(* perfect: byte j of the tag of (key, data) is the term <<"mac", key,      *)
(* data, j>>, equal to another byte only if it is the same term; the        *)
(* attacker's own bytes are plain 0/1 and never equal a MAC byte.           *)
(*                                                                         *)
(* The attacker owns the wire: having seen the honest tokens, it presents   *)
(* any header, any nonce, any ciphertext / footer / assertion made of the   *)
(* bytes it has seen or of its own (which covers every bit flip, boundary   *)
(* shift, truncation, extension and splice at this scale), any tag made of  *)
(* seen tag bytes or its own, to any key.                                   *)
(*                                                                         *)
(* The construction is a parameter (Encode, TagOK, which pieces are         *)
(* authenticated) so that the same module checks the real construction     *)
(* and the deliberately broken variants under spec/neg/.                    *)
(***************************************************************************)
EXTENDS PAE, FiniteSets, TLC

CONSTANTS Keys, Headers, TagLen,
          Variant      \* "spec" | "no-length-prefix" | "prefix-tag" | "header-not-authenticated" | "empty-pieces-dropped"

Bit == {0, 1}
Field == UNION {[1..n -> Bit] : n \in 0..2}           \* byte strings of length 0..2 over {0,1}

\* ---- the construction under test ----------------------------------------
PiecesOf(h, n, c, f, i) ==
  CASE Variant = "header-not-authenticated" -> <<n, c, f, i>>
    [] Variant = "empty-pieces-dropped" -> <<<<h>>, n, c>> \o (IF f = << >> THEN << >> ELSE <<f>>) \o (IF i = << >> THEN << >> ELSE <<i>>)
    [] OTHER -> <<<<h>>, n, c, f, i>>

Encode(pieces) ==
  IF Variant = "no-length-prefix" THEN CatAll(pieces)                       \* plain concatenation
  ELSE PAEFlat(pieces)

Tag(k, data) == [j \in 1..TagLen |-> <<"mac", k, data, j>>]

TagOK(presented, expected) ==
  IF Variant = "prefix-tag" THEN Len(presented) >= 1 /\ presented[1] = expected[1]   \* compares a prefix only
  ELSE presented = expected

Seal(k, h, n, c, f, i) == [h |-> h, n |-> n, c |-> c, f |-> f, i |-> i, t |-> Tag(k, Encode(PiecesOf(h, n, c, f, i))), k |-> k]

Accepts(k, p) == TagOK(p.t, Tag(k, Encode(PiecesOf(p.h, p.n, p.c, p.f, p.i))))

\* ---- honest world and attacker ---------------------------------------------
VARIABLES honest,     \* set of honest tokens (records with their key)
          presented,  \* what the attacker presents: [h, n, c, f, i, t]
          pkey        \* the key it is presented to

Nonce == <<1>>        \* nonces are fresh per token in L0; one value suffices for the tamper analysis

HonestTokens == {Seal(k, h, Nonce, c, f, i) : k \in Keys, h \in Headers, c \in Field, f \in {<< >>, <<0>>, <<0, 1>>}, i \in {<< >>, <<0>>, <<1, 0>>}}

SeenTagBytes == UNION {{e.t[j] : j \in 1..TagLen} : e \in honest}
\* a byte of the attacker's own making: the same shape as a MAC byte (TLC compares values of one shape), never equal to one
Forged == <<"att", CHOOSE k \in Keys : TRUE, << >>, 0>>
TagChoices == {e.t : e \in honest}
              \cup {[j \in 1..TagLen |-> IF j = 1 THEN e.t[1] ELSE Forged] : e \in honest}     \* first byte right, rest forged
              \cup {[j \in 1..TagLen |-> Forged]}                                             \* all forged
              \cup {SubSeq(e.t, 1, TagLen - 1) : e \in honest}                           \* truncated

Init == /\ \E e \in HonestTokens : honest = {e}
        /\ presented = [h |-> 0, n |-> << >>, c |-> << >>, f |-> << >>, i |-> << >>, t |-> << >>]
        /\ pkey \in Keys

Next == /\ presented.h = 0            \* one presentation per behaviour
        /\ \E h \in Headers, n \in {Nonce, << >>, <<0>>}, c \in Field, f \in Field, i \in Field, t \in TagChoices :
             presented' = [h |-> h, n |-> n, c |-> c, f |-> f, i |-> i, t |-> t]
        /\ UNCHANGED <<honest, pkey>>

\* ---- L0's acceptance rule ---------------------------------------------------
Authentic == \E e \in honest : /\ e.k = pkey /\ e.h = presented.h /\ e.n = presented.n /\ e.c = presented.c
                               /\ e.f = presented.f /\ e.i = presented.i /\ e.t = presented.t

\* the refinement: whatever L1 accepts, L0 accepts
Refines == (presented.t # << >> /\ Accepts(pkey, presented)) => Authentic
\* and every honest token is accepted by its own key (no false rejection)
HonestAccepted == \A e \in honest : Accepts(e.k, e)
=============================================================================
