-------------------------------- MODULE PAE --------------------------------
(***************************************************************************)
(* Pre-authentication encoding (PASETO Common.md, "Authentication          *)
(* Padding").  A piece is given as a sequence of fragments; the piece's    *)
(* bytes are the concatenation of its fragments.                           *)
(*   PAE(p) = LE64(#p) || for each piece: LE64(len) || bytes               *)
(* Parse is an explicit left inverse; MC_PAE checks Parse(PAE(p)) = p on   *)
(* the bounded domain, which is injectivity without enumerating pairs.     *)
(***************************************************************************)
EXTENDS Bytes

PieceBytes(frags) == CatAll(frags)

RECURSIVE PAEBody(_)
PAEBody(pieces) ==
  IF pieces = << >> THEN << >>
  ELSE LET b == PieceBytes(Head(pieces))
       IN LE64(Len(b)) \o b \o PAEBody(Tail(pieces))

PAE(pieces) == LE64(Len(pieces)) \o PAEBody(pieces)

\* PAE over already-flattened pieces
PAEFlat(flat) == PAE([i \in 1..Len(flat) |-> <<flat[i]>>])

Flatten(pieces) == [i \in 1..Len(pieces) |-> PieceBytes(pieces[i])]

\* the exact sequence of write() calls a streaming writer receives
RECURSIVE WritesBody(_)
WritesBody(pieces) ==
  IF pieces = << >> THEN << >>
  ELSE <<LE64(Len(PieceBytes(Head(pieces))))>> \o Head(pieces) \o WritesBody(Tail(pieces))
Writes(pieces) == <<LE64(Len(pieces))>> \o WritesBody(pieces)

\* ---- explicit parser ---------------------------------------------------
NoParse == [ok |-> FALSE, v |-> << >>]
Parsed(v) == [ok |-> TRUE, v |-> v]

RECURSIVE ParseBody(_, _)
ParseBody(s, n) ==
  IF n = 0 THEN (IF s = << >> THEN Parsed(<< >>) ELSE NoParse)
  ELSE IF Len(s) < 8 THEN NoParse
  ELSE LET l == FromLE(Take(s, 8))
           rest == Drop(s, 8)
       IN IF Len(rest) < l THEN NoParse
          ELSE LET tl == ParseBody(Drop(rest, l), n - 1)
               IN IF ~tl.ok THEN NoParse ELSE Parsed(<<Take(rest, l)>> \o tl.v)

Parse(s) == IF Len(s) < 8 THEN NoParse ELSE ParseBody(Drop(s, 8), FromLE(Take(s, 8)))

=============================================================================
