----------------------------- MODULE ClaimsJson ------------------------------
(***************************************************************************)
(* The wire form of RegisteredClaims (C14): a JSON object whose members    *)
(* iss, sub, aud, jti are strings and exp, nbf, iat are RFC 3339           *)
(* timestamps; absent claims are omitted.  The decoder is a state machine  *)
(* over the members in document order:                                      *)
(*   - a registered member whose slot is already set is a duplicate: error  *)
(*   - null leaves the slot empty; a value of the wrong JSON type, or a     *)
(*     string that is not a timestamp where one is required, is an error    *)
(*   - unknown members are skipped whatever their value                     *)
(* Strings and timestamps are opaque atoms here (their byte fidelity is     *)
(* decided by equality of round-tripped values, not modelled).              *)
(*                                                                         *)
(* A member is <<key, vclass, atom>>: vclass in                             *)
(*   "str" (atom = which string), "ts" (a string that is a valid timestamp, *)
(*   atom = which), "null", "num", "bool", "arr", "obj".                    *)
(***************************************************************************)
EXTENDS Naturals, Sequences

StrFields == {"iss", "sub", "aud", "jti"}
TimeFields == {"exp", "nbf", "iat"}
Fields == StrFields \cup TimeFields
FieldOrder == <<"iss", "sub", "aud", "exp", "nbf", "iat", "jti">>

Absent == << >>
EmptySlots == [f \in Fields |-> Absent]

Bad == <<"bad", 0>>

\* what a well-typed value contributes to a slot; Bad if the type is wrong for the field
ValueFor(field, vclass, atom) ==
  IF vclass = "null" THEN Absent
  ELSE IF field \in StrFields THEN (IF vclass \in {"str", "ts"} THEN <<vclass, atom>> ELSE Bad)
  ELSE (IF vclass = "ts" THEN <<vclass, atom>> ELSE Bad)

Failed == [ok |-> FALSE, slots |-> EmptySlots]

RECURSIVE Run(_, _)
Run(members, slots) ==
  IF members = << >> THEN [ok |-> TRUE, slots |-> slots]
  ELSE LET m == Head(members)
           k == m[1]
       IN IF k \notin Fields THEN Run(Tail(members), slots)                     \* ignored, whatever the value
          ELSE IF slots[k] # Absent THEN Failed                                 \* duplicate_field
          ELSE LET v == ValueFor(k, m[2], m[3])
               IN IF v = Bad THEN Failed
                  ELSE Run(Tail(members), [slots EXCEPT ![k] = v])

Decode(members) == Run(members, EmptySlots)

\* what a generic JSON parser (last occurrence wins) reads for a field; null reads as absent
RECURSIVE LastWins(_, _, _)
LastWins(members, field, acc) ==
  IF members = << >> THEN acc
  ELSE LET m == Head(members)
       IN LastWins(Tail(members), field, IF m[1] = field THEN <<m[2], m[3]>> ELSE acc)

GenericSlot(members, field) ==
  LET g == LastWins(members, field, <<"none", 0>>)
  IN IF g[1] \in {"none", "null"} THEN Absent ELSE g

\* the encoder: present fields only, in the fixed order
RECURSIVE EncodeFrom(_, _)
EncodeFrom(slots, i) ==
  IF i > Len(FieldOrder) THEN << >>
  ELSE LET f == FieldOrder[i]
       IN (IF slots[f] = Absent THEN << >> ELSE <<<<f, slots[f][1], slots[f][2]>>>>) \o EncodeFrom(slots, i + 1)
Encode(slots) == EncodeFrom(slots, 1)

\* ---- laws (checked by MC_ClaimsJson) --------------------------------------
AgreesWithGeneric(members) ==
  LET d == Decode(members) IN d.ok => \A f \in Fields : d.slots[f] = GenericSlot(members, f)
=============================================================================
