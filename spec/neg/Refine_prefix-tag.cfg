CONSTANTS
  Keys = {k1, k2}
  Headers = {1, 2}
  TagLen = 2
  Variant = "prefix-tag"
INIT Init
NEXT Next
INVARIANTS Refines HonestAccepted
CHECK_DEADLOCK FALSE
