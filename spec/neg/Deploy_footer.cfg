SPECIFICATION Spec
CONSTANTS
  Slots = {1, 2}
  Evil = 2
  ClaimSet = {1}
  NoteSet = {0, 1}
  Services = {"a"}
  MaxNet = 3
  MaxBlobs = 1
  MaxClock = 0
  Weaken = "footer"
VIEW MCView
INVARIANTS Invs
PROPERTIES AcceptNeedsKey GenStable
CHECK_DEADLOCK FALSE
