SPECIFICATION Spec
CONSTANTS
  Slots = {1, 2}
  Evil = 2
  ClaimSet = {1}
  NoteSet = {0, 1}
  Services = {"a"}
  MaxNet = 3
  MaxBlobs = 2
  MaxClock = 1
  Weaken = "none"
VIEW MCView
INVARIANTS NeverExpired
PROPERTIES AcceptNeedsKey GenStable
CHECK_DEADLOCK FALSE
