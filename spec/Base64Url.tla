----------------------------- MODULE Base64Url -----------------------------
(***************************************************************************)
(* PASETO's text encoding: unpadded URL-safe base64 (RFC 4648 section 5),  *)
(* strict and canonical.  Three definitions, related by MC_Base64:         *)
(*   Encode          total function bytes -> characters                    *)
(*   Canonical(s)    declarative acceptance: alphabet only, length not     *)
(*                   1 mod 4, unused trailing bits zero                    *)
(*   ImplDecode(s)   transcription of paseto-core/src/base64.rs            *)
(*                   (decode_6bits masks with error accumulation,          *)
(*                   decoded_len, remainder check, validate_last_block)    *)
(* Characters are byte values (the Rust decoder works on src.as_bytes()).  *)
(***************************************************************************)
EXTENDS Bytes

Sym(i) == IF i < 26 THEN 65 + i
          ELSE IF i < 52 THEN 97 + (i - 26)
          ELSE IF i < 62 THEN 48 + (i - 52)
          ELSE IF i = 62 THEN 45 ELSE 95

InAlphabet(c) == \/ c \in 65..90 \/ c \in 97..122 \/ c \in 48..57 \/ c = 45 \/ c = 95

\* value of an alphabet character
Val(c) == IF c \in 65..90 THEN c - 65
          ELSE IF c \in 97..122 THEN c - 71
          ELSE IF c \in 48..57 THEN c + 4
          ELSE IF c = 45 THEN 62 ELSE 63

EncLen(n) == 4 * (n \div 3) + (CASE n % 3 = 0 -> 0 [] n % 3 = 1 -> 2 [] n % 3 = 2 -> 3)
DecLen(n) == 3 * (n \div 4) + ((3 * (n % 4)) \div 4)

ByteAt(b, i) == IF i <= Len(b) THEN b[i] ELSE 0

\* k-th (0-based) character of the encoding of b
EncChar(b, k) ==
  LET blk == k \div 4
      b0 == ByteAt(b, 3 * blk + 1)
      b1 == ByteAt(b, 3 * blk + 2)
      b2 == ByteAt(b, 3 * blk + 3)
  IN CASE k % 4 = 0 -> Sym(b0 \div 4)
       [] k % 4 = 1 -> Sym((b0 % 4) * 16 + (b1 \div 16))
       [] k % 4 = 2 -> Sym((b1 % 16) * 4 + (b2 \div 64))
       [] k % 4 = 3 -> Sym(b2 % 64)

Encode(b) == [k \in 1..EncLen(Len(b)) |-> EncChar(b, k - 1)]

CharVal(s, i) == IF i <= Len(s) THEN Val(s[i]) ELSE 0

\* j-th (0-based) byte obtained by packing the 6-bit values of s
RawByte(s, j) ==
  LET blk == j \div 3
      c0 == CharVal(s, 4 * blk + 1)
      c1 == CharVal(s, 4 * blk + 2)
      c2 == CharVal(s, 4 * blk + 3)
      c3 == CharVal(s, 4 * blk + 4)
  IN CASE j % 3 = 0 -> (c0 * 4 + (c1 \div 16)) % 256
       [] j % 3 = 1 -> ((c1 % 16) * 16 + (c2 \div 4)) % 256
       [] j % 3 = 2 -> ((c2 % 4) * 64 + c3) % 256

DecodeRaw(s) == [j \in 1..DecLen(Len(s)) |-> RawByte(s, j - 1)]

\* ---- declarative acceptance -------------------------------------------
TrailingBitsZero(s) ==
  CASE Len(s) % 4 = 0 -> TRUE
    [] Len(s) % 4 = 2 -> Val(s[Len(s)]) % 16 = 0
    [] Len(s) % 4 = 3 -> Val(s[Len(s)]) % 4 = 0
    [] OTHER -> FALSE

Canonical(s) == /\ \A i \in 1..Len(s) : InAlphabet(s[i])
                /\ Len(s) % 4 # 1
                /\ TrailingBitsZero(s)

\* results are records with a fixed field set so that TLC can always compare them
Err == [ok |-> FALSE, v |-> << >>]
Ok(v) == [ok |-> TRUE, v |-> v]
Decode(s) == IF Canonical(s) THEN Ok(DecodeRaw(s)) ELSE Err

\* ---- implementation-shaped decoder ------------------------------------
\* decode_6bits: -1 for a non-alphabet byte (the mask sums all miss)
Impl6(c) == IF InAlphabet(c) THEN Val(c) ELSE 0 - 1

ImplErrAccum(s) ==
  \/ \E i \in 1..Len(s) : Impl6(s[i]) < 0          \* (c0|c1|c2|c3)>>8 & 1 over chunks and the padded remainder
  \/ ~(Len(s) % 4 = 0 \/ Len(s) % 4 >= 2)          \* !(src_rem.is_empty() || src_rem.len() >= 2)

LastBlockStart(len, bs) == ((IF len = 0 THEN 0 ELSE len - 1) \div bs) * bs

ImplValidateLastBlock(s, d) ==
  IF s = << >> /\ d = << >> THEN TRUE
  ELSE LET encBlock == Drop(s, LastBlockStart(Len(s), 4))
           decBlock == Drop(d, LastBlockStart(Len(d), 3))
           re == Encode(Take(decBlock, 3))          \* encode_last: at most 3 bytes, unpadded
           n == Min(Len(re), Len(encBlock))          \* zip() stops at the shorter one
       IN \A i \in 1..n : re[i] = encBlock[i]

ImplDecode(s) ==
  IF ImplErrAccum(s) THEN Err
  ELSE LET d == DecodeRaw(s)
       IN IF ImplValidateLastBlock(s, d) THEN Ok(d) ELSE Err

=============================================================================
