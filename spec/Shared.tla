------------------------------- MODULE Shared --------------------------------
(***************************************************************************)
(* C17: one key shared by several threads.  The key value is immutable:    *)
(* no operation -- succeeding or failing -- changes it, handles may be     *)
(* cloned and dropped in any order (the last owner may drop on another     *)
(* thread), and every result is the sequential function of (key value,     *)
(* operation, argument): F for deterministic operations, a postcondition   *)
(* for randomized ones.  An operation is split into Begin / End so that    *)
(* operations of different threads overlap in the model.                   *)
(***************************************************************************)
EXTENDS Naturals, Sequences, FiniteSets

CONSTANTS Threads, Ops, Args, MaxOps, KeyValue,
          Det(_),         \* Det(op): is the operation a function of its inputs?
          F(_, _, _)      \* F(key, op, arg): the sequential result of a deterministic operation

VARIABLES
  key,        \* the shared key value (never changes)
  handles,    \* thread -> number of handles (clones) it owns
  inflight,   \* thread -> << >> or <<op, arg>>
  done,       \* thread -> operations completed
  results     \* set of [t, op, arg, res] completed so far

vars == <<key, handles, inflight, done, results>>

Init == /\ key = KeyValue
        /\ handles = [t \in Threads |-> 1]
        /\ inflight = [t \in Threads |-> << >>]
        /\ done = [t \in Threads |-> 0]
        /\ results = {}

Begin(t, op, arg) ==
  /\ handles[t] > 0 /\ inflight[t] = << >> /\ done[t] < MaxOps
  /\ inflight' = [inflight EXCEPT ![t] = <<op, arg>>]
  /\ UNCHANGED <<key, handles, done, results>>

\* the operation reads the key at some point between Begin and End; since no step writes it,
\* the value read is `key` whichever interleaving occurred
End(t, res) ==
  /\ inflight[t] # << >>
  /\ LET op == inflight[t][1]
         arg == inflight[t][2]
     IN /\ (Det(op) => res = F(key, op, arg))
        /\ results' = results \cup {[t |-> t, op |-> op, arg |-> arg, res |-> res]}
  /\ inflight' = [inflight EXCEPT ![t] = << >>]
  /\ done' = [done EXCEPT ![t] = @ + 1]
  /\ UNCHANGED <<key, handles>>

Clone(t) == /\ handles[t] > 0 /\ handles[t] < 2
            /\ handles' = [handles EXCEPT ![t] = @ + 1]
            /\ UNCHANGED <<key, inflight, done, results>>

\* a handle may be handed to another thread and dropped there
Give(t, u) == /\ t # u /\ handles[t] > 0 /\ inflight[t] = << >> /\ handles[u] < 2
              /\ handles' = [handles EXCEPT ![t] = @ - 1, ![u] = @ + 1]
              /\ UNCHANGED <<key, inflight, done, results>>

Drop(t) == /\ handles[t] > 0 /\ inflight[t] = << >>
           /\ handles' = [handles EXCEPT ![t] = @ - 1]
           /\ UNCHANGED <<key, inflight, done, results>>

\* ---- properties -----------------------------------------------------------
KeyNeverChanges == key = KeyValue
SequentialResults == \A r \in results : Det(r.op) => r.res = F(KeyValue, r.op, r.arg)
\* the same deterministic call gives the same answer whatever happened before and on whichever thread
HistoryIndependent ==
  \A a, b \in results : (a.op = b.op /\ a.arg = b.arg /\ Det(a.op)) => a.res = b.res
UseOnlyWithHandle == \A t \in Threads : inflight[t] # << >> => handles[t] > 0
=============================================================================
