-------------------------------- MODULE Ideal --------------------------------
(***************************************************************************)
(* L0: the ideal functionality of PASETO tokens and PASERK wrapped keys.   *)
(*                                                                         *)
(* A table of sealed tokens and a table of wrapped/sealed keys.  Sealing   *)
(* adds an entry; unsealing accepts exactly the entries, presented with    *)
(* exactly the same bytes, footer, implicit assertion, header and key;     *)
(* the caller's decoder runs only after authentication, the validator      *)
(* only after decoding, and claims are released only if it accepts.        *)
(*                                                                         *)
(* The in-flight operation `op` carries FLAGS, not a program counter:      *)
(* steps that commute in the code (draw nonce / encode footer / encode     *)
(* claims) commute here, and the orders the properties are about are       *)
(* enforced by enabling conditions.                                        *)
(*                                                                         *)
(* All data values (keys, claims, footers, assertions, wire bytes) are     *)
(* opaque: model values in MC_Ideal, interned byte-string ids in the       *)
(* trace specifications.  `Empty` is the empty byte string.                *)
(***************************************************************************)
EXTENDS Naturals, FiniteSets, Sequences

CONSTANT Empty          \* the value that denotes the empty byte string

VARIABLES
  pubOf,     \* secret key -> its public key (learned at key generation / derivation)
  tokens,    \* set of sealed-token entries
  blobs,     \* set of wrapped / sealed key entries
  used,      \* nonces embedded in emitted local tokens and wrapped keys (freshness, C16)
  op,        \* the operation in flight, or Idle
  last       \* the last result returned to a caller (history variable for the invariants)

vars == <<pubOf, tokens, blobs, used, op, last>>

Idle == [kind |-> "idle"]
NoResult == [kind |-> "none"]

HasAssertions(ver) == ver \in {3, 4}
\* "+c": the payload type declares another encoding; its suffix is part of the header (vNc.local. / vNc.public.) and
\* therefore of a token's identity.  Base strips it.
Purposes == {"local", "public", "local+c", "public+c"}
Base(purpose) == IF purpose \in {"local", "local+c"} THEN "local" ELSE "public"

\* the key that unseals what `k` seals
UnsealKeyOf(purpose, k) == IF Base(purpose) = "local" THEN k ELSE pubOf[k]

Init == /\ pubOf = << >>
        /\ tokens = {}
        /\ blobs = {}
        /\ used = {}
        /\ op = Idle
        /\ last = NoResult

(***************************************************************************)
(* Keys                                                                    *)
(***************************************************************************)
\* a secret key and its public half become known (generation, parsing, public_key())
LearnPair(sk, pk) ==
  /\ op = Idle
  /\ (sk \in DOMAIN pubOf => pubOf[sk] = pk)      \* secret -> public is a function (C08)
  /\ pubOf' = [x \in (DOMAIN pubOf) \cup {sk} |-> IF x = sk THEN pk ELSE pubOf[x]]
  /\ UNCHANGED <<tokens, blobs, used, op, last>>

(***************************************************************************)
(* Sealing                                                                 *)
(***************************************************************************)
SealBegin(ver, purpose, key, claims, footer, aad) ==
  /\ op = Idle
  /\ purpose \in Purposes
  /\ (Base(purpose) = "public" => key \in DOMAIN pubOf)     \* a signing key's public half is known
  /\ op' = [kind |-> "seal", ver |-> ver, purpose |-> purpose, key |-> key, claims |-> claims,
            footer |-> footer, aad |-> aad,
            fEnc |-> FALSE, cEnc |-> FALSE, failed |-> FALSE, rngFailed |-> FALSE, drawn |-> << >>]
  /\ UNCHANGED <<pubOf, tokens, blobs, used, last>>

\* one draw from the random source, yielding `val`; the environment may fail it
Draw(ok, val) ==
  /\ op.kind \in {"seal", "wrap", "gen"}
  /\ ~op.failed
  /\ op' = [op EXCEPT !.failed = ~ok, !.rngFailed = ~ok, !.drawn = IF ok THEN Append(@, val) ELSE @]
  /\ UNCHANGED <<pubOf, tokens, blobs, used, last>>

EncodeFooter(ok) ==
  /\ op.kind = "seal" /\ ~op.failed /\ ~op.fEnc
  /\ op' = [op EXCEPT !.fEnc = TRUE, !.failed = ~ok]
  /\ UNCHANGED <<pubOf, tokens, blobs, used, last>>

EncodeClaims(ok) ==
  /\ op.kind = "seal" /\ ~op.failed /\ ~op.cEnc
  /\ op' = [op EXCEPT !.cEnc = TRUE, !.failed = ~ok]
  /\ UNCHANGED <<pubOf, tokens, blobs, used, last>>

AadSupported(o) == o.aad = Empty \/ HasAssertions(o.ver)

\* a token is produced: only when every step succeeded; the random fields it embeds (`fresh`:
\* the nonce of a local token; empty for deterministic signatures) were never used before (C01, C16)
Emit(wire, fresh) ==
  /\ op.kind = "seal" /\ op.fEnc /\ op.cEnc /\ ~op.failed
  /\ AadSupported(op)
  /\ fresh \cap used = {}
  /\ tokens' = tokens \cup {[ver |-> op.ver, purpose |-> op.purpose,
                             ukey |-> UnsealKeyOf(op.purpose, op.key),
                             claims |-> op.claims, footer |-> op.footer, aad |-> op.aad, wire |-> wire]}
  /\ used' = used \cup fresh
  /\ last' = [kind |-> "sealed", wire |-> wire]
  /\ op' = Idle
  /\ UNCHANGED <<pubOf, blobs>>

SealErrClasses(o) ==
  IF o.rngFailed THEN {"crypto"}
  ELSE IF o.failed THEN {"payload"}
  ELSE IF ~AadSupported(o) THEN {"claims", "format", "crypto"}
  ELSE {}                                   \* an honest seal never fails (C01)

SealFail(errc) ==
  /\ op.kind = "seal"
  /\ (op.failed \/ (op.fEnc /\ op.cEnc))
  /\ errc \in SealErrClasses(op)
  /\ last' = [kind |-> "sealfail", errc |-> errc]
  /\ op' = Idle
  /\ UNCHANGED <<pubOf, tokens, blobs, used>>

(***************************************************************************)
(* Unsealing                                                               *)
(***************************************************************************)
\* the entry, if any, that the presented token authenticates as
Matches(e, ver, purpose, wire, footer, key, aad) ==
  /\ e.ver = ver /\ e.purpose = purpose /\ e.wire = wire /\ e.footer = footer
  /\ e.ukey = key /\ e.aad = aad

Authentic(ver, purpose, wire, footer, key, aad) ==
  \E e \in tokens : Matches(e, ver, purpose, wire, footer, key, aad)

EntryOf(o) == CHOOSE e \in tokens : Matches(e, o.ver, o.purpose, o.wire, o.footer, o.key, o.aad)

\* `vaccepts`: what the caller's validator will say about the claims (an input of the
\* environment; for the built-in validators Claims.tla defines it)
UnsealBegin(ver, purpose, wire, footer, key, aad) ==
  /\ op = Idle
  /\ op' = [kind |-> "unseal", ver |-> ver, purpose |-> purpose, wire |-> wire, footer |-> footer,
            key |-> key, aad |-> aad,
            auth |-> Authentic(ver, purpose, wire, footer, key, aad),
            decoded |-> FALSE, decodeOk |-> FALSE, validated |-> FALSE, verdict |-> FALSE]
  /\ UNCHANGED <<pubOf, tokens, blobs, used, last>>

\* the caller's payload decoder runs: only on an authenticated token, on exactly the sealed bytes
Decode(bytes, ok) ==
  /\ op.kind = "unseal" /\ op.auth /\ ~op.decoded
  /\ bytes = EntryOf(op).claims
  /\ op' = [op EXCEPT !.decoded = TRUE, !.decodeOk = ok]
  /\ UNCHANGED <<pubOf, tokens, blobs, used, last>>

\* the caller's validator runs: only on decoded claims
Validate(claims, verdict) ==
  /\ op.kind = "unseal" /\ op.decoded /\ op.decodeOk /\ ~op.validated
  /\ claims = EntryOf(op).claims
  /\ op' = [op EXCEPT !.validated = TRUE, !.verdict = verdict]
  /\ UNCHANGED <<pubOf, tokens, blobs, used, last>>

Release(claims, footer) ==
  /\ op.kind = "unseal" /\ op.validated /\ op.verdict
  /\ claims = EntryOf(op).claims /\ footer = EntryOf(op).footer
  /\ last' = [kind |-> "released", claims |-> claims, footer |-> footer, entry |-> EntryOf(op)]
  /\ op' = Idle
  /\ UNCHANGED <<pubOf, tokens, blobs, used>>

ReturnErr(errc) ==
  /\ op.kind = "unseal"
  /\ \/ /\ ~op.auth /\ ~op.decoded                         \* nothing ran; a format/crypto error (C12)
        /\ errc \in ({"format", "crypto"} \cup
                     (IF op.aad # Empty /\ ~HasAssertions(op.ver) THEN {"claims"} ELSE {}))
     \/ /\ op.decoded /\ ~op.decodeOk /\ errc = "payload"
     \/ /\ op.validated /\ ~op.verdict /\ errc = "claims"
  /\ last' = [kind |-> "unsealerr", errc |-> errc, auth |-> op.auth]
  /\ op' = Idle
  /\ UNCHANGED <<pubOf, tokens, blobs, used>>

(***************************************************************************)
(* PASERK: wrap (PIE), password-wrap (PBKW), seal (PKE)                    *)
(***************************************************************************)
WrapKinds == {"pie", "pw", "seal"}

\* `with`: wrapping key (pie), password (pw), recipient public key (seal)
WrapBegin(wkind, ver, ktype, key, with) ==
  /\ op = Idle
  /\ wkind \in WrapKinds /\ ktype \in {"local", "secret"}
  /\ (wkind = "seal" => ktype = "local")
  /\ op' = [kind |-> "wrap", wkind |-> wkind, ver |-> ver, ktype |-> ktype, key |-> key, with |-> with,
            failed |-> FALSE, rngFailed |-> FALSE, drawn |-> << >>]
  /\ UNCHANGED <<pubOf, tokens, blobs, used, last>>

WrapEmit(blob, fresh) ==
  /\ op.kind = "wrap" /\ ~op.failed
  /\ fresh \cap used = {}
  /\ blobs' = blobs \cup {[wkind |-> op.wkind, ver |-> op.ver, ktype |-> op.ktype, key |-> op.key,
                           with |-> op.with, blob |-> blob]}
  /\ used' = used \cup fresh
  /\ last' = [kind |-> "wrapped", blob |-> blob]
  /\ op' = Idle
  /\ UNCHANGED <<pubOf, tokens>>

WrapFail(errc) ==
  /\ op.kind = "wrap" /\ op.rngFailed /\ errc = "crypto"
  /\ last' = [kind |-> "wrapfail", errc |-> errc]
  /\ op' = Idle
  /\ UNCHANGED <<pubOf, tokens, blobs, used>>

\* does the secret presented at unwrap time open what was wrapped with `w`?
Opens(wkind, w, presented) ==
  IF wkind = "seal" THEN presented \in DOMAIN pubOf /\ pubOf[presented] = w
  ELSE presented = w

BlobMatches(e, wkind, ver, ktype, blob, with) ==
  /\ e.wkind = wkind /\ e.ver = ver /\ e.ktype = ktype /\ e.blob = blob /\ Opens(wkind, e.with, with)

\* unwrapping is one atomic step at this level
Unwrap(wkind, ver, ktype, blob, with, ok, key, errc) ==
  /\ op = Idle
  /\ IF \E e \in blobs : BlobMatches(e, wkind, ver, ktype, blob, with)
     THEN /\ ok /\ \E e \in blobs : BlobMatches(e, wkind, ver, ktype, blob, with) /\ key = e.key
     ELSE /\ ~ok /\ errc \in {"format", "crypto", "key"}
  /\ last' = [kind |-> "unwrapped", ok |-> ok, key |-> key, wkind |-> wkind, ver |-> ver, ktype |-> ktype,
              blob |-> blob, with |-> with]
  /\ UNCHANGED <<pubOf, tokens, blobs, used, op>>

(***************************************************************************)
(* Key generation (C16): a generated key is fresh; no key after a failed   *)
(* draw                                                                    *)
(***************************************************************************)
GenBegin(ver, kind) ==
  /\ op = Idle
  /\ op' = [kind |-> "gen", ver |-> ver, ktype |-> kind, failed |-> FALSE, rngFailed |-> FALSE, drawn |-> << >>]
  /\ UNCHANGED <<pubOf, tokens, blobs, used, last>>

GenEmit(key) ==
  /\ op.kind = "gen" /\ ~op.failed
  /\ key \notin used
  /\ used' = used \cup {key}
  /\ last' = [kind |-> "generated", key |-> key]
  /\ op' = Idle
  /\ UNCHANGED <<pubOf, tokens, blobs>>

GenFail(errc) ==
  /\ op.kind = "gen" /\ op.rngFailed /\ errc \in {"crypto", "key"}
  /\ last' = [kind |-> "genfail", errc |-> errc]
  /\ op' = Idle
  /\ UNCHANGED <<pubOf, tokens, blobs, used>>

(***************************************************************************)
(* Invariants (evaluated in every state of the model and of every          *)
(* recorded implementation trace)                                          *)
(***************************************************************************)
\* C12: decode only after authentication, validate only after a successful decode
InvOrder ==
  op.kind = "unseal" => /\ (op.decoded => op.auth)
                        /\ (op.validated => op.decoded /\ op.decodeOk)

\* C02 / C01 / C11: whatever is released is an entry, presented exactly, with its own claims
InvRelease ==
  last.kind = "released" => /\ last.entry \in tokens
                            /\ last.claims = last.entry.claims
                            /\ last.footer = last.entry.footer

\* C12: an unauthenticated token yields a format/crypto class error (claims only for the
\* v1/v2 assertion refusal), never a payload error
InvErrClass ==
  (last.kind = "unsealerr" /\ ~last.auth) => last.errc \in {"format", "crypto", "claims"}

\* C05 / C06: an unwrapped key is the wrapped one
InvUnwrap ==
  (last.kind = "unwrapped" /\ last.ok) =>
     \E e \in blobs : BlobMatches(e, last.wkind, last.ver, last.ktype, last.blob, last.with) /\ e.key = last.key

\* v1/v2 tokens never carry an assertion
InvNoAadOnOldVersions == \A e \in tokens : e.aad # Empty => HasAssertions(e.ver)

TypeOK == /\ op.kind \in {"idle", "seal", "unseal", "wrap", "gen"}
          /\ last.kind \in {"none", "sealed", "sealfail", "released", "unsealerr", "wrapped", "wrapfail", "unwrapped", "generated", "genfail"}

=============================================================================
