INIT GInit
NEXT GNext
CONSTANTS
  Slots = {1, 2, 3}
  Evil = 3
  ClaimSet = {1, 2}
  NoteSet = {0, 1}
  Services = {"a", "b"}
  MaxNet = 8
  MaxBlobs = 8
  MaxClock = 3
  Weaken = "none"
  Depth = 28
INVARIANTS PrintIt
CHECK_DEADLOCK FALSE
