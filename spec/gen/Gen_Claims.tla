------------------------------ MODULE Gen_Claims -----------------------------
(* Enumerates validator expressions (by growth, up to MaxDepth) and the      *)
(* claims domain; checks the algebraic laws of Claims.tla on every           *)
(* (expression, claims) pair; prints one JSON line per expression and per    *)
(* claims value for the harness to replay on the real validators.            *)
EXTENDS Claims, TLC, Json, FiniteSets, SequencesExt

CONSTANTS MaxDepth, Wide     \* Wide: TRUE = also binary combinations at depth 3 (thorough)

Now == <<0, 0>>
\* expected strings and claim strings include the empty string and proper prefixes of one another in both directions
Strs == {"", "a", "ab"}

\* all leaves have the same record shape so that TLC can put them in one set
Leaf(op, s, k) == [op |-> op, s |-> s, k |-> k, now |-> Now]
Leaves == {Leaf("time", "", 0), Leaf("leeway", "", 0), Leaf("leeway", "", 1), Leaf("hasexp", "", 0), Leaf("none", "", 0)}
          \cup {Leaf(o, s, 0) : o \in {"iss", "sub", "aud"}, s \in Strs}

\* near points: now + c leeway units + f nanoseconds;  far points (c = +-8: about 300 years away, beyond what a 64-bit
\* nanosecond difference holds;  c = +-9: the ends of the representable range)
TimePoints == {<<c, f>> : c \in {0 - 2, 0 - 1, 0, 1, 2}, f \in {0 - 1, 0, 1}} \cup {<<c, 0>> : c \in {0 - 9, 0 - 8, 8, 9}}
OptTime == {<< >>} \cup {<<t>> : t \in TimePoints}
OptStr == {<< >>, <<"">>, <<"a">>, <<"ab">>, <<"b">>, <<"ba">>, <<"A">>}     \* "A": equal to "a" only if case is ignored;  "ba": same length and same bytes as "ab", other order
Cl(exp, nbf, iss, sub, aud) == [exp |-> exp, nbf |-> nbf, iss |-> iss, sub |-> sub, aud |-> aud]
\* time-related claims with fixed strings, string claims with fixed times
ClaimsDomain == {Cl(e, n, <<"a">>, << >>, <<"b">>) : e \in OptTime, n \in OptTime}
                \cup {Cl(<<<<1, 0>>>>, << >>, i, s, a) : i \in OptStr, s \in OptStr, a \in OptStr}
EmptyClaims == Cl(<< >>, << >>, << >>, << >>, << >>)

EmptyColl == {[op |-> w, xs |-> << >>] : w \in {"slice", "vec"}}

ChainLeaves == {Leaf("time", "", 0), Leaf("hasexp", "", 0), Leaf("iss", "a", 0), Leaf("aud", "ab", 0)}

VARIABLES e, depth, phase
Init == phase = "claims" /\ e = Leaf("none", "", 0) /\ depth = 0

Wrap1(x) == {[op |-> w, a |-> x] : w \in {"box", "rc", "arc"}}
Next ==
  \/ /\ phase = "claims" /\ phase' = "leaf" /\ UNCHANGED <<e, depth>>
  \/ /\ phase = "leaf" /\ \E l \in Leaves : e' = l
     /\ depth' = 1 /\ phase' = "grow"
  \/ /\ phase = "leaf" /\ \E x \in EmptyColl : e' = x      \* a list of no validators at all: accepts everything
     /\ depth' = 1 /\ phase' = "grow"
  \/ /\ phase = "leaf"            \* chains as users write them: a.and_then(b).and_then(c)[.and_then(d)], every link able to be the only one that refuses
     /\ \E l1 \in ChainLeaves, l2 \in ChainLeaves, l3 \in ChainLeaves :
          \/ e' = [op |-> "and", a |-> [op |-> "and", a |-> l1, b |-> l2], b |-> l3]
          \/ e' = [op |-> "and", a |-> [op |-> "and", a |-> [op |-> "and", a |-> Leaf("time", "", 0), b |-> l1], b |-> l2], b |-> l3]
     /\ depth' = MaxDepth /\ phase' = "grow"
  \/ /\ phase = "grow" /\ depth < MaxDepth
     /\ depth' = depth + 1 /\ phase' = "grow"
     /\ \/ \E w \in {"box", "rc", "arc"} : e' = [op |-> w, a |-> e]
        \/ \E l \in Leaves : e' = [op |-> "and", a |-> e, b |-> l] \/ e' = [op |-> "and", a |-> l, b |-> e]
        \/ \E l \in Leaves, w \in {"slice", "vec"} : e' = [op |-> w, xs |-> <<e, l>>] \/ e' = [op |-> w, xs |-> <<l, e>>]
        \/ \E w \in {"slice", "vec"} : e' = [op |-> w, xs |-> <<e>>] \/ e' = [op |-> w, xs |-> <<e, e, e>>]
        \/ /\ Wide /\ depth = 1
           /\ \E l1 \in Leaves, l2 \in Leaves :
                e' = [op |-> "and", a |-> [op |-> "and", a |-> e, b |-> l1], b |-> l2]
  \/ /\ phase = "grow"            \* map only at the root
     /\ \E sel \in {"x", "y"} : e' = [op |-> "map", sel |-> sel, a |-> e]
     /\ phase' = "done" /\ UNCHANGED depth

\* ---- laws, checked for every generated expression against the whole claims domain
Laws ==
  phase \in {"grow"} =>
    \A c \in ClaimsDomain :
      /\ Accepts([op |-> "and", a |-> e, b |-> e], c) = Accepts(e, c)                       \* idempotent
      /\ \A l \in Leaves : Accepts([op |-> "and", a |-> e, b |-> l], c) = Accepts([op |-> "and", a |-> l, b |-> e], c)
      /\ Accepts([op |-> "box", a |-> e], c) = Accepts(e, c)
      /\ Accepts([op |-> "vec", xs |-> <<e>>], c) = Accepts(e, c)
      /\ Accepts([op |-> "and", a |-> e, b |-> Leaf("none", "", 0)], c) = Accepts(e, c)
      /\ \A x \in EmptyColl : Accepts(x, c)
      /\ (Accepts(Leaf("time", "", 0), c) => Accepts(Leaf("leeway", "", 1), c))            \* leeway only widens
      /\ Accepts(Leaf("leeway", "", 0), c) = Accepts(Leaf("time", "", 0), c)

Emit ==
  /\ (phase = "claims" => PrintT(<<"CLAIMS", ToJson(SetToSeq(ClaimsDomain))>>))
  /\ (phase \in {"grow", "done"} => PrintT(<<"EXPR", ToJson(e)>>))
=============================================================================
