---------------------------- MODULE Gen_Histories ----------------------------
(* Enumerates operation histories (sequences of operation variants, each      *)
(* succeeding or failing) up to MaxLen for the harness to replay on one key    *)
(* per backend; after every step the result is compared with the same call on  *)
(* a fresh copy of the key (Shared!HistoryIndependent at the implementation).  *)
EXTENDS Naturals, Sequences, TLC, Json

CONSTANTS MaxLen

Variants == {"sign", "verify-good", "verify-bad", "encrypt", "decrypt-good", "decrypt-bad", "decrypt-wrong-aad",
             "unwrap-good", "unwrap-bad", "pw-unwrap-wrong-password", "unseal-good", "unseal-bad", "id", "clone-drop", "public-key",
             "pw-unwrap-good", "pw-unwrap-rejected-params", "verify-zero-signature", "decrypt-zero-body", "verify-good-other", "seal-key", "wrap-key", "unseal-degenerate"}
VARIABLE h
Init == h = << >>
Next == Len(h) < MaxLen /\ \E v \in Variants : h' = Append(h, v)
Emit == Len(h) > 0 => PrintT(<<"HIST", ToJson(h)>>)
=============================================================================
