INIT Init
NEXT Next
INVARIANTS Meta Emit
CHECK_DEADLOCK FALSE
