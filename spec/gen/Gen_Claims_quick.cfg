CONSTANTS
  MaxDepth = 2
  Wide = FALSE
INIT Init
NEXT Next
INVARIANTS Laws Emit
CHECK_DEADLOCK FALSE
