CONSTANTS
  MaxLen = 3
INIT Init
NEXT Next
INVARIANT Emit
CHECK_DEADLOCK FALSE
