CONSTANTS
  MsgLens = {0, 1, 15, 16, 17, 32, 33, 39, 47, 48, 55, 60, 64, 100, 257}
  FooterLens = {0, 9, 60}
  AadLens = {0, 7}
  V1SecretLens = {1186, 1187, 1188, 1189, 1190, 1191, 1192, 1193, 1194, 1195, 1196}
  BigTuples <- BigQuick
INIT Init
NEXT Next
INVARIANTS Emit Lengths
CHECK_DEADLOCK FALSE
