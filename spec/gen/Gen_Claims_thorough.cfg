CONSTANTS
  MaxDepth = 3
  Wide = FALSE
INIT Init
NEXT Next
INVARIANTS Laws Emit
CHECK_DEADLOCK FALSE
