----------------------------- MODULE Gen_Typing ------------------------------
(* Checks the meta-properties of the matrix and prints one probe descriptor   *)
(* per program point with the expected compiler verdict.                      *)
EXTENDS Typing, TLC, Json

VARIABLE p
Init == p \in Points
Next == UNCHANGED p

Meta == OneStepFromPermitted(p) /\ PurposeConsistency /\ PrintableKeysCannotSeal /\ NothingCrossVersion
Emit == PrintT(<<"PROBE", ToJson([op |-> p.op, k |-> p.k, rel |-> p.rel, permitted |-> Permitted(p)])>>)
=============================================================================
