------------------------------ MODULE Gen_Terms ------------------------------
(* Prints, for every (operation, version, length tuple) of the configured     *)
(* domain, the L1 term of the bytes the operation must output, as JSON.       *)
(* The harness evaluates the terms with primitive libraries independent of    *)
(* the backend under test and compares with the real output (C03/C07/C13).    *)
EXTENDS Construct, TLC, Json, IOUtils

CONSTANTS MsgLens, FooterLens, AadLens, V1SecretLens,
          BigTuples      \* extra (message, footer, assertion) length triples around the buffer sizes a streaming writer might use

BigQuick == {<<1023, 0, 0>>, <<1024, 0, 0>>, <<1025, 9, 7>>, <<4096, 0, 0>>, <<17, 1024, 0>>, <<17, 128, 129>>, <<0, 4097, 0>>, <<33, 60, 1100>>, <<512, 513, 0>>,
             \* beyond the thresholds at which an implementation might switch to a streaming / multi-part primitive
             <<16385, 0, 0>>, <<20000, 60, 9>>, <<65537, 0, 0>>}
BigThorough == BigQuick \cup {<<2048, 2049, 0>>, <<8192, 0, 0>>, <<16, 256, 255>>, <<255, 255, 255>>, <<65, 511, 64>>, <<1, 8192, 1>>}

\* extra cases requested by the orchestrator (the length tuples, PBKW costs and v1 key lengths of the official test
\* vectors, read from the vector files of the working tree): a JSON file named by PV_EXTRA, or "none"
Extra == IF IOEnv.PV_EXTRA = "none" THEN [tuples |-> << >>, pw |-> << >>, v1secret |-> << >>, v1public |-> << >>] ELSE JsonDeserialize(IOEnv.PV_EXTRA)
SeqSet(q) == {q[k] : k \in 1..Len(q)}

VARIABLE c      \* the case descriptor being printed
Init == c = <<"start">>

KeyLen(ver, ktype) == IF ktype = "local" THEN 32 ELSE SecretKeyLen(ver)

Next ==
  /\ c = <<"start">>
  /\ \/ \E ver \in 1..4, ml \in MsgLens, fl \in FooterLens, al \in AadLens :
           /\ (al > 0 => ver \in {3, 4})
           /\ c' = <<"local", ver, ml, fl, al>> \/ c' = <<"public", ver, ml, fl, al>>
     \/ \E ver \in 1..4, t \in BigTuples \cup SeqSet(Extra.tuples) :
           /\ (t[3] > 0 => ver \in {3, 4})
           /\ c' = <<"local", ver, t[1], t[2], t[3]>> \/ c' = <<"public", ver, t[1], t[2], t[3]>>
     \/ \E ver \in 1..4, kt \in {"local", "secret"} :
           \E kl \in (IF kt = "secret" /\ ver = 1 THEN V1SecretLens \cup SeqSet(Extra.v1secret) ELSE {KeyLen(ver, kt)}) :
              \/ c' = <<"pie", ver, kt, kl>>
              \/ \E p \in 1..5 : c' = <<"pw", ver, kt, kl, p>>
              \/ \E x \in SeqSet(Extra.pw) : x[1] = ver /\ c' = <<"pwx", ver, kt, kl, <<x[2], x[3], x[4]>>>>
     \/ \E ver \in 1..4 : c' = <<"pke-recv", ver>> \/ c' = <<"pke-send", ver>>
     \/ \E ver \in 1..4, kind \in {"local", "public", "secret"} :
           \E kl \in (CASE kind = "local" -> {32}
                        [] kind = "public" /\ ver # 1 -> {PublicKeyLen(ver)}
                        [] kind = "secret" /\ ver # 1 -> {SecretKeyLen(ver)}
                        [] kind = "public" -> {294} \cup SeqSet(Extra.v1public)
                        [] OTHER -> V1SecretLens \cup SeqSet(Extra.v1secret)) :
              c' = <<"keyid", ver, kind, kl>>

RndLen(ver) == IF ver = 2 THEN 24 ELSE 32

LocalCase(ver, ml, fl, al) ==
  LET k == In("key", 32)
      rnd == In("rnd", RndLen(ver))
      n == In("nonce", RndLen(ver))
      m == In("m", ml)
      f == In("f", fl)
      i == In("i", al)
  IN [kind |-> "local", ver |-> ver, mlen |-> ml, flen |-> fl, ilen |-> al,
      \* what sealing with caller randomness `rnd` must output (v1/v2 derive the nonce from it)
      payload |-> CASE ver = 1 -> V1Local(k, rnd, m, f) [] ver = 2 -> V2Local(k, rnd, m, f)
                    [] ver = 3 -> V3Local(k, rnd, m, f, i) [] ver = 4 -> V4Local(k, rnd, m, f, i),
      \* the same when the payload type declares the encoding suffix "c" (header vNc.local.)
      payload_sfx |-> CASE ver = 1 -> V1LocalS(<<99>>, k, rnd, m, f) [] ver = 2 -> V2LocalS(<<99>>, k, rnd, m, f)
                        [] ver = 3 -> V3LocalS(<<99>>, k, rnd, m, f, i) [] ver = 4 -> V4LocalS(<<99>>, k, rnd, m, f, i),
      \* the token for an arbitrary embedded nonce (reference tokens)
      payload_from_nonce |-> CASE ver = 1 -> V1LocalFromNonce(k, n, m, f) [] ver = 2 -> V2LocalFromNonce(k, n, m, f)
                               [] ver = 3 -> V3Local(k, n, m, f, i) [] ver = 4 -> V4Local(k, n, m, f, i),
      \* v3 only: the same token when the derived counter block is replaced by `iv` (verification hook)
      payload_iv |-> IF ver = 3 THEN V3LocalWith(k, n, m, f, i, In("iv", 16)) ELSE B(<< >>),
      nonce_len |-> NonceLen(ver), tag_len |-> TagLen(ver)]

PublicCase(ver, ml, fl, al) ==
  LET m == In("m", ml)
      f == In("f", fl)
      i == In("i", al)
      pk == In("pk", 49)
  IN [kind |-> "public", ver |-> ver, mlen |-> ml, flen |-> fl, ilen |-> al, sig_len |-> SigLen(ver),
      tbs |-> CASE ver = 1 -> V1ToBeSigned(m, f) [] ver = 2 -> V2ToBeSigned(m, f)
                [] ver = 3 -> V3ToBeSigned(pk, m, f, i) [] ver = 4 -> V4ToBeSigned(m, f, i),
      tbs_sfx |-> CASE ver = 1 -> V1ToBeSignedS(<<99>>, m, f) [] ver = 2 -> V2ToBeSignedS(<<99>>, m, f)
                    [] ver = 3 -> V3ToBeSignedS(<<99>>, pk, m, f, i) [] ver = 4 -> V4ToBeSignedS(<<99>>, m, f, i)]

PieCase(ver, kt, kl) ==
  [kind |-> "pie", ver |-> ver, ktype |-> kt, klen |-> kl,
   data |-> Pie(ver, kt, In("wk", 32), In("n", 32), In("ptk", kl)),
   data_iv |-> IF ver \in {1, 3} THEN Pie13With(ver, kt, In("wk", 32), In("n", 32), In("ptk", kl), In("iv", 16)) ELSE B(<< >>),
   nonce_at |-> PieTagLen(ver), nonce_len |-> PieNonceLen, len |-> PieLen(ver, kl)]

\* (iterations | mem KiB, time, para): small costs, incl. memory sizes that are not a multiple of 4 KiB and several lanes
PwCost(ver, p) == IF ver \in {1, 3} THEN (CASE p = 1 -> <<1, 0, 0>> [] p = 2 -> <<1000, 0, 0>> [] p = 3 -> <<7, 0, 0>> [] p = 4 -> <<2, 0, 0>> [] p = 5 -> <<255, 0, 0>>)
                  ELSE (CASE p = 1 -> <<8, 1, 1>> [] p = 2 -> <<64, 2, 1>> [] p = 3 -> <<9, 1, 1>> [] p = 4 -> <<1025, 3, 1>> [] p = 5 -> <<64, 1, 4>>)
PwCaseCost(ver, kt, kl, cost) ==
  LET
      pw == In("pw", 0)        \* the password's length does not enter the layout
      s == In("s", PwSaltLen(ver))
      n == In("n", PwNonceLen(ver))
      ptk == In("ptk", kl)
  IN [kind |-> "pw", ver |-> ver, ktype |-> kt, klen |-> kl, cost |-> cost,
      data |-> IF ver \in {1, 3} THEN Pw13(ver, kt, pw, s, cost[1], n, ptk)
               ELSE Pw24(ver, kt, pw, s, cost[1], cost[2], cost[3], n, ptk),
      salt_len |-> PwSaltLen(ver), param_len |-> PwParamLen(ver), nonce_len |-> PwNonceLen(ver), len |-> PwLen(ver, kl)]

PwCase(ver, kt, kl, p) == PwCaseCost(ver, kt, kl, PwCost(ver, p))

PkeCase(ver, dir) ==
  LET pdk == In("pdk", 32) IN
  CASE ver \in {2, 4} ->
         LET pk == In("pk", 32)
             xpk == EdPkToX(pk)
             epk == IF dir = "recv" THEN In("epk", 32) ELSE X25519Base(In("esk", 32))
             xk == IF dir = "recv" THEN X25519(EdSkToX(In("sk_seed", 32)), epk) ELSE X25519(In("esk", 32), xpk)
         IN [kind |-> "pke", ver |-> ver, dir |-> dir, data |-> Pke24(ver, xk, epk, xpk, pdk), len |-> SealLen(ver), data_iv |-> B(<< >>)]
    [] ver = 3 ->
         LET pk == In("pk", 49)
             epk == IF dir = "recv" THEN In("epk", 49) ELSE P384Pub(In("esk", 48))
             xk == IF dir = "recv" THEN P384Ecdh(In("sk", 48), epk) ELSE P384Ecdh(In("esk", 48), pk)
         IN [kind |-> "pke", ver |-> ver, dir |-> dir, data |-> Pke3(xk, epk, pk, pdk), len |-> SealLen(ver),
             data_iv |-> Pke3With(xk, epk, pk, pdk, In("iv", 16))]
    [] ver = 1 ->
         LET cc == IF dir = "recv" THEN In("c", 512) ELSE RsaEp(In("pk_der", 0), In("r", 512), 512)
             r == IF dir = "recv" THEN RsaDp(In("sk_der", 0), In("c", 512), 512) ELSE In("r", 512)
         IN [kind |-> "pke", ver |-> ver, dir |-> dir, data |-> Pke1(r, cc, pdk), len |-> SealLen(ver),
             data_iv |-> Pke1With(r, cc, pdk, In("iv", 16))]

KeyIdCase(ver, kind, kl) ==
  [kind |-> "keyid", ver |-> ver, ktype |-> kind, klen |-> kl,
   id |-> KeyIdBytes(ver, kind, In("keybytes", kl)),
   id_text |-> KeyIdText(ver, kind, In("keybytes", kl)),
   key_text |-> KeyText(ver, kind, In("keybytes", kl))]

CaseOf(d) ==
  CASE d[1] = "local" -> LocalCase(d[2], d[3], d[4], d[5])
    [] d[1] = "public" -> PublicCase(d[2], d[3], d[4], d[5])
    [] d[1] = "pie" -> PieCase(d[2], d[3], d[4])
    [] d[1] = "pw" -> PwCase(d[2], d[3], d[4], d[5])
    [] d[1] = "pwx" -> PwCaseCost(d[2], d[3], d[4], d[5])
    [] d[1] = "pke-recv" -> PkeCase(d[2], "recv")
    [] d[1] = "pke-send" -> PkeCase(d[2], "send")
    [] d[1] = "keyid" -> KeyIdCase(d[2], d[3], d[4])

Emit == c # <<"start">> => PrintT(<<"TERM", ToJson(CaseOf(c))>>)

\* sanity of the layout arithmetic on every generated case (lengths of the terms = Versions.tla)
Lengths ==
  c # <<"start">> =>
    LET k == CaseOf(c) IN
    CASE k.kind = "local" -> TermLen(k.payload) = TokenPayloadLen(k.ver, "local", k.mlen)
      [] k.kind \in {"pie", "pw", "pke"} -> TermLen(k.data) = k.len
      [] k.kind = "keyid" -> TermLen(k.id) = 33
      [] OTHER -> TRUE
=============================================================================
