CONSTANTS
  MsgLens = {0, 1, 2, 15, 16, 17, 31, 32, 33, 39, 47, 48, 49, 55, 56, 57, 60, 63, 64, 65, 100, 127, 128, 129, 255, 256, 257, 300, 1024}
  FooterLens = {0, 1, 9, 57, 60, 64}
  AadLens = {0, 7, 60}
  V1SecretLens = {1186, 1187, 1188, 1189, 1190, 1191, 1192, 1193, 1194, 1195, 1196}
  BigTuples <- BigThorough
INIT Init
NEXT Next
INVARIANTS Emit Lengths
CHECK_DEADLOCK FALSE
