----------------------------- MODULE Gen_Deploy -----------------------------
(* Behaviours of Deploy.tla for the harness to replay through the real crates: TLC in simulation mode walks the
   specification's own Next relation and prints, for every behaviour, the sequence of action descriptors it took.
   The harness executes them against the library (real keys, PASERKs, tokens, a real key-id-indexed store) and records
   what happened; Trace_Deploy.tla then checks the recording against the same actions. *)
EXTENDS Deploy, TLC, Json
CONSTANT Depth
VARIABLE hist
GInit == Init /\ hist = << >>
GNext == Len(hist) < Depth /\ \E x \in Acts : Do(x) /\ hist' = Append(hist, x)
\* printed once per behaviour, when it reaches the requested depth
PrintIt == Len(hist) = Depth => PrintT(<<"BEHAVIOUR", ToJson(hist)>>)
=============================================================================
