------------------------------- MODULE Typing --------------------------------
(***************************************************************************)
(* C18: the type-level permission matrix of the PASETO / PASERK API, from  *)
(* the property text.  A program point is (operation, key kind, key        *)
(* version relative to the token/operation version, second key kind where  *)
(* the operation takes two).  Permitted(p) says whether a program using    *)
(* the API that way must compile.                                          *)
(***************************************************************************)
EXTENDS Naturals, FiniteSets

Kinds == {"Local", "Public", "Secret", "PkePublic", "PkeSecret"}
Rel == {"same", "other"}          \* the key's version: the operation's own, or another one

\* operations whose only dimension is (key kind, key version)
KeyOps == {"encrypt_with", "sign_with", "decrypt_with", "verify_with", "wrap_pie_with", "unwrap_pie_with",
           \* the generic entry points (UnsealedToken::seal / dangerous_seal_with_nonce, SealedToken::unseal), per purpose
           "seal_public_with", "seal_local_with", "nonce_seal_public_with", "nonce_seal_local_with", "unseal_public_with", "unseal_local_with"}
\* operations on a key of some kind (same version)
UnaryOps == {"wrap_pie", "password_wrap", "public_key", "display", "debug", "expose_to_string", "from_bytes32", "random", "id",
             "clone", "private_field", "unseal_key_with", "seal_to",
             \* a token type instantiated at a key kind: only the two purposes are token purposes
             "token_of_purpose",
             \* serde: serialising a key value without the explicit expose call
             "serde_key",
             \* converting a key into its text form without the explicit expose call (From / Into)
             "into_keytext",
             \* nor by handing the key to caller-supplied code: Hash feeds the material into any Hasher; == between secrets is not offered either
             "key_hash", "key_eq",
             \* keys are Send and Sync (C17 relies on sharing them between threads)
             "send_sync"}
\* operations on tokens
TokenOps == {"decrypt_encrypted", "verify_signed", "verify_encrypted", "decrypt_signed",
             "display_sealed", "display_unsealed", "serde_sealed", "serde_unsealed", "serde_unsealed_claims", "serde_unencrypted_claims", "seal_inferred", "wrap_inferred", "deref_sealed", "asref_sealed", "claims_of_sealed", "footer_unverified",
             "footer_field_of_sealed", "payload_field_of_sealed", "claims_of_unsealed", "footer_of_unsealed", "debug_sealed",
             \* the backend crates' own aliases denote exactly the core types their names say
             \* the purpose-named entry points with an explicit assertion, on a token of the other purpose with the key that fits the token
             "verify_aad_on_encrypted", "decrypt_aad_on_signed", "sign_aad_on_unencrypted", "encrypt_aad_on_unsigned",
             "decrypt_aad_on_encrypted", "verify_aad_on_signed", "encrypt_aad_on_unencrypted", "sign_aad_on_unsigned",
             "alias_signed", "alias_encrypted", "alias_unsigned", "alias_unencrypted", "alias_localkey", "alias_publickey", "alias_secretkey"}

\* operations the property does not speak about for key-sealing (PKE) kinds are not probed for them,
\* and Debug is only demanded to be absent for kinds that hold secrets
SoftOps == {"display", "id", "clone", "expose_to_string", "random", "from_bytes32"}
SecretHolding == {"Local", "Secret", "PkeSecret"}
UnaryKinds(op) == IF op = "display" THEN {"Local", "Public", "Secret", "PkeSecret"}      \* no secret-holding kind prints
                  ELSE IF op \in SoftOps THEN {"Local", "Public", "Secret"}
                  ELSE IF op \in {"debug", "private_field", "serde_key", "into_keytext", "key_hash", "key_eq"} THEN SecretHolding ELSE Kinds

Points ==
  [op : KeyOps, k : Kinds, rel : Rel]
  \cup UNION {{[op |-> o, k |-> kk, rel |-> "same"] : kk \in UnaryKinds(o)} : o \in UnaryOps}
  \cup [op : TokenOps, k : {"-"}, rel : {"same"}]
  \cup [op : {"seal_key"}, k : Kinds, rel : {"same"}]          \* which kind of key is being sealed (recipient is PkePublic)

Permitted(p) ==
  CASE p.op = "encrypt_with" -> p.k = "Local" /\ p.rel = "same"
    [] p.op = "decrypt_with" -> p.k = "Local" /\ p.rel = "same"
    [] p.op = "sign_with" -> p.k = "Secret" /\ p.rel = "same"
    [] p.op = "verify_with" -> p.k = "Public" /\ p.rel = "same"
    [] p.op \in {"seal_public_with", "nonce_seal_public_with"} -> p.k = "Secret" /\ p.rel = "same"
    [] p.op \in {"seal_local_with", "nonce_seal_local_with", "unseal_local_with"} -> p.k = "Local" /\ p.rel = "same"
    [] p.op = "unseal_public_with" -> p.k = "Public" /\ p.rel = "same"
    [] p.op = "wrap_pie_with" -> p.k = "Local" /\ p.rel = "same"        \* the wrapping key
    [] p.op = "unwrap_pie_with" -> p.k = "Local" /\ p.rel = "same"
    [] p.op = "wrap_pie" -> p.k \in {"Local", "Secret"}                  \* the key being wrapped: never a public key
    [] p.op = "password_wrap" -> p.k \in {"Local", "Secret"}
    [] p.op = "seal_key" -> p.k = "Local"                                \* only local keys are sealed
    [] p.op = "seal_to" -> p.k = "PkePublic"                             \* only to a key-sealing public key
    [] p.op = "unseal_key_with" -> p.k = "PkeSecret"
    [] p.op = "token_of_purpose" -> p.k \in {"Local", "Public"}
    [] p.op = "public_key" -> p.k = "Secret"
    [] p.op = "display" -> p.k = "Public"                                \* secrets cannot be printed
    [] p.op = "debug" -> FALSE
    [] p.op = "serde_key" -> FALSE                                       \* nor through serde (a struct that merely holds a key must not leak it)
    [] p.op = "into_keytext" -> FALSE
    [] p.op \in {"key_hash", "key_eq"} -> FALSE
    [] p.op \in {"serde_unsealed_claims", "serde_unencrypted_claims"} -> FALSE   \* whatever the claims type is
    [] p.op \in {"seal_inferred", "wrap_inferred"} -> TRUE                       \* correct programs keep compiling
    [] p.op = "send_sync" -> TRUE
    [] p.op = "private_field" -> FALSE                                   \* key material only through the explicit expose call
    [] p.op = "expose_to_string" -> TRUE
    [] p.op = "from_bytes32" -> p.k = "Local"
    [] p.op = "random" -> p.k \in {"Local", "Secret"}
    [] p.op = "id" -> TRUE
    [] p.op = "clone" -> TRUE
    [] p.op = "decrypt_encrypted" -> TRUE
    [] p.op = "verify_signed" -> TRUE
    [] p.op = "verify_encrypted" -> FALSE
    [] p.op = "decrypt_signed" -> FALSE
    [] p.op = "display_sealed" -> TRUE
    [] p.op = "serde_sealed" -> TRUE
    [] p.op = "display_unsealed" -> FALSE                                \* an unsealed plaintext token is not serialisable
    [] p.op = "serde_unsealed" -> FALSE
    [] p.op = "claims_of_sealed" -> FALSE                                \* claims are reachable only after unsealing
    [] p.op = "footer_unverified" -> TRUE
    [] p.op \in {"deref_sealed", "asref_sealed"} -> FALSE                          \* (C12) nor by auto-deref / AsRef
    [] p.op = "footer_field_of_sealed" -> FALSE                          \* (C12) the footer of a sealed token only through the accessor named unverified
    [] p.op = "payload_field_of_sealed" -> FALSE
    [] p.op = "debug_sealed" -> FALSE                                    \* (C12) formatting a sealed token must not reach the unverified footer
    [] p.op \in {"alias_signed", "alias_encrypted", "alias_unsigned", "alias_unencrypted", "alias_localkey", "alias_publickey", "alias_secretkey"} -> TRUE
    [] p.op \in {"verify_aad_on_encrypted", "decrypt_aad_on_signed", "sign_aad_on_unencrypted", "encrypt_aad_on_unsigned"} -> FALSE
    [] p.op \in {"decrypt_aad_on_encrypted", "verify_aad_on_signed", "encrypt_aad_on_unencrypted", "sign_aad_on_unsigned"} -> TRUE
    [] p.op = "claims_of_unsealed" -> TRUE
    [] p.op = "footer_of_unsealed" -> TRUE

\* ---- meta-properties of the matrix (checked by MC_Typing) -----------------
\* every forbidden key-operation point differs from a permitted one in exactly one dimension
OneStepFromPermitted(p) ==
  p.op \in KeyOps /\ ~Permitted(p) =>
    \E q \in Points : /\ q.op = p.op /\ Permitted(q)
                      /\ ((q.k = p.k /\ q.rel # p.rel) \/ (q.k # p.k /\ q.rel = p.rel) \/ (q.k # p.k /\ q.rel # p.rel))
\* sealing and unsealing kinds of each purpose are consistent
PurposeConsistency ==
  /\ \A k \in Kinds : Permitted([op |-> "encrypt_with", k |-> k, rel |-> "same"]) <=> Permitted([op |-> "decrypt_with", k |-> k, rel |-> "same"])
  /\ \A k \in Kinds : ~(Permitted([op |-> "sign_with", k |-> k, rel |-> "same"]) /\ Permitted([op |-> "verify_with", k |-> k, rel |-> "same"]))
\* no key that can be printed can seal anything
PrintableKeysCannotSeal ==
  \A k \in {"Local", "Public", "Secret"} : Permitted([op |-> "display", k |-> k, rel |-> "same"]) =>
     /\ ~Permitted([op |-> "sign_with", k |-> k, rel |-> "same"]) /\ ~Permitted([op |-> "encrypt_with", k |-> k, rel |-> "same"])
     /\ ~Permitted([op |-> "wrap_pie", k |-> k, rel |-> "same"]) /\ ~Permitted([op |-> "unseal_key_with", k |-> k, rel |-> "same"])
NothingCrossVersion == \A p \in Points : p.rel = "other" => ~Permitted(p)
=============================================================================
