------------------------------- MODULE Crypto --------------------------------
(***************************************************************************)
(* Symbolic term algebra for the L1 constructions.  A term denotes a byte  *)
(* string; TLC never computes a cryptographic function, it builds the term *)
(* (everything that is arithmetic or layout -- PAE length prefixes,        *)
(* headers, labels, parameter blocks, offsets, the CTR block schedule -- is *)
(* concrete in it) and prints it as JSON.  The harness' evaluator knows no  *)
(* PASETO: it maps each node to one call of a primitive library.            *)
(***************************************************************************)
EXTENDS Bytes

B(bytes) == [op |-> "b", v |-> bytes]                       \* concrete bytes
In(name, len) == [op |-> "in", name |-> name, len |-> len]  \* a named input of declared length
Cat(xs) == [op |-> "cat", xs |-> xs]
Sl(x, from, to) == [op |-> "slice", x |-> x, from |-> from, to |-> to]   \* bytes [from, to), 0-based

Sha384(d) == [op |-> "sha384", data |-> d]
Hmac384(k, d) == [op |-> "hmac384", key |-> k, data |-> d]
Hkdf384(ikm, salt, info, n) == [op |-> "hkdf384", ikm |-> ikm, salt |-> salt, info |-> info, len |-> n]
Pbkdf2(pw, salt, iter, n) == [op |-> "pbkdf2_sha384", pw |-> pw, salt |-> salt, iter |-> iter, len |-> n]
Blake2b(k, d, n) == [op |-> "blake2b", key |-> k, data |-> d, len |-> n]       \* key = B(<<>>): unkeyed
Argon2id(pw, salt, memKiB, time, para, n) ==
  [op |-> "argon2id", pw |-> pw, salt |-> salt, mem_kib |-> memKiB, time |-> time, para |-> para, len |-> n]
AesBlock(k, blk) == [op |-> "aes256_block", key |-> k, block |-> blk]         \* AES-256 on one 16-byte block
Inc(x, j) == [op |-> "inc128", x |-> x, j |-> j]                              \* Ctr.tla Inc128
Xor(a, b) == [op |-> "xor", a |-> a, b |-> b]
XChaCha(k, n, d) == [op |-> "xchacha20_xor", key |-> k, nonce |-> n, data |-> d]
XChaChaPoly(k, n, aad, pt) == [op |-> "xchacha20poly1305", key |-> k, nonce |-> n, aad |-> aad, pt |-> pt]  \* ct || tag16
B64(x) == [op |-> "b64", x |-> x]                                              \* Base64Url.tla Encode

X25519(sk, pk) == [op |-> "x25519", sk |-> sk, pk |-> pk]
X25519Base(sk) == [op |-> "x25519_base", sk |-> sk]
EdPkToX(pk) == [op |-> "ed25519_pk_to_x25519", pk |-> pk]
EdSkToX(sk) == [op |-> "ed25519_sk_to_x25519", sk |-> sk]      \* clamped scalar of SHA-512(seed)
P384Ecdh(sk, pk) == [op |-> "p384_ecdh", sk |-> sk, pk |-> pk] \* 48-byte x coordinate
P384Pub(sk) == [op |-> "p384_pub_compressed", sk |-> sk]
RsaDp(sk, c, n) == [op |-> "rsa_dp", sk |-> sk, c |-> c, len |-> n]   \* raw RSA private op, big-endian, fixed width n
RsaEp(pk, r, n) == [op |-> "rsa_ep", pk |-> pk, m |-> r, len |-> n]

\* length in bytes of what a term denotes
RECURSIVE TermLen(_)
SumLens(xs) == LET RECURSIVE S(_) S(k) == IF k = 0 THEN 0 ELSE TermLen(xs[k]) + S(k - 1) IN S(Len(xs))
TermLen(t) ==
  CASE t.op = "b" -> Len(t.v)
    [] t.op = "in" -> t.len
    [] t.op = "cat" -> SumLens(t.xs)
    [] t.op = "slice" -> t.to - t.from
    [] t.op = "sha384" -> 48
    [] t.op = "hmac384" -> 48
    [] t.op \in {"hkdf384", "pbkdf2_sha384", "blake2b", "argon2id", "rsa_dp", "rsa_ep"} -> t.len
    [] t.op = "aes256_block" -> 16
    [] t.op = "inc128" -> 16
    [] t.op = "xor" -> TermLen(t.a)
    [] t.op = "xchacha20_xor" -> TermLen(t.data)
    [] t.op = "xchacha20poly1305" -> TermLen(t.pt) + 16
    [] t.op = "b64" -> LET n == TermLen(t.x) IN 4 * (n \div 3) + (CASE n % 3 = 0 -> 0 [] n % 3 = 1 -> 2 [] n % 3 = 2 -> 3)
    [] t.op \in {"x25519", "x25519_base", "ed25519_pk_to_x25519", "ed25519_sk_to_x25519"} -> 32
    [] t.op = "p384_ecdh" -> 48
    [] t.op = "p384_pub_compressed" -> 49

\* PAE over terms: the count and every length prefix are concrete
PAETerm(pieces) ==
  Cat(<<B(LE64(Len(pieces)))>> \o
      CatAll([k \in 1..Len(pieces) |-> <<B(LE64(TermLen(pieces[k]))), pieces[k]>>]))

\* AES-256-CTR keystream XOR: block j of the keystream is AES(key, (iv + j) mod 2^128)  (Ctr.tla)
CtrXor(key, iv, data) ==
  LET n == TermLen(data)
      nblk == (n + 15) \div 16
      stream == Cat([j \in 1..nblk |-> AesBlock(key, IF j = 1 THEN iv ELSE Inc(iv, j - 1))])
  IN IF n = 0 THEN B(<< >>) ELSE Xor(data, Sl(stream, 0, n))
=============================================================================
