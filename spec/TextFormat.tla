----------------------------- MODULE TextFormat -----------------------------
(***************************************************************************)
(* The text forms of tokens, keys, key ids and wrapped/sealed keys:        *)
(*    header || base64url(payload) [ "." || base64url(footer) ]            *)
(* ParseText is the strict grammar: exact header, canonical base64         *)
(* segments, no extra segments, no padding, no whitespace; key ids decode  *)
(* to exactly 33 bytes.  Serialize is the one string a value has.          *)
(***************************************************************************)
EXTENDS Base64Url, HeaderTable

IsPrefix(p, s) == Len(p) <= Len(s) /\ SubSeq(s, 1, Len(p)) = p

TokenKinds == {"token.local", "token.public"}
IdKinds == {"id.lid", "id.pid", "id.sid"}

\* index of the first '.' in s, 0 if none
FirstDot(s) == IF \E i \in 1..Len(s) : s[i] = Dot
               THEN CHOOSE i \in 1..Len(s) : s[i] = Dot /\ \A j \in 1..(i - 1) : s[j] # Dot
               ELSE 0

Reject == [ok |-> FALSE, payload |-> << >>, footer |-> << >>]
Accept(p, f) == [ok |-> TRUE, payload |-> p, footer |-> f]

ParseText(kind, ver, s, footerAllowed) ==
  LET h == HeaderOf(kind, ver) IN
  IF ~IsPrefix(h, s) THEN Reject
  ELSE LET rest == Drop(s, Len(h)) IN
    IF kind \in TokenKinds
    THEN LET d == FirstDot(rest)
             pseg == IF d = 0 THEN rest ELSE Take(rest, d - 1)
             fseg == IF d = 0 THEN << >> ELSE Drop(rest, d)
             p == Decode(pseg)
             f == Decode(fseg)
         IN IF p.ok /\ f.ok /\ (footerAllowed \/ f.v = << >>) THEN Accept(p.v, f.v) ELSE Reject
    ELSE LET p == Decode(rest)
         IN IF p.ok /\ (kind \in IdKinds => Len(p.v) = 33) THEN Accept(p.v, << >>) ELSE Reject

TextOf(kind, ver, payload, footer) ==
  HeaderOf(kind, ver) \o Encode(payload) \o (IF footer = << >> THEN << >> ELSE <<Dot>> \o Encode(footer))

\* one string per value: an accepted string is its own re-serialisation, up to one
\* trailing '.' that denotes an empty footer on a token
SameText(kind, in, out) == \/ out = in
                           \/ kind \in TokenKinds /\ in = out \o <<Dot>>
=============================================================================
