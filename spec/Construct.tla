------------------------------ MODULE Construct ------------------------------
(***************************************************************************)
(* L1: the PASETO v1..v4 and PASERK k1..k4 constructions as terms over the *)
(* symbolic algebra of Crypto.tla, written from the specification texts    *)
(* (paseto-spec docs/01-Protocol-Versions/Version1..4.md, paserk           *)
(* operations/Wrap/pie.md, PBKW.md, PKE.md, ID.md), not from the Rust.     *)
(* Every operator returns the term of the bytes the operation must output  *)
(* for the given (named) inputs.                                           *)
(***************************************************************************)
EXTENDS Crypto, Labels, Versions

\* "vN.local." / "vN.public.";  sfx: the payload encoding's header suffix (empty for JSON, the only standard encoding;
\* paseto-core's Payload::SUFFIX lets a payload type declare another one, e.g. "c": "vNc.local.").  The `...S` operators
\* take it as their first argument, the plain ones are the standard encoding.
HdrS(ver, sfx, purposeLabel) == B(VHeader(ver) \o sfx \o purposeLabel)
E == B(<< >>)

\* ---------------------------------------------------------------- local tokens
\* v1: r is the caller's randomness; the nonce is derived from it and the message
V1Nonce(r, m) == Sl(Hmac384(r, m), 0, 32)
V1LocalFromNonceS(sfx, k, n, m, f) ==
  LET salt == Sl(n, 0, 16)
      ek == Hkdf384(k, salt, B(EncKeyInfo), 32)
      ak == Hkdf384(k, salt, B(AuthKeyInfo), 32)
      c == CtrXor(ek, Sl(n, 16, 32), m)
      t == Hmac384(ak, PAETerm(<<HdrS(1, sfx, DotLocal), n, c, f>>))
  IN Cat(<<n, c, t>>)
V1LocalS(sfx, k, r, m, f) == V1LocalFromNonceS(sfx, k, V1Nonce(r, m), m, f)

V2Nonce(r, m) == Blake2b(r, m, 24)
V2LocalFromNonceS(sfx, k, n, m, f) ==
  Cat(<<n, XChaChaPoly(k, n, PAETerm(<<HdrS(2, sfx, DotLocal), n, f>>), m)>>)
V2LocalS(sfx, k, r, m, f) == V2LocalFromNonceS(sfx, k, V2Nonce(r, m), m, f)

\* the `...With` variants take the AES-CTR counter block as a parameter: the plain operators pass the derived
\* one, the verification hook (paseto_core::verif, cfg paseto_rs_verif) lets the harness pass boundary blocks
V3LocalWithS(sfx, k, n, m, f, i, n2) ==
  LET tmp == Hkdf384(k, E, Cat(<<B(EncKeyInfo), n>>), 48)
      ek == Sl(tmp, 0, 32)
      ak == Hkdf384(k, E, Cat(<<B(AuthKeyInfo), n>>), 48)
      c == CtrXor(ek, n2, m)
      t == Hmac384(ak, PAETerm(<<HdrS(3, sfx, DotLocal), n, c, f, i>>))
  IN Cat(<<n, c, t>>)
V3LocalS(sfx, k, n, m, f, i) == V3LocalWithS(sfx, k, n, m, f, i, Sl(Hkdf384(k, E, Cat(<<B(EncKeyInfo), n>>), 48), 32, 48))

V4LocalS(sfx, k, n, m, f, i) ==
  LET tmp == Blake2b(k, Cat(<<B(EncKeyInfo), n>>), 56)
      ek == Sl(tmp, 0, 32)
      n2 == Sl(tmp, 32, 56)
      ak == Blake2b(k, Cat(<<B(AuthKeyInfo), n>>), 32)
      c == XChaCha(ek, n2, m)
      t == Blake2b(ak, PAETerm(<<HdrS(4, sfx, DotLocal), n, c, f, i>>), 32)
  IN Cat(<<n, c, t>>)

\* ---------------------------------------------------------------- public tokens: the bytes that are signed
\* payload = m || signature (SigLen(ver) bytes)
V1ToBeSignedS(sfx, m, f) == PAETerm(<<HdrS(1, sfx, DotPublic), m, f>>)            \* RSASSA-PSS, SHA-384, MGF1-SHA-384, salt 48, e = 65537
V2ToBeSignedS(sfx, m, f) == PAETerm(<<HdrS(2, sfx, DotPublic), m, f>>)            \* Ed25519
V3ToBeSignedS(sfx, pk, m, f, i) == PAETerm(<<pk, HdrS(3, sfx, DotPublic), m, f, i>>)   \* ECDSA P-384 / SHA-384, pk = 49-byte compressed point
V4ToBeSignedS(sfx, m, f, i) == PAETerm(<<HdrS(4, sfx, DotPublic), m, f, i>>)      \* Ed25519


\* the standard encoding
V1LocalFromNonce(k, n, m, f) == V1LocalFromNonceS(<< >>, k, n, m, f)
V2LocalFromNonce(k, n, m, f) == V2LocalFromNonceS(<< >>, k, n, m, f)
V3LocalWith(k, n, m, f, i, n2) == V3LocalWithS(<< >>, k, n, m, f, i, n2)
V4Local(k, n, m, f, i) == V4LocalS(<< >>, k, n, m, f, i)
V1ToBeSigned(m, f) == V1ToBeSignedS(<< >>, m, f)
V2ToBeSigned(m, f) == V2ToBeSignedS(<< >>, m, f)
V3ToBeSigned(pk, m, f, i) == V3ToBeSignedS(<< >>, pk, m, f, i)
V4ToBeSigned(m, f, i) == V4ToBeSignedS(<< >>, m, f, i)
V1Local(k, r, m, f) == V1LocalS(<< >>, k, r, m, f)
V2Local(k, r, m, f) == V2LocalS(<< >>, k, r, m, f)
V3Local(k, n, m, f, i) == V3LocalS(<< >>, k, n, m, f, i)

\* ---------------------------------------------------------------- PIE  (data = t || n || c)
PieHeader(ver, ktype) == B(KHeader(ver) \o (IF ktype = "local" THEN DotLocalWrapPie ELSE DotSecretWrapPie))
Pie13With(ver, ktype, wk, n, ptk, n2) ==
  LET x == Hmac384(wk, Cat(<<B(<<128>>), n>>))
      ek == Sl(x, 0, 32)
      ak == Sl(Hmac384(wk, Cat(<<B(<<129>>), n>>)), 0, 32)
      c == CtrXor(ek, n2, ptk)
      t == Hmac384(ak, Cat(<<PieHeader(ver, ktype), n, c>>))
  IN Cat(<<t, n, c>>)
Pie13(ver, ktype, wk, n, ptk) == Pie13With(ver, ktype, wk, n, ptk, Sl(Hmac384(wk, Cat(<<B(<<128>>), n>>)), 32, 48))
Pie24(ver, ktype, wk, n, ptk) ==
  LET x == Blake2b(wk, Cat(<<B(<<128>>), n>>), 56)
      ek == Sl(x, 0, 32)
      n2 == Sl(x, 32, 56)
      ak == Blake2b(wk, Cat(<<B(<<129>>), n>>), 32)
      c == XChaCha(ek, n2, ptk)
      t == Blake2b(ak, Cat(<<PieHeader(ver, ktype), n, c>>), 32)
  IN Cat(<<t, n, c>>)
Pie(ver, ktype, wk, n, ptk) == IF ver \in {1, 3} THEN Pie13(ver, ktype, wk, n, ptk) ELSE Pie24(ver, ktype, wk, n, ptk)

\* ---------------------------------------------------------------- PBKW
PwHeader(ver, ktype) == B(KHeader(ver) \o (IF ktype = "local" THEN DotLocalPw ELSE DotSecretPw))
\* k1/k3: data = s || iterations(u32 BE) || n || c || t
Pw13(ver, ktype, pw, s, iter, n, ptk) ==
  LET k == Pbkdf2(pw, s, iter, 32)
      ek == Sl(Sha384(Cat(<<B(<<255>>), k>>)), 0, 32)
      ak == Sha384(Cat(<<B(<<254>>), k>>))
      c == CtrXor(ek, n, ptk)
      it == B(BE32(iter))
      t == Hmac384(ak, Cat(<<PwHeader(ver, ktype), s, it, n, c>>))
  IN Cat(<<s, it, n, c, t>>)
\* k2/k4: data = s || mem(u64 BE, bytes) || time(u32 BE) || para(u32 BE) || n || c || t
Pw24(ver, ktype, pw, s, memKiB, time, para, n, ptk) ==
  LET k == Argon2id(pw, s, memKiB, time, para, 32)
      ek == Blake2b(E, Cat(<<B(<<255>>), k>>), 32)
      ak == Blake2b(E, Cat(<<B(<<254>>), k>>), 32)
      c == XChaCha(ek, n, ptk)
      params == B(BE32(0) \o BE32(memKiB * 1024) \o BE32(time) \o BE32(para))      \* mem < 2^32 here: high word zero
      t == Blake2b(ak, Cat(<<PwHeader(ver, ktype), s, params, n, c>>), 32)
  IN Cat(<<s, params, n, c, t>>)

\* ---------------------------------------------------------------- PKE  (header "kN.seal.")
SealHeader(ver) == B(KHeader(ver) \o DotSeal)
\* k2/k4: data = t || epk || edk.   xk is given as a term so that both directions can be expressed:
\* sender: xk = X25519(esk, xpk), epk = X25519Base(esk);  receiver: xk = X25519(xsk, epk)
Pke24(ver, xk, epk, xpk, pdk) ==
  LET ek == Blake2b(E, Cat(<<B(<<1>>), SealHeader(ver), xk, epk, xpk>>), 32)
      ak == Blake2b(E, Cat(<<B(<<2>>), SealHeader(ver), xk, epk, xpk>>), 32)
      n == Blake2b(E, Cat(<<epk, xpk>>), 24)
      edk == XChaCha(ek, n, pdk)
      t == Blake2b(ak, Cat(<<SealHeader(ver), epk, edk>>), 32)
  IN Cat(<<t, epk, edk>>)
\* k3: data = t || epk || edk, pk and epk 49-byte compressed points, xk the 48-byte x coordinate
Pke3With(xk, epk, pk, pdk, n) ==
  LET tmp == Sha384(Cat(<<B(<<1>>), SealHeader(3), xk, epk, pk>>))
      ek == Sl(tmp, 0, 32)
      ak == Sha384(Cat(<<B(<<2>>), SealHeader(3), xk, epk, pk>>))
      edk == CtrXor(ek, n, pdk)
      t == Hmac384(ak, Cat(<<SealHeader(3), epk, edk>>))
  IN Cat(<<t, epk, edk>>)
Pke3(xk, epk, pk, pdk) == Pke3With(xk, epk, pk, pdk, Sl(Sha384(Cat(<<B(<<1>>), SealHeader(3), xk, epk, pk>>)), 32, 48))
\* k1: data = t || edk || c, c = r^e mod N at the fixed width of 512 bytes
Pke1With(r, c, pdk, n) ==
  LET kk == Sha384(c)
      x == Hmac384(kk, Cat(<<B(<<1>>), SealHeader(1), r>>))
      ek == Sl(x, 0, 32)
      ak == Hmac384(kk, Cat(<<B(<<2>>), SealHeader(1), r>>))
      edk == CtrXor(ek, n, pdk)
      t == Hmac384(ak, Cat(<<SealHeader(1), c, edk>>))
  IN Cat(<<t, edk, c>>)
Pke1(r, c, pdk) == Pke1With(r, c, pdk, Sl(Hmac384(Sha384(c), Cat(<<B(<<1>>), SealHeader(1), r>>)), 32, 48))

\* ---------------------------------------------------------------- key ids and key text
KeyKindLabel(kind) == CASE kind = "local" -> DotLocal [] kind = "public" -> DotPublic [] kind = "secret" -> DotSecret
IdLabel(kind) == CASE kind = "local" -> DotLid [] kind = "public" -> DotPid [] kind = "secret" -> DotSid
KeyText(ver, kind, keyBytes) == Cat(<<B(KHeader(ver) \o KeyKindLabel(kind)), B64(keyBytes)>>)
KeyIdBytes(ver, kind, keyBytes) ==
  LET input == Cat(<<B(KHeader(ver) \o IdLabel(kind)), KeyText(ver, kind, keyBytes)>>)
  IN IF ver \in {1, 3} THEN Sl(Sha384(input), 0, 33) ELSE Blake2b(E, input, 33)
KeyIdText(ver, kind, keyBytes) == Cat(<<B(KHeader(ver) \o IdLabel(kind)), B64(KeyIdBytes(ver, kind, keyBytes))>>)
=============================================================================
