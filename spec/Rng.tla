-------------------------------- MODULE Rng ----------------------------------
(***************************************************************************)
(* Where the drawn randomness must appear in what an operation emits       *)
(* (C16), from the construction texts: the nonce of a v3/v4 local token    *)
(* and of a PIE-wrapped key IS the first draw; a password-wrapped key      *)
(* embeds draw 1 as salt and draw 2 as nonce; v1/v2 local tokens and       *)
(* sealed keys embed a FUNCTION of the draw (synthetic nonce, ephemeral    *)
(* public key), which must therefore differ whenever the draw differs.     *)
(* `drawn` is the sequence of values the random source returned to the     *)
(* operation, `fresh` the set of random fields cut out of its output.      *)
(* The law only speaks about operations whose draws were observed          *)
(* (getrandom-based backends).                                             *)
(***************************************************************************)
EXTENDS Naturals, Sequences, FiniteSets

SetOfSeq(s) == {s[k] : k \in 1..Len(s)}

EmbedOK(opkind, ver, what, drawn, fresh) ==
  Len(drawn) = 0 \/
  CASE opkind = "seal" /\ what = "local" /\ ver \in {3, 4} -> Len(drawn) = 1 /\ fresh = {drawn[1]}
    [] opkind = "seal" /\ what = "local" -> Len(drawn) = 1 /\ drawn[1] \notin fresh /\ Cardinality(fresh) = 1
    [] opkind = "wrap" /\ what = "pie" -> Len(drawn) = 1 /\ fresh = {drawn[1]}
    [] opkind = "wrap" /\ what = "pw" -> Len(drawn) = 2 /\ fresh = {drawn[1], drawn[2]}
    [] opkind = "wrap" /\ what = "seal" -> Len(drawn) >= 1 /\ Cardinality(fresh) = 1
    [] OTHER -> TRUE

\* no output field is the all-zero default or a partially filled buffer: that is implied by
\* freshness (a default value would repeat) and by EmbedOK (the field is exactly the draw)
=============================================================================
