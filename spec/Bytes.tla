------------------------------- MODULE Bytes -------------------------------
(***************************************************************************)
(* Byte-string algebra shared by every other module.  A byte string is a   *)
(* sequence; its elements are either concrete bytes 0..255 or (in the      *)
(* symbolic modules) opaque values.  All operators are total on sequences. *)
(***************************************************************************)
EXTENDS Naturals, Sequences

Byte == 0..255

Min(a, b) == IF a <= b THEN a ELSE b
Max(a, b) == IF a >= b THEN a ELSE b

\* slice with 1-based inclusive bounds, empty when lo > hi
Slice(s, lo, hi) == IF lo > hi THEN << >> ELSE SubSeq(s, lo, hi)

Take(s, n) == Slice(s, 1, Min(n, Len(s)))
Drop(s, n) == Slice(s, n + 1, Len(s))
LastN(s, n) == Slice(s, Len(s) - Min(n, Len(s)) + 1, Len(s))
DropLast(s, n) == Slice(s, 1, Len(s) - Min(n, Len(s)))

RECURSIVE CatAll(_)
CatAll(ss) == IF ss = << >> THEN << >> ELSE Head(ss) \o CatAll(Tail(ss))

\* little-endian / big-endian fixed-width encodings of a natural number
RECURSIVE LE(_, _)
LE(n, w) == IF w = 0 THEN << >> ELSE <<n % 256>> \o LE(n \div 256, w - 1)
RECURSIVE BE(_, _)
BE(n, w) == IF w = 0 THEN << >> ELSE BE(n \div 256, w - 1) \o <<n % 256>>
LE64(n) == LE(n, 8)
BE32(n) == BE(n, 4)
BE64(n) == BE(n, 8)

RECURSIVE FromLE(_)
FromLE(s) == IF s = << >> THEN 0 ELSE Head(s) + 256 * FromLE(Tail(s))
RECURSIVE FromBE(_)
FromBE(s) == IF s = << >> THEN 0 ELSE FromBE(DropLast(s, 1)) * 256 + s[Len(s)]

\* lexicographic comparison of equal-length big-endian strings: -1, 0, 1
RECURSIVE CmpBE(_, _)
CmpBE(a, b) == IF a = << >> THEN 0
               ELSE IF Head(a) < Head(b) THEN 0 - 1
               ELSE IF Head(a) > Head(b) THEN 1
               ELSE CmpBE(Tail(a), Tail(b))

AllEq(s, v) == \A i \in 1..Len(s) : s[i] = v
Repeat(v, n) == [i \in 1..n |-> v]

\* ASCII of the characters the headers use
Ascii(str) == str   \* TLC strings are not sequences; headers are given as code tuples
=============================================================================
