SPECIFICATION Spec
CONSTANTS
  Slots = {1, 2}
  Evil = 2
  ClaimSet = {1}
  NoteSet = {0, 1}
  Services = {"a", "b"}
  MaxNet = 2
  MaxBlobs = 2
  MaxClock = 2
  Weaken = "none"
VIEW MCView
INVARIANTS Invs
PROPERTIES AcceptNeedsKey GenStable DispatchIsDisjunction NotExpired ClockMonotone
CHECK_DEADLOCK FALSE
