CONSTANTS
  MaxLen = 3
  Keys = {"iss", "sub", "exp", "nbf", "jti", "zz"}
INIT Init
NEXT Next
INVARIANTS GenericAgreement OrderIndependent UnknownIgnored RoundTrip
CHECK_DEADLOCK FALSE
