------------------------------- MODULE MC_Ctr -------------------------------
(* Counter arithmetic on a scaled-down block (W bytes, low half L bytes):    *)
(* Inc is addition modulo 256^W; the low-half-only counter (the named        *)
(* deviation Ctr64 at W=16, L=8) agrees with it exactly when no carry leaves  *)
(* the low half.  Exhaustive over all IVs of W bytes and all j <= MaxJ.      *)
EXTENDS Ctr, TLC

CONSTANTS W, L, MaxJ, IvBytes

VARIABLES iv, j

Init == iv \in [1..W -> IvBytes] /\ j = 0
Next == j < MaxJ /\ j' = j + 1 /\ UNCHANGED iv

IncIsAddition == FromBE(Inc128(iv, j)) = (FromBE(iv) + j) % (256 ^ W)
IncLength == Len(Inc128(iv, j)) = W
StepLaw == j > 0 => Inc128(iv, j) = Inc128(Inc128(iv, j - 1), 1)
DeviationExactlyOnCarry ==
  (CtrLow(iv, j, L) = Inc128(iv, j)) <=> ~CarriesOut(LastN(iv, L), j)
CarryMeaning == CarriesOut(LastN(iv, L), j) <=> (FromBE(LastN(iv, L)) + j >= 256 ^ L)
=============================================================================
