CONSTANTS
  Empty = Empty
  L1 = L1 L2 = L2 S1 = S1 S2 = S2 P1 = P1 P2 = P2 c1 = c1 c2 = c2 f1 = f1 a1 = a1 pw1 = pw1 pw2 = pw2
  LocalKeys = {L1, L2}
  SecretKeys = {S1, S2}
  PublicKeys = {P1, P2}
  SecretSeq <- SecretSeqDef
  PublicSeq <- PublicSeqDef
  ClaimsSet = {c1, c2}
  FooterSet <- FooterSetDef
  AadSet <- AadSetDef
  Passwords = {pw1, pw2}
  MCPurposes = {"local", "public", "local+c"}
  Vers = {2, 4}
  MaxTokens = 2
  MaxBlobs = 0
  MaxDraws = 1
  MaxGen = 0
INIT MCInit
NEXT MCNext
VIEW MCView
PROPERTIES ActRelease ActErrClass ActUnwrap
INVARIANTS TypeOK InvOrder InvNoAadOnOldVersions InvHonestNotRefused InvHonestSealSucceeds InvFailClosed InvAuthIsTableMembership InvCanFinish
CHECK_DEADLOCK FALSE
