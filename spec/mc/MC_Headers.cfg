INIT Init
NEXT Next
INVARIANTS Distinct PrefixFree NoCrossAcceptance OwnAcceptance
CHECK_DEADLOCK FALSE
