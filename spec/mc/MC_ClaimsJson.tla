---------------------------- MODULE MC_ClaimsJson ----------------------------
(* All member sequences up to MaxLen over Keys x value classes; all slot      *)
(* assignments for the round-trip law.                                         *)
EXTENDS ClaimsJson, TLC

CONSTANTS MaxLen, Keys

Members == {<<k, vc, a>> : k \in Keys, vc \in {"str", "ts"}, a \in {1, 2}}
           \cup {<<k, vc, 0>> : k \in Keys, vc \in {"null", "num", "bool", "arr", "obj"}}

VARIABLES ms, mode, slots

Init == \/ mode = "seq" /\ ms = << >> /\ slots = EmptySlots
        \/ mode = "slots" /\ ms = << >>
           /\ slots \in [Fields -> {Absent, <<"str", 1>>, <<"ts", 2>>}]

Next == /\ mode = "seq" /\ Len(ms) < MaxLen
        /\ \E m \in Members : ms' = Append(ms, m)
        /\ UNCHANGED <<mode, slots>>

WellTyped(s) == \A f \in TimeFields : s[f] = Absent \/ s[f][1] = "ts"

\* when decoding succeeds every claim has the value a last-wins generic parser reads
GenericAgreement == mode = "seq" => AgreesWithGeneric(ms)

\* decoding succeeds on a permutation-free notion of order: swapping two adjacent members of
\* DIFFERENT keys changes neither success nor result
OrderIndependent ==
  mode = "seq" =>
    \A i \in 1..(Len(ms) - 1) :
      ms[i][1] # ms[i + 1][1] =>
        LET sw == [j \in 1..Len(ms) |-> IF j = i THEN ms[i + 1] ELSE IF j = i + 1 THEN ms[i] ELSE ms[j]]
        IN Decode(sw) = Decode(ms)

\* unknown members never matter
UnknownIgnored ==
  mode = "seq" => Decode(SelectSeq(ms, LAMBDA m : m[1] \in Fields)) = Decode(ms)

\* encode then decode is the identity; the wire form omits absent claims and keeps the fixed order
RoundTrip ==
  (mode = "slots" /\ WellTyped(slots)) =>
     /\ Decode(Encode(slots)) = [ok |-> TRUE, slots |-> slots]
     /\ Len(Encode(slots)) = Len(SelectSeq(FieldOrder, LAMBDA f : slots[f] # Absent))
     /\ \A i \in 1..Len(Encode(slots)) : Encode(slots)[i][2] # "null"
=============================================================================
