CONSTANTS
  MaxTail = 3
  Prefixes <- PrefixesNone
  FullBytes = FALSE
INIT Init
NEXT Next
INVARIANTS ImplEqualsSpec AcceptedIffImage EncodeDecode
CHECK_DEADLOCK FALSE
