------------------------------ MODULE MC_Ideal -------------------------------
(* Bounded exhaustive exploration of L0 with an attacker who presents any     *)
(* (version, purpose, wire, footer, key, assertion) combination, an           *)
(* environment that may fail any draw / encoder / decoder and a validator     *)
(* that may reject.                                                           *)
EXTENDS Ideal, TLC

CONSTANTS MCPurposes, LocalKeys, SecretKeys, PublicKeys, ClaimsSet, FooterSet, AadSet, Vers, MaxTokens, MaxBlobs, Passwords, MaxDraws, MaxGen

AllKeys == LocalKeys \cup SecretKeys \cup PublicKeys
Wires == 1..(MaxTokens + 1)            \* one more than can be emitted: a never-sealed (forged) wire
BlobIds == 101..(101 + MaxBlobs)
ErrClasses == {"format", "crypto", "claims", "payload", "key"}

\* SecretKeys and PublicKeys are paired by position in these sequences
CONSTANTS SecretSeq, PublicSeq
PubKeyFor(sk) == PublicSeq[CHOOSE i \in 1..Len(SecretSeq) : SecretSeq[i] = sk]

FreshWire == CHOOSE w \in Wires : w \notin {e.wire : e \in tokens} /\ \A v \in Wires : v < w => v \in {e.wire : e \in tokens}
FreshBlob == CHOOSE b \in BlobIds : b \notin {e.blob : e \in blobs} /\ \A v \in BlobIds : v < b => v \in {e.blob : e \in blobs}

CONSTANTS L1, L2, S1, S2, P1, P2, c1, c2, f1, a1, pw1, pw2
SecretSeqDef == <<S1, S2>>
PublicSeqDef == <<P1, P2>>
FooterSetDef == {Empty, f1}
AadSetDef == {Empty, a1}

MCInit == Init

MCNext ==
  \/ \E sk \in SecretKeys : LearnPair(sk, PubKeyFor(sk))
  \/ /\ Cardinality(tokens) < MaxTokens
     /\ \E ver \in Vers, p \in MCPurposes, c \in ClaimsSet, f \in FooterSet, a \in AadSet :
          \E k \in (IF p = "local" THEN LocalKeys ELSE SecretKeys) : SealBegin(ver, p, k, c, f, a)
  \/ \E ok \in BOOLEAN : (op.kind \in {"seal", "wrap", "gen"} /\ Len(op.drawn) < MaxDraws /\ Draw(ok, 200 + Len(op.drawn))) \/ EncodeFooter(ok) \/ EncodeClaims(ok)
  \/ \E ver \in Vers, kd \in {"local", "secret"} : Cardinality({u \in used : u >= 300}) < MaxGen /\ GenBegin(ver, kd)
  \/ GenEmit(300 + Cardinality(used))
  \/ \E e \in ErrClasses : GenFail(e)
  \/ Emit(FreshWire, {FreshWire})
  \/ \E e \in ErrClasses : SealFail(e)
  \/ \E ver \in Vers, p \in MCPurposes, w \in Wires, f \in FooterSet, a \in AadSet :
        \E k \in (IF p = "local" THEN LocalKeys ELSE PublicKeys) : UnsealBegin(ver, p, w, f, k, a)
  \/ \E c \in ClaimsSet, ok \in BOOLEAN : Decode(c, ok) \/ Validate(c, ok)
  \/ \E c \in ClaimsSet, f \in FooterSet : Release(c, f)
  \/ \E e \in ErrClasses : ReturnErr(e)
  \/ /\ Cardinality(blobs) < MaxBlobs
     /\ \E wk \in WrapKinds, ver \in Vers, kt \in {"local", "secret"} :
          \E k \in (IF kt = "local" THEN LocalKeys ELSE SecretKeys) :
            \E w \in (CASE wk = "pie" -> LocalKeys [] wk = "pw" -> Passwords [] wk = "seal" -> PublicKeys) :
              WrapBegin(wk, ver, kt, k, w)
  \/ WrapEmit(FreshBlob, {FreshBlob})
  \/ WrapFail("crypto")
  \/ \E wk \in WrapKinds, ver \in Vers, kt \in {"local", "secret"}, b \in BlobIds, ok \in BOOLEAN, e \in ErrClasses :
        \E k \in AllKeys :
          \E w \in (CASE wk = "pie" -> LocalKeys [] wk = "pw" -> Passwords [] wk = "seal" -> SecretKeys) :
            Unwrap(wk, ver, kt, b, w, ok, k, e)

\* C01 (safety half): an authentic token is never refused before its decoder has run,
\* and when decoder and validator cooperate the only way out is Release of the entry
InvHonestNotRefused ==
  /\ (op.kind = "unseal" /\ op.auth /\ ~op.decoded) => \A e \in ErrClasses : ~ENABLED ReturnErr(e)
  /\ (op.kind = "unseal" /\ op.validated /\ op.verdict) =>
        /\ ENABLED Release(EntryOf(op).claims, EntryOf(op).footer)
        /\ \A e \in ErrClasses : ~ENABLED ReturnErr(e)

\* C01: a seal whose steps all succeeded (and whose assertion the version supports) cannot fail
InvHonestSealSucceeds ==
  (op.kind = "seal" /\ op.fEnc /\ op.cEnc /\ ~op.failed /\ AadSupported(op)) =>
      /\ \A e \in ErrClasses : ~ENABLED SealFail(e)
      /\ ENABLED Emit(FreshWire, {FreshWire})

\* C16: nothing is emitted once a draw or an encoder failed
InvFailClosed ==
  (op.kind \in {"seal", "wrap", "gen"} /\ op.failed) =>
     /\ ~ENABLED Emit(FreshWire, {FreshWire}) /\ ~ENABLED WrapEmit(FreshBlob, {FreshBlob}) /\ ~ENABLED GenEmit(300 + Cardinality(used))

\* C02: a forged wire, another key, another footer or assertion is never authentic
InvAuthIsTableMembership ==
  op.kind = "unseal" => (op.auth <=> \E e \in tokens : Matches(e, op.ver, op.purpose, op.wire, op.footer, op.key, op.aad))

\* every operation in flight can finish (no stuck intermediate state)
InvCanFinish == op # Idle => ENABLED MCNext

\* `last` is a history variable that no enabling condition reads: it is hidden from the
\* fingerprint, and the invariants that mention it are checked on every transition instead
MCView == <<pubOf, tokens, blobs, used, op>>
ActRelease == [][InvRelease']_vars
ActErrClass == [][InvErrClass']_vars
ActUnwrap == [][InvUnwrap']_vars

Spec == MCInit /\ [][MCNext]_vars /\ WF_vars(MCNext)
\* C01 (liveness half): every operation terminates
Terminates == (op # Idle) ~> (op = Idle)
=============================================================================
