INIT Init
NEXT Next
INVARIANTS VerdictIsTotal WrongLengthRejected OffCurveRejected MismatchedHalvesRejected WrongModulusRejected ScalarBoundaries
CHECK_DEADLOCK FALSE
