CONSTANTS
  W = 3
  L = 1
  MaxJ = 5
  IvBytes = {0, 1, 127, 128, 250, 251, 252, 253, 254, 255}
INIT Init
NEXT Next
INVARIANTS IncIsAddition IncLength StepLaw DeviationExactlyOnCarry CarryMeaning
CHECK_DEADLOCK FALSE
