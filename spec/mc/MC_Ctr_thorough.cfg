CONSTANTS
  W = 3
  L = 2
  MaxJ = 40
  IvBytes = {0, 1, 2, 15, 16, 127, 128, 200, 250, 251, 252, 253, 254, 255}
INIT Init
NEXT Next
INVARIANTS IncIsAddition IncLength StepLaw DeviationExactlyOnCarry CarryMeaning
CHECK_DEADLOCK FALSE
