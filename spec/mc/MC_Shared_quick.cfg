CONSTANTS
  Threads = {t1, t2}
  MaxOps = 2
VIEW View
INIT Init
NEXT Next
INVARIANTS KeyNeverChanges SequentialResults HistoryIndependent UseOnlyWithHandle
CHECK_DEADLOCK FALSE
