INIT Init
NEXT Next
INVARIANTS Idempotent Monotone AvailabilityMonotone DocumentedHold DefaultIsEverything Emit
CHECK_DEADLOCK FALSE
