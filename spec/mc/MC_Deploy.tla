----------------------------- MODULE MC_Deploy -----------------------------
(* Exhaustive check of the deployment design (Deploy.tla) within small constants; `last` is an observation variable and is
   hidden by the VIEW.  The same module with Weaken # "none" (spec/neg) must violate Authentic or StoreTyped. *)
EXTENDS Deploy, TLC
MCView == <<gen, store, via, blobs, net, issued, accepted, clock>>
Invs == TypeOK /\ Authentic /\ Addressed /\ EvilIsEvil /\ StoreTyped /\ ClosedChannels /\ ViaComplete
\* non-vacuity: these must be reachable (checked as invariants that TLC must violate, spec/neg/Deploy_reach-*.cfg)
NeverAccepts == accepted = {}
NeverAcceptsEvil == \A a \in accepted : a.key # Evil
\* some token outlives its expiry
NeverExpired == \A k \in 1..Len(net) : net[k].exp >= clock
\* a service is offered a token that is not addressed to it
NeverMisaddressed == \A k \in 1..Len(net) : net[k].aud \in Services
NeverRejectsAfterRefoot == ~(\E k \in 1..Len(net) : net[k].fks # net[k].bks)
=============================================================================
