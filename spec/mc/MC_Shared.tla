------------------------------ MODULE MC_Shared ------------------------------
EXTENDS Naturals, Sequences, FiniteSets, TLC

CONSTANTS Threads, MaxOps

Ops == {"verify", "decrypt", "id", "sign", "encrypt"}
Args == {"good", "bad"}
DetOp(op) == op \in {"verify", "decrypt", "id"}
\* an uninterpreted sequential function: the triple itself (failing arguments give an error result)
Fn(k, op, arg) == IF arg = "bad" THEN <<"err", op>> ELSE <<"ok", k, op, arg>>
ResultValues == {Fn("K0", op, a) : op \in Ops, a \in Args} \cup {<<"fresh", n>> : n \in 1..2}

VARIABLES key, handles, inflight, done, results

S == INSTANCE Shared WITH KeyValue <- "K0", Det <- DetOp, F <- Fn

Init == S!Init
Next ==
  \/ \E t \in Threads, op \in Ops, a \in Args : S!Begin(t, op, a)
  \/ \E t \in Threads, r \in ResultValues : S!End(t, r)
  \/ \E t \in Threads : S!Clone(t) \/ S!Drop(t)
  \/ \E t, u \in Threads : S!Give(t, u)

KeyNeverChanges == S!KeyNeverChanges
SequentialResults == S!SequentialResults
HistoryIndependent == S!HistoryIndependent
UseOnlyWithHandle == S!UseOnlyWithHandle
\* results are abstracted away from the fingerprint except through the properties
View == <<key, handles, inflight, done>>
=============================================================================
