CONSTANTS
  Empty = Empty
  L1 = L1 L2 = L2 S1 = S1 S2 = S2 P1 = P1 P2 = P2 c1 = c1 c2 = c2 f1 = f1 a1 = a1 pw1 = pw1 pw2 = pw2
  LocalKeys = {L1}
  SecretKeys = {S1}
  PublicKeys = {P1}
  SecretSeq <- SecretSeqDef
  PublicSeq <- PublicSeqDef
  ClaimsSet = {c1}
  FooterSet <- FooterSetDef
  AadSet <- AadSetDef
  Passwords = {pw1}
  MCPurposes = {"local", "public"}
  Vers = {2, 4}
  MaxTokens = 1
  MaxBlobs = 0
  MaxDraws = 1
  MaxGen = 1
SPECIFICATION Spec
PROPERTIES Terminates
CHECK_DEADLOCK FALSE
