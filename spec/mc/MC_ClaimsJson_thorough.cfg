CONSTANTS
  MaxLen = 3
  Keys = {"iss", "sub", "aud", "exp", "nbf", "iat", "jti", "zz", "issx"}
INIT Init
NEXT Next
INVARIANTS GenericAgreement OrderIndependent UnknownIgnored RoundTrip
CHECK_DEADLOCK FALSE
