------------------------------ MODULE MC_Headers -----------------------------
(* C10 at the level of the text grammar: the header strings of all 13 text    *)
(* kinds x 4 versions are pairwise distinct and prefix-free, and no valid      *)
(* text of one (kind, version) is accepted by the strict parser of another.    *)
EXTENDS TextFormat, TLC

VARIABLES k1, v1, k2, v2, tail

Tails == {<< >>, <<65>>, <<65, 65>>, <<81, 85, 70, 66>>, <<81, 85, 70, 66, 46, 81, 85, 70, 66>>, <<45, 119, 114, 97, 112>>,
          <<46>>, <<81, 85, 70, 66, 46>>, <<112, 105, 101, 46, 81, 85, 70, 66>>}

Init == k1 \in TextKinds /\ v1 \in Versions /\ k2 \in TextKinds /\ v2 \in Versions /\ tail \in Tails
Next == UNCHANGED <<k1, v1, k2, v2, tail>>

Distinct == (k1 # k2 \/ v1 # v2) => HeaderOf(k1, v1) # HeaderOf(k2, v2)
PrefixFree == (k1 # k2 \/ v1 # v2) => ~IsPrefix(HeaderOf(k1, v1), HeaderOf(k2, v2))
NoCrossAcceptance ==
  (k1 # k2 \/ v1 # v2) => ~ParseText(k2, v2, HeaderOf(k1, v1) \o tail, TRUE).ok
\* and the own parser accepts exactly when the tail is canonical for the kind
OwnAcceptance ==
  LET p == ParseText(k1, v1, HeaderOf(k1, v1) \o tail, TRUE)
  IN p.ok => SameText(k1, HeaderOf(k1, v1) \o tail, TextOf(k1, v1, p.payload, p.footer))
=============================================================================
