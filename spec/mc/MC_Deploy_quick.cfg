SPECIFICATION Spec
CONSTANTS
  Slots = {1, 2}
  Evil = 2
  ClaimSet = {1}
  NoteSet = {0, 1}
  MaxNet = 2
  MaxBlobs = 2
  Weaken = "none"
VIEW MCView
INVARIANTS Invs
PROPERTIES AcceptNeedsKey GenStable DispatchIsDisjunction
CHECK_DEADLOCK FALSE
