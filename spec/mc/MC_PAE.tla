------------------------------- MODULE MC_PAE -------------------------------
(* Exhaustive check of PAE on a bounded domain: fragment-invariance, the     *)
(* explicit parser is a left inverse (hence injectivity: distinct piece      *)
(* lists encode differently, so no bytes can move between pieces), and the   *)
(* streamed writes concatenate to the buffer encoding.                       *)
EXTENDS PAE, TLC

CONSTANTS MaxPieces, MaxLen, Alphabet, MaxFrags

VARIABLES pieces    \* sequence of pieces, each a sequence of fragments

Frag == UNION {[1..n -> Alphabet] : n \in 0..MaxLen}

Init == pieces = << >>
Next ==
  \/ /\ Len(pieces) < MaxPieces
     /\ \E f \in Frag : pieces' = Append(pieces, <<f>>)
  \/ /\ Len(pieces) > 0 /\ Len(pieces[Len(pieces)]) < MaxFrags
     /\ Len(PieceBytes(pieces[Len(pieces)])) < MaxLen
     /\ \E f \in Frag : /\ Len(PieceBytes(pieces[Len(pieces)])) + Len(f) <= MaxLen
                        /\ pieces' = [pieces EXCEPT ![Len(pieces)] = Append(@, f)]
  \/ /\ Len(pieces) < MaxPieces /\ pieces' = Append(pieces, << >>)     \* a piece with no fragment at all

FragmentInvariance == PAE(pieces) = PAEFlat(Flatten(pieces))
LeftInverse == LET r == Parse(PAE(pieces)) IN r.ok /\ r.v = Flatten(pieces)
StreamEqualsBuffer == CatAll(Writes(pieces)) = PAE(pieces)
LengthLaw == Len(PAE(pieces)) = 8 + 8 * Len(pieces) + Len(CatAll(Flatten(pieces)))
CountPrefix == Take(PAE(pieces), 8) = LE64(Len(pieces))
=============================================================================
