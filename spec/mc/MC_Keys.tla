------------------------------- MODULE MC_Keys -------------------------------
(* The key validity table of Keys.tla explored over all (backend, version,    *)
(* kind), byte-string shapes and oracle answers: the verdict is a function     *)
(* (never both accept and reject), length rules dominate oracle answers, the   *)
(* scalar range check is exactly 1 <= s < n on boundary scalars.               *)
EXTENDS Keys, TLC

VARIABLES be, ver, kind, shape, on, strict, match

Backends == {<<"v1", 1>>, <<"v2", 2>>, <<"v3", 3>>, <<"v3lc", 3>>, <<"v4", 4>>, <<"v4na", 4>>}
Kinds == {"local", "public", "secret", "pkepublic", "pkesecret"}
Shapes == {"len0", "len31", "len32", "len33", "len48", "len49c", "len49bad", "len64", "len97"}

BytesOf(sh) == CASE sh = "len0" -> << >> [] sh = "len31" -> Repeat(7, 31) [] sh = "len32" -> Repeat(7, 32) [] sh = "len33" -> Repeat(7, 33)
                 [] sh = "len48" -> Repeat(7, 48) [] sh = "len49c" -> <<2>> \o Repeat(7, 48) [] sh = "len49bad" -> <<4>> \o Repeat(7, 48)
                 [] sh = "len64" -> Repeat(7, 64) [] sh = "len97" -> <<4>> \o Repeat(7, 96)

Oracle == [ed_on_curve |-> on, ed_strict |-> strict /\ on, pk_of_seed |-> IF match THEN Repeat(7, 32) ELSE Repeat(9, 32),
           lc_decodes |-> on, rc_decodes |-> on, lc_bits |-> IF on THEN (IF strict THEN 2048 ELSE 4096) ELSE 0, rc_bits |-> 0, is_pem |-> FALSE]

Init == /\ \E b \in Backends : be = b[1] /\ ver = b[2]
        /\ kind \in Kinds /\ shape \in Shapes /\ on \in BOOLEAN /\ strict \in BOOLEAN /\ match \in BOOLEAN
Next == UNCHANGED <<be, ver, kind, shape, on, strict, match>>

V == Expected(be, ver, kind, BytesOf(shape), Oracle)

VerdictIsTotal == V \in {"accept", "reject", "either"}
WrongLengthRejected ==
  /\ (kind = "local" /\ shape # "len32" => V = "reject")
  /\ (ver \in {2, 4} /\ kind \in PublicKinds /\ shape # "len32" => V = "reject")
  /\ (ver \in {2, 4} /\ kind \in SecretKinds /\ shape # "len64" => V = "reject")
  /\ (ver = 3 /\ kind \in PublicKinds /\ shape # "len49c" => V = "reject")
  /\ (ver = 3 /\ kind \in SecretKinds /\ shape # "len48" => V = "reject")
OffCurveRejected == (ver \in {2, 3, 4} /\ kind \in PublicKinds /\ ~on) => V = "reject"
MismatchedHalvesRejected == (ver \in {2, 4} /\ kind \in SecretKinds /\ ~match) => V = "reject"
WrongModulusRejected == (ver = 1 /\ kind # "local" /\ on) => (V = "accept" <=> (strict <=> kind \in {"public", "secret"}))

One == <<0, 0, 0, 0, 0, 0, 0, 0, 0, 0, 0, 0, 0, 0, 0, 0, 0, 0, 0, 0, 0, 0, 0, 0, 0, 0, 0, 0, 0, 0, 0, 0, 0, 0, 0, 0, 0, 0, 0, 0, 0, 0, 0, 0, 0, 0, 0, 1>>
NMinus1 == [P384Order EXCEPT ![48] = 114]
NPlus1 == [P384Order EXCEPT ![48] = 116]
ScalarBoundaries ==
  /\ ScalarInRange(One) /\ ScalarInRange(NMinus1)
  /\ ~ScalarInRange(Repeat(0, 48)) /\ ~ScalarInRange(P384Order) /\ ~ScalarInRange(NPlus1) /\ ~ScalarInRange(Repeat(255, 48))
  /\ ~ScalarInRange(Repeat(0, 47) ) /\ ~ScalarInRange(Repeat(0, 48) \o <<1>>)
=============================================================================
