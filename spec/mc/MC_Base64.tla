----------------------------- MODULE MC_Base64 -----------------------------
(* Exhaustive comparison of the three base64url definitions on a bounded  *)
(* domain.  Every state is an initial state; there are no transitions     *)
(* besides stuttering, so "states" = number of strings / byte strings.    *)
EXTENDS Base64Url, TLC

CONSTANTS MaxTail,      \* strings: tails of length 0..MaxTail
          Prefixes,     \* set of (canonical, full-block) prefixes put in front of each tail
          FullBytes     \* TRUE: 3-byte blocks over all 256 values; FALSE: a boundary subset

VARIABLES mode, s, b

PrefixesQuick == {<< >>, <<81, 85, 70, 66>>}
PrefixesNone == {<< >>}

Adversarial == {61, 43, 47, 32, 10, 46, 0, 127, 128, 255}
AlphabetSet == {c \in 0..255 : InAlphabet(c)}
Chars == AlphabetSet \cup Adversarial

BoundaryBytes == {0, 1, 63, 64, 255}

\* The domain is built by growth so that TLC's workers share the enumeration:
\* a string state of tail length n < MaxTail has one successor per character.
VARIABLE tail          \* length of the enumerated tail (strings) / of b (bytes)

ByteDomain == IF FullBytes THEN 0..255 ELSE BoundaryBytes

Init ==
  \/ /\ mode = "str" /\ b = << >> /\ tail = 0 /\ s \in Prefixes
  \/ /\ mode = "bytes" /\ s = << >> /\ tail = 0 /\ b = << >>

Next ==
  \/ /\ mode = "str" /\ tail < MaxTail
     /\ \E c \in Chars : s' = Append(s, c)
     /\ tail' = tail + 1 /\ UNCHANGED <<mode, b>>
  \/ /\ mode = "bytes" /\ tail < 3
     /\ \E c \in (IF tail < 2 THEN 0..255 ELSE ByteDomain) :
           b' = Append(b, c)
     /\ tail' = tail + 1 /\ UNCHANGED <<mode, s>>

\* the implementation-shaped decoder is the declarative one
ImplEqualsSpec == mode = "str" => ImplDecode(s) = Decode(s)

\* accepted <=> in the image of Encode, and re-encoding is the identity
AcceptedIffImage ==
  mode = "str" =>
     /\ (Canonical(s) <=> ((\A i \in 1..Len(s) : InAlphabet(s[i])) /\ Encode(DecodeRaw(s)) = s))
     /\ (Decode(s).ok => Encode(Decode(s).v) = s)
     /\ (Decode(s).ok => Len(Decode(s).v) = DecLen(Len(s)))

\* every byte string encodes to an accepted string that decodes back to it
EncodeDecode ==
  mode = "bytes" =>
     /\ Len(Encode(b)) = EncLen(Len(b))
     /\ Canonical(Encode(b))
     /\ Decode(Encode(b)) = Ok(b)
     /\ ImplDecode(Encode(b)) = Ok(b)
     /\ \A i \in 1..Len(Encode(b)) : InAlphabet(Encode(b)[i])
=============================================================================
