CONSTANTS
  MaxPieces = 5
  MaxLen = 3
  Alphabet = {0, 1}
  MaxFrags = 3
INIT Init
NEXT Next
INVARIANTS FragmentInvariance LeftInverse StreamEqualsBuffer LengthLaw CountPrefix
CHECK_DEADLOCK FALSE
