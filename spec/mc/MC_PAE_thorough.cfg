CONSTANTS
  MaxPieces = 4
  MaxLen = 2
  Alphabet = {0, 1}
  MaxFrags = 3
INIT Init
NEXT Next
INVARIANTS FragmentInvariance LeftInverse StreamEqualsBuffer LengthLaw CountPrefix
CHECK_DEADLOCK FALSE
