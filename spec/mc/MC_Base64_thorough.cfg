CONSTANTS
  MaxTail = 4
  Prefixes <- PrefixesQuick
  FullBytes = TRUE
INIT Init
NEXT Next
INVARIANTS ImplEqualsSpec AcceptedIffImage EncodeDecode
CHECK_DEADLOCK FALSE
