SPECIFICATION Spec
CONSTANTS
  Slots = {1, 2, 3}
  Evil = 3
  ClaimSet = {1}
  NoteSet = {0}
  Services = {"a"}
  MaxNet = 2
  MaxBlobs = 2
  MaxClock = 1
  Weaken = "none"
VIEW MCView
INVARIANTS Invs
PROPERTIES AcceptNeedsKey GenStable DispatchIsDisjunction NotExpired ClockMonotone
CHECK_DEADLOCK FALSE
