--------------------------- MODULE Deploy_proofs ---------------------------
(* Unbounded safety of the deployment design: for ANY number of slots, claims, notes, tokens and PASERK messages,      *)
(* Deploy!Spec implies []Authentic - a token accepted under a key that is not the attacker's was sealed by the key's   *)
(* owner with exactly those claims and that footer note for the service that accepted it.  Proved with TLAPS (tlapm) from an inductive invariant; TLC   *)
(* checks the same invariant (and the others) exhaustively for small constants, and TLC rejects the three weakened     *)
(* designs, which is why the proof assumes Weaken = "none".                                                            *)
EXTENDS Deploy, TLAPS, SequenceTheorems

ASSUME NotWeakened == Weaken = "none"
ASSUME ConstAssump == Evil \in Slots /\ MaxNet \in Nat /\ MaxBlobs \in Nat /\ MaxClock \in Nat

ClockTyped == clock \in Nat

TokT == [head : Kinds, bkind : Kinds, key : Slots, claims : ClaimSet, exp : Nat, aud : Auds, bkk : Kinds, bks : Slots, bnote : NoteSet,
         fkk : Kinds, fks : Slots, fnote : NoteSet]

NetTyped == net \in Seq(TokT)

\* every token body that was sealed with a key the attacker does not own is one its owner issued, bound to its own key id
NetInv == \A k \in 1..Len(net) : net[k].key # Evil =>
            /\ net[k].bks = net[k].key
            /\ net[k].bkk = net[k].bkind
            /\ [kind |-> net[k].bkind, key |-> net[k].key, claims |-> net[k].claims, note |-> net[k].bnote, aud |-> net[k].aud] \in issued

Ind == NetTyped /\ ClockTyped /\ NetInv /\ Authentic

LEMMA InitInd == Init => Ind
  BY DEF Init, Ind, NetTyped, ClockTyped, NetInv, Authentic

LEMMA EmitKeeps ==
  ASSUME NEW t \in TokT, Ind, Emit(t),
         issued \subseteq issued',
         t.key # Evil => /\ t.bks = t.key /\ t.bkk = t.bkind
                         /\ [kind |-> t.bkind, key |-> t.key, claims |-> t.claims, note |-> t.bnote, aud |-> t.aud] \in issued'
  PROVE Ind'
  <1>1. net' = Append(net, t) /\ accepted' = accepted /\ clock' = clock
    BY DEF Emit
  <1>2. NetTyped'
    BY <1>1, AppendProperties DEF Ind, NetTyped
  <1>3. NetInv'
    <2> SUFFICES ASSUME NEW k \in 1..Len(net'), net'[k].key # Evil
                 PROVE /\ net'[k].bks = net'[k].key /\ net'[k].bkk = net'[k].bkind
                       /\ [kind |-> net'[k].bkind, key |-> net'[k].key, claims |-> net'[k].claims, note |-> net'[k].bnote, aud |-> net'[k].aud] \in issued'
      BY DEF NetInv
    <2>1. Len(net') = Len(net) + 1 /\ net'[Len(net) + 1] = t /\ \A j \in 1..Len(net) : net'[j] = net[j]
      BY <1>1, AppendProperties DEF Ind, NetTyped
    <2>2. CASE k \in 1..Len(net)
      BY <2>1, <2>2 DEF Ind, NetInv
    <2>3. CASE k = Len(net) + 1
      BY <2>1, <2>3
    <2> QED BY <2>1, <2>2, <2>3 DEF Ind, NetTyped
  <1>4. Authentic'
    BY <1>1 DEF Ind, Authentic
  <1>5. ClockTyped'
    BY <1>1 DEF Ind, ClockTyped
  <1> QED BY <1>2, <1>3, <1>4, <1>5 DEF Ind

LEMMA IssueKeeps == ASSUME Ind, NEW s \in Slots, NEW kind, NEW c, NEW n, NEW t \in Slots, NEW ttl \in 0..1, NEW aud, Issue(s, kind, c, n, t, ttl, aud) PROVE Ind'
  <1> DEFINE tok == Tok(kind, s, c, n, t, clock + ttl, aud)
  <1>1. kind \in Kinds /\ c \in ClaimSet /\ n \in NoteSet /\ aud \in Auds /\ (s # Evil => t = s) /\ Emit(tok)
        /\ issued' = IF t = s THEN issued \cup {[kind |-> kind, key |-> s, claims |-> c, note |-> n, aud |-> aud]} ELSE issued
    BY DEF Issue
  <1>2. tok \in TokT
    BY <1>1 DEF Tok, TokT, Ind, ClockTyped
  <1>3. issued \subseteq issued'
    BY <1>1
  <1>4. tok.key # Evil => /\ tok.bks = tok.key /\ tok.bkk = tok.bkind
                          /\ [kind |-> tok.bkind, key |-> tok.key, claims |-> tok.claims, note |-> tok.bnote, aud |-> tok.aud] \in issued'
    BY <1>1 DEF Tok
  <1> QED BY <1>1, <1>2, <1>3, <1>4, EmitKeeps

LEMMA RefootKeeps == ASSUME Ind, NEW i, NEW j, Refoot(i, j) PROVE Ind'
  <1> DEFINE tok == [net[i] EXCEPT !.fkk = net[j].fkk, !.fks = net[j].fks, !.fnote = net[j].fnote]
  <1>1. i \in 1..Len(net) /\ j \in 1..Len(net) /\ Emit(tok) /\ issued' = issued
    BY DEF Refoot
  <1>2. net[i] \in TokT /\ net[j] \in TokT
    BY <1>1 DEF Ind, NetTyped
  <1>3. tok \in TokT
    BY <1>2 DEF TokT
  <1>4. tok.key = net[i].key /\ tok.bks = net[i].bks /\ tok.bkk = net[i].bkk /\ tok.bkind = net[i].bkind
        /\ tok.claims = net[i].claims /\ tok.bnote = net[i].bnote /\ tok.aud = net[i].aud
    BY <1>2 DEF TokT
  <1>5. tok.key # Evil => /\ tok.bks = tok.key /\ tok.bkk = tok.bkind
                          /\ [kind |-> tok.bkind, key |-> tok.key, claims |-> tok.claims, note |-> tok.bnote, aud |-> tok.aud] \in issued'
    BY <1>1, <1>4 DEF Ind, NetInv
  <1> QED BY <1>1, <1>3, <1>5, EmitKeeps

LEMMA RelabelKeeps == ASSUME Ind, NEW i, Relabel(i) PROVE Ind'
  <1> DEFINE tok == [net[i] EXCEPT !.head = IF @ = "local" THEN "public" ELSE "local"]
  <1>1. i \in 1..Len(net) /\ Emit(tok) /\ issued' = issued
    BY DEF Relabel
  <1>2. net[i] \in TokT
    BY <1>1 DEF Ind, NetTyped
  <1>3. tok \in TokT
    BY <1>2 DEF TokT, Kinds
  <1>4. tok.key = net[i].key /\ tok.bks = net[i].bks /\ tok.bkk = net[i].bkk /\ tok.bkind = net[i].bkind
        /\ tok.claims = net[i].claims /\ tok.bnote = net[i].bnote /\ tok.aud = net[i].aud
    BY <1>2 DEF TokT
  <1>5. tok.key # Evil => /\ tok.bks = tok.key /\ tok.bkk = tok.bkind
                          /\ [kind |-> tok.bkind, key |-> tok.key, claims |-> tok.claims, note |-> tok.bnote, aud |-> tok.aud] \in issued'
    BY <1>1, <1>4 DEF Ind, NetInv
  <1> QED BY <1>1, <1>3, <1>5, EmitKeeps

\* the step that matters: what Verify releases under an honest key was issued
LEMMA VerifyKeeps == ASSUME Ind, NEW i, NEW who, Verify(i, who) PROVE Ind'
  <1> DEFINE t == net[i]
             a == [kind |-> t.head, key |-> t.fks, claims |-> t.claims, note |-> t.fnote, aud |-> who]
  <1>1. i \in 1..Len(net) /\ net' = net /\ issued' = issued /\ clock' = clock
        /\ (IF VerifyOk(t, who) THEN accepted' = accepted \cup {a} ELSE accepted' = accepted)
    BY DEF Verify
  <1>2. NetTyped' /\ NetInv' /\ ClockTyped'
    BY <1>1 DEF Ind, NetTyped, NetInv, ClockTyped
  <1>3. Authentic'
    <2>1. CASE ~VerifyOk(t, who)
      BY <1>1, <2>1 DEF Ind, Authentic
    <2>2. CASE VerifyOk(t, who)
      <3>1. t.head = t.bkind /\ t.fkk = t.bkk /\ t.fks = t.bks /\ t.fnote = t.bnote /\ t.key = t.fks /\ t.aud = who
        BY <2>2, NotWeakened DEF VerifyOk
      <3>2. a.key # Evil => a \in issued
        <4> SUFFICES ASSUME a.key # Evil PROVE a \in issued
          OBVIOUS
        <4>1. t.key # Evil
          BY <3>1
        <4>2. /\ t.bks = t.key /\ t.bkk = t.bkind
              /\ [kind |-> t.bkind, key |-> t.key, claims |-> t.claims, note |-> t.bnote, aud |-> t.aud] \in issued
          BY <1>1, <4>1 DEF Ind, NetInv
        <4> QED BY <3>1, <4>2
      <3> QED BY <1>1, <2>2, <3>2 DEF Ind, Authentic
    <2> QED BY <2>1, <2>2
  <1> QED BY <1>2, <1>3 DEF Ind

\* every other action leaves net, issued and accepted alone
LEMMA FrameKeeps == ASSUME Ind, UNCHANGED <<net, issued, accepted>>, clock' \in Nat PROVE Ind'
  BY DEF Ind, NetTyped, NetInv, Authentic, ClockTyped

\* The proof is about Deploy!NextD, the actions as an explicit disjunction (tlapm cannot reason about the descriptor table Acts,
\* a union of set constructors with several bound variables); that every step of Deploy!Next is a step of NextD is checked by TLC
\* in every configuration of MC_Deploy (PROPERTY DispatchIsDisjunction).
LEMMA NextKeeps == ASSUME Ind, [NextD]_vars PROVE Ind'
  <1>0. clock \in Nat
    BY DEF Ind, ClockTyped
  <1>1. CASE UNCHANGED vars
    BY <1>0, <1>1, FrameKeeps DEF vars
  <1>2. CASE \E s \in Slots, m \in {"local", "pair"} : GenKey(s, m)
    BY <1>0, <1>2, FrameKeeps DEF GenKey
  <1>3. CASE \E s \in Slots : SendPlain(s)
    BY <1>0, <1>3, FrameKeeps DEF SendPlain, Send
  <1>4. CASE \E f \in {"pie", "pw"}, s \in Slots, k \in {"local", "secret"}, u \in {"own", "other"} : SendWrapped(f, s, k, u)
    BY <1>0, <1>4, FrameKeeps DEF SendWrapped, Send
  <1>5. CASE \E s \in Slots, u \in {"own", "other"} : SendSeal(s, u)
    BY <1>0, <1>5, FrameKeeps DEF SendSeal, Send
  <1>6. CASE \E i \in 1..MaxBlobs, h \in {"flip", "relabel"} : TamperBlob(i, h)
    BY <1>0, <1>6, FrameKeeps DEF TamperBlob, Send
  <1>7. CASE \E i \in 1..MaxBlobs : Import(i)
    BY <1>0, <1>7, FrameKeeps DEF Import
  <1>8. CASE \E k \in Kinds, s \in Slots : Forget(k, s)
    BY <1>0, <1>8, FrameKeeps DEF Forget
  <1>9. CASE \E s \in Slots, k \in Kinds, c \in ClaimSet, n \in NoteSet, t \in Slots, ttl \in 0..1, u \in Auds : Issue(s, k, c, n, t, ttl, u)
    BY <1>9, IssueKeeps
  <1>13. CASE Tick
    BY <1>0, <1>13, FrameKeeps DEF Tick
  <1>10. CASE \E i \in 1..MaxNet, j \in 1..MaxNet : Refoot(i, j)
    BY <1>10, RefootKeeps
  <1>11. CASE \E i \in 1..MaxNet : Relabel(i)
    BY <1>11, RelabelKeeps
  <1>12. CASE \E i \in 1..MaxNet, u \in Services : Verify(i, u)
    BY <1>12, VerifyKeeps
  <1> QED BY <1>1, <1>2, <1>3, <1>4, <1>5, <1>6, <1>7, <1>8, <1>9, <1>10, <1>11, <1>12, <1>13 DEF NextD

THEOREM Safety == SpecD => []Authentic
  <1>1. Init => Ind
    BY InitInd
  <1>2. Ind /\ [NextD]_vars => Ind'
    BY NextKeeps
  <1>3. Ind => Authentic
    BY DEF Ind
  <1> QED BY <1>1, <1>2, <1>3, PTL DEF SpecD

\* ---- the key store: typed, and closed channels stay closed ------------------------------------------------------
KeyKinds == {"local", "secret", "public"}
BlobT == [form : {"plain", "pie", "pw", "seal"}, kind : KeyKinds, label : KeyKinds, key : Slots, under : {"own", "other"}, intact : BOOLEAN]
MatOf(kk) == IF kk = "local" THEN "local" ELSE "pair"

GenTyped == gen \in [Slots -> {"none", "local", "pair"}]
BlobsTyped == blobs \in Seq(BlobT)
BlobInv == \A k \in 1..Len(blobs) :
             /\ gen[blobs[k].key] = MatOf(blobs[k].kind)
             /\ (blobs[k].form \in {"pie", "pw"} /\ blobs[k].under = "own" => blobs[k].key # Evil)
StoreInv == \A e \in store : e.kind \in Kinds /\ e.key \in Slots /\ gen[e.key] = Material(e.kind)

Ind2 == GenTyped /\ BlobsTyped /\ BlobInv /\ StoreInv /\ ClosedChannels

LEMMA Init2 == Init => Ind2
  BY DEF Init, Ind2, GenTyped, BlobsTyped, BlobInv, StoreInv, ClosedChannels

\* appending a blob that satisfies the per-blob conditions
LEMMA SendKeeps2 ==
  ASSUME Ind2, NEW b \in BlobT, Send(b),
         gen[b.key] = MatOf(b.kind),
         b.form \in {"pie", "pw"} /\ b.under = "own" => b.key # Evil
  PROVE Ind2'
  <1>1. blobs' = Append(blobs, b) /\ UNCHANGED <<gen, store, via>>
    BY DEF Send
  <1>2. BlobsTyped'
    BY <1>1, AppendProperties DEF Ind2, BlobsTyped
  <1>3. BlobInv'
    <2> SUFFICES ASSUME NEW k \in 1..Len(blobs')
                 PROVE /\ gen'[blobs'[k].key] = MatOf(blobs'[k].kind)
                       /\ (blobs'[k].form \in {"pie", "pw"} /\ blobs'[k].under = "own" => blobs'[k].key # Evil)
      BY DEF BlobInv
    <2>1. Len(blobs') = Len(blobs) + 1 /\ blobs'[Len(blobs) + 1] = b /\ \A j \in 1..Len(blobs) : blobs'[j] = blobs[j]
      BY <1>1, AppendProperties DEF Ind2, BlobsTyped
    <2>2. CASE k \in 1..Len(blobs)
      BY <1>1, <2>1, <2>2 DEF Ind2, BlobInv
    <2>3. CASE k = Len(blobs) + 1
      BY <1>1, <2>1, <2>3
    <2> QED BY <2>1, <2>2, <2>3 DEF Ind2, BlobsTyped
  <1>4. GenTyped' /\ StoreInv' /\ ClosedChannels'
    BY <1>1 DEF Ind2, GenTyped, StoreInv, ClosedChannels
  <1> QED BY <1>2, <1>3, <1>4 DEF Ind2

LEMMA GenKeyKeeps2 == ASSUME Ind2, NEW s \in Slots, NEW m \in {"local", "pair"}, GenKey(s, m) PROVE Ind2'
  <1>1. gen[s] = "none" /\ gen' = [gen EXCEPT ![s] = m] /\ UNCHANGED <<store, via, blobs>>
    BY DEF GenKey
  <1>2. GenTyped'
    BY <1>1 DEF Ind2, GenTyped
  <1>3. \A t \in Slots : gen[t] # "none" => gen'[t] = gen[t]
    BY <1>1 DEF Ind2, GenTyped
  <1>4. BlobInv'
    <2> SUFFICES ASSUME NEW k \in 1..Len(blobs) PROVE gen'[blobs[k].key] = MatOf(blobs[k].kind)
      BY <1>1 DEF Ind2, BlobInv
    <2>1. blobs[k] \in BlobT /\ gen[blobs[k].key] = MatOf(blobs[k].kind)
      BY DEF Ind2, BlobsTyped, BlobInv
    <2>2. gen[blobs[k].key] # "none" /\ blobs[k].key \in Slots
      BY <2>1 DEF MatOf, BlobT
    <2> QED BY <1>3, <2>1, <2>2
  <1>5. StoreInv'
    <2> SUFFICES ASSUME NEW e \in store PROVE gen'[e.key] = Material(e.kind)
      BY <1>1 DEF Ind2, StoreInv
    <2>1. e.key \in Slots /\ gen[e.key] = Material(e.kind)
      BY DEF Ind2, StoreInv
    <2>2. gen[e.key] # "none"
      BY <2>1 DEF Material
    <2> QED BY <1>3, <2>1, <2>2
  <1>6. BlobsTyped' /\ ClosedChannels'
    BY <1>1 DEF Ind2, BlobsTyped, ClosedChannels
  <1> QED BY <1>2, <1>4, <1>5, <1>6 DEF Ind2

LEMMA ImportKeeps2 == ASSUME Ind2, NEW i \in 1..MaxBlobs, Import(i) PROVE Ind2'
  <1> DEFINE b == blobs[i]
             e == [kind |-> StoredAs(b.label), key |-> b.key]
  <1>1. i \in 1..Len(blobs) /\ UNCHANGED <<gen, blobs>>
    BY DEF Import
  <1>2. b \in BlobT /\ gen[b.key] = MatOf(b.kind) /\ (b.form \in {"pie", "pw"} /\ b.under = "own" => b.key # Evil)
    BY <1>1 DEF Ind2, BlobsTyped, BlobInv
  <1>3. CASE ~ImportOk(b)
    <2>1. UNCHANGED <<store, via>>
      BY <1>3 DEF Import
    <2> QED BY <1>1, <2>1 DEF Ind2, GenTyped, BlobsTyped, BlobInv, StoreInv, ClosedChannels
  <1>4. CASE ImportOk(b)
    <2>1. store' = store \cup {e} /\ via' = via \cup {[kind |-> e.kind, key |-> e.key, form |-> b.form]}
      BY <1>4 DEF Import
    <2>2. b.label = b.kind /\ b.under = "own"
      BY <1>4, NotWeakened DEF ImportOk
    <2>3. e.kind \in Kinds /\ e.key \in Slots /\ gen[e.key] = Material(e.kind)
      BY <1>2, <2>2 DEF StoredAs, Material, MatOf, Kinds, BlobT, KeyKinds
    <2>4. StoreInv'
      BY <1>1, <2>1, <2>3 DEF Ind2, StoreInv
    <2>5. ClosedChannels'
      BY <1>2, <2>1, <2>2 DEF Ind2, ClosedChannels
    <2> QED BY <1>1, <2>4, <2>5 DEF Ind2, GenTyped, BlobsTyped, BlobInv
  <1> QED BY <1>3, <1>4

LEMMA ForgetKeeps2 == ASSUME Ind2, NEW k, NEW s, Forget(k, s) PROVE Ind2'
  <1>1. store' \subseteq store /\ via' \subseteq via /\ UNCHANGED <<gen, blobs>>
    BY DEF Forget
  <1> QED BY <1>1 DEF Ind2, GenTyped, BlobsTyped, BlobInv, StoreInv, ClosedChannels

LEMMA Frame2 == ASSUME Ind2, UNCHANGED <<gen, store, via, blobs>> PROVE Ind2'
  BY DEF Ind2, GenTyped, BlobsTyped, BlobInv, StoreInv, ClosedChannels

LEMMA TamperKeeps2 == ASSUME Ind2, NEW i \in 1..MaxBlobs, NEW h \in {"flip", "relabel"}, TamperBlob(i, h) PROVE Ind2'
  <1>1. i \in 1..Len(blobs)
    BY DEF TamperBlob
  <1>2. blobs[i] \in BlobT /\ gen[blobs[i].key] = MatOf(blobs[i].kind)
        /\ (blobs[i].form \in {"pie", "pw"} /\ blobs[i].under = "own" => blobs[i].key # Evil)
    BY <1>1 DEF Ind2, BlobsTyped, BlobInv
  <1>3. CASE h = "flip" /\ Send([blobs[i] EXCEPT !.intact = FALSE])
    <2> DEFINE nb == [blobs[i] EXCEPT !.intact = FALSE]
    <2>1. nb \in BlobT /\ nb.key = blobs[i].key /\ nb.kind = blobs[i].kind /\ nb.form = blobs[i].form /\ nb.under = blobs[i].under
      BY <1>2 DEF BlobT
    <2> QED BY <1>2, <1>3, <2>1, SendKeeps2
  <1>4. CASE h = "relabel" /\ Send([blobs[i] EXCEPT !.label = Flip(@)])
    <2> DEFINE nb == [blobs[i] EXCEPT !.label = Flip(@)]
    <2>1. nb \in BlobT /\ nb.key = blobs[i].key /\ nb.kind = blobs[i].kind /\ nb.form = blobs[i].form /\ nb.under = blobs[i].under
      BY <1>2 DEF BlobT, Flip, KeyKinds
    <2> QED BY <1>2, <1>4, <2>1, SendKeeps2
  <1> QED BY <1>3, <1>4 DEF TamperBlob

LEMMA NextKeeps2 == ASSUME Ind2, [NextD]_vars PROVE Ind2'
  <1>1. CASE UNCHANGED vars
    BY <1>1, Frame2 DEF vars
  <1>2. CASE \E s \in Slots, m \in {"local", "pair"} : GenKey(s, m)
    BY <1>2, GenKeyKeeps2
  <1>3. CASE \E s \in Slots : SendPlain(s)
    <2>1. PICK s \in Slots : SendPlain(s)
      BY <1>3
    <2>2. Blob("plain", "public", s, "own") \in BlobT
      BY DEF Blob, BlobT, KeyKinds
    <2> QED BY <2>1, <2>2, SendKeeps2 DEF SendPlain, Blob, MatOf
  <1>4. CASE \E f \in {"pie", "pw"}, s \in Slots, k \in {"local", "secret"}, u \in {"own", "other"} : SendWrapped(f, s, k, u)
    <2>1. PICK f \in {"pie", "pw"}, s \in Slots, k \in {"local", "secret"}, u \in {"own", "other"} : SendWrapped(f, s, k, u)
      BY <1>4
    <2>2. Blob(f, k, s, u) \in BlobT
      BY DEF Blob, BlobT, KeyKinds
    <2> QED BY <2>1, <2>2, SendKeeps2 DEF SendWrapped, Blob, MatOf
  <1>5. CASE \E s \in Slots, u \in {"own", "other"} : SendSeal(s, u)
    <2>1. PICK s \in Slots, u \in {"own", "other"} : SendSeal(s, u)
      BY <1>5
    <2>2. Blob("seal", "local", s, u) \in BlobT
      BY DEF Blob, BlobT, KeyKinds
    <2> QED BY <2>1, <2>2, SendKeeps2 DEF SendSeal, Blob, MatOf
  <1>6. CASE \E i \in 1..MaxBlobs, h \in {"flip", "relabel"} : TamperBlob(i, h)
    BY <1>6, TamperKeeps2
  <1>7. CASE \E i \in 1..MaxBlobs : Import(i)
    BY <1>7, ImportKeeps2
  <1>8. CASE \E k \in Kinds, s \in Slots : Forget(k, s)
    BY <1>8, ForgetKeeps2
  <1>9. CASE \E s \in Slots, k \in Kinds, c \in ClaimSet, n \in NoteSet, t \in Slots, ttl \in 0..1, u \in Auds : Issue(s, k, c, n, t, ttl, u)
    BY <1>9, Frame2 DEF Issue, Emit
  <1>10. CASE \E i \in 1..MaxNet, j \in 1..MaxNet : Refoot(i, j)
    BY <1>10, Frame2 DEF Refoot, Emit
  <1>11. CASE \E i \in 1..MaxNet : Relabel(i)
    BY <1>11, Frame2 DEF Relabel, Emit
  <1>12. CASE \E i \in 1..MaxNet, u \in Services : Verify(i, u)
    BY <1>12, Frame2 DEF Verify
  <1>13. CASE Tick
    BY <1>13, Frame2 DEF Tick
  <1> QED BY <1>1, <1>2, <1>3, <1>4, <1>5, <1>6, <1>7, <1>8, <1>9, <1>10, <1>11, <1>12, <1>13 DEF NextD

THEOREM StoreSafety == SpecD => [](StoreTyped /\ ClosedChannels)
  <1>1. Init => Ind2
    BY Init2
  <1>2. Ind2 /\ [NextD]_vars => Ind2'
    BY NextKeeps2
  <1>3. Ind2 => StoreTyped /\ ClosedChannels
    BY DEF Ind2, StoreInv, StoreTyped
  <1> QED BY <1>1, <1>2, <1>3, PTL DEF SpecD
=============================================================================
