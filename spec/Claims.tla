------------------------------- MODULE Claims --------------------------------
(***************************************************************************)
(* The validator algebra of paseto-core / paseto-json, from the property   *)
(* text (C11) and the PASETO claims guide:                                 *)
(*   time      accepts iff (no exp or exp >= now) and (no nbf or nbf <= now)*)
(*   leeway    the same with both bounds widened by exactly the leeway      *)
(*   hasexp    accepts iff exp is present                                   *)
(*   iss/sub/aud  accept iff the claim is present and equal                 *)
(*   and, slice, vec  accept iff every member accepts                       *)
(*   map       validates the projected value; box/rc/arc are transparent    *)
(*   none      accepts everything                                           *)
(*                                                                         *)
(* Time is a pair <<coarse, fine>> ordered lexicographically: coarse in     *)
(* units of "one leeway", fine in nanoseconds.  This represents now,        *)
(* now +- 1ns, now +- leeway, now +- leeway +- 1ns and far past/future in   *)
(* TLC's integers; the harness maps <<c, f>> to base + c*L + f ns for       *)
(* several concrete (base, L).  A claim is << >> when absent, <<v>> when     *)
(* present.                                                                *)
(***************************************************************************)
EXTENDS Integers, Sequences

TLeq(a, b) == a[1] < b[1] \/ (a[1] = b[1] /\ a[2] <= b[2])
TShift(t, k) == <<t[1] + k, t[2]>>         \* t + k leeway units

Present(x) == x # << >>
Val(x) == x[1]

TimeOK(c, now, k) ==
  /\ (Present(c.exp) => TLeq(TShift(now, 0 - k), Val(c.exp)))     \* exp >= now - k*L
  /\ (Present(c.nbf) => TLeq(Val(c.nbf), TShift(now, k)))         \* nbf <= now + k*L

\* ---- the claims builder (RegisteredClaims::new / from_issuer / for_audience / for_subject / with_token_id)
\* new(now, d): expires d after now, not valid before now, issued at now, nothing else;  each setter sets exactly its field
NewClaims(now, k) == [exp |-> <<TShift(now, k)>>, nbf |-> <<now>>, iat |-> <<now>>,
                      iss |-> << >>, sub |-> << >>, aud |-> << >>, jti |-> << >>]
RECURSIVE Built(_, _)
Built(c, setters) ==
  IF setters = << >> THEN c
  ELSE LET h == Head(setters) IN
       Built(CASE h[1] = "iss" -> [c EXCEPT !.iss = <<h[2]>>] [] h[1] = "sub" -> [c EXCEPT !.sub = <<h[2]>>]
               [] h[1] = "aud" -> [c EXCEPT !.aud = <<h[2]>>] [] h[1] = "jti" -> [c EXCEPT !.jti = <<h[2]>>], Tail(setters))
\* what a fresh token is good for: valid exactly from its issue time to its expiry (both inclusive)
BuiltValidAt(now, k, t) == TLeq(now, t) /\ TLeq(t, TShift(now, k))

RECURSIVE Accepts(_, _)
Accepts(e, c) ==
  CASE e.op = "time" -> TimeOK(c, e.now, 0)
    [] e.op = "leeway" -> TimeOK(c, e.now, e.k)
    [] e.op = "hasexp" -> Present(c.exp)
    [] e.op = "iss" -> Present(c.iss) /\ Val(c.iss) = e.s
    [] e.op = "sub" -> Present(c.sub) /\ Val(c.sub) = e.s
    [] e.op = "aud" -> Present(c.aud) /\ Val(c.aud) = e.s
    [] e.op = "none" -> TRUE
    [] e.op = "and" -> Accepts(e.a, c) /\ Accepts(e.b, c)
    [] e.op \in {"slice", "vec"} -> \A i \in 1..Len(e.xs) : Accepts(e.xs[i], c)
    [] e.op \in {"box", "rc", "arc"} -> Accepts(e.a, c)

\* map: the validator of the projected part decides; `outer` is <<x, y>> and sel picks one
AcceptsTop(e, outer) ==
  IF e.op = "map" THEN Accepts(e.a, IF e.sel = "x" THEN outer[1] ELSE outer[2])
  ELSE Accepts(e, outer[1])
=============================================================================
