//! Harness-defined payload, footer and validator types.  paseto-core's `Payload`, `Footer`
//! and `Validate` are public traits, so decode/validate invocations are observable without
//! any source hook.
use paseto_core::PasetoError;
use paseto_core::encodings::{Footer, Payload, WriteBytes};
use paseto_core::validation::Validate;
use std::cell::RefCell;
use std::error::Error;

/// Any byte string is an encodable payload.
#[derive(Clone, Debug, PartialEq, Eq)]
pub struct Raw(pub Vec<u8>);

impl Payload for Raw {
    const SUFFIX: &'static str = "";
    fn encode(self, mut w: impl WriteBytes) -> Result<(), Box<dyn Error + Send + Sync>> {
        w.write(&self.0);
        Ok(())
    }
    fn decode(p: &[u8]) -> Result<Self, Box<dyn Error + Send + Sync>> {
        Ok(Raw(p.to_vec()))
    }
}

/// The same, declared as another payload encoding (header suffix "c").
#[derive(Clone, Debug, PartialEq, Eq)]
pub struct RawC(pub Vec<u8>);

impl Payload for RawC {
    const SUFFIX: &'static str = "c";
    fn encode(self, mut w: impl WriteBytes) -> Result<(), Box<dyn Error + Send + Sync>> {
        w.write(&self.0);
        Ok(())
    }
    fn decode(p: &[u8]) -> Result<Self, Box<dyn Error + Send + Sync>> {
        Ok(RawC(p.to_vec()))
    }
}

/// Two more payload encodings: another one-letter suffix, and a two-letter one that starts like "c".
macro_rules! raw_suffix {
    ($name:ident, $sfx:literal) => {
        #[derive(Clone, Debug, PartialEq, Eq)]
        pub struct $name(pub Vec<u8>);
        impl Payload for $name {
            const SUFFIX: &'static str = $sfx;
            fn encode(self, mut w: impl WriteBytes) -> Result<(), Box<dyn Error + Send + Sync>> {
                w.write(&self.0);
                Ok(())
            }
            fn decode(p: &[u8]) -> Result<Self, Box<dyn Error + Send + Sync>> {
                Ok($name(p.to_vec()))
            }
        }
    };
}
raw_suffix!(RawM, "m");
raw_suffix!(RawCb, "cb");

/// What the spying decoder should do when invoked.
#[derive(Clone, Copy, PartialEq, Eq, Debug)]
pub enum DecodeMode {
    Ok,
    Fail,
    Panic,
}

#[derive(Clone, Debug)]
pub enum Spy {
    Draw { len: usize, ok: bool, val: Vec<u8> },
    FooterEncode { ok: bool },
    ClaimsEncode { ok: bool },
    FooterDecode { bytes: Vec<u8>, ok: bool },
    Decode { bytes: Vec<u8>, ok: bool },
    Validate { claims: Vec<u8>, verdict: bool },
}

thread_local! {
    pub static SPY_LOG: RefCell<Vec<Spy>> = const { RefCell::new(Vec::new()) };
    pub static DECODE_MODE: RefCell<DecodeMode> = const { RefCell::new(DecodeMode::Ok) };
    pub static ENCODE_FAIL: RefCell<(bool, bool)> = const { RefCell::new((false, false)) }; // (claims, footer)
}

pub fn spy_take() -> Vec<Spy> {
    SPY_LOG.with(|l| std::mem::take(&mut *l.borrow_mut()))
}
pub fn set_decode_mode(m: DecodeMode) {
    DECODE_MODE.with(|d| *d.borrow_mut() = m);
}
pub fn set_encode_fail(claims: bool, footer: bool) {
    ENCODE_FAIL.with(|d| *d.borrow_mut() = (claims, footer));
}
pub fn log(s: Spy) {
    SPY_LOG.with(|l| l.borrow_mut().push(s));
}

/// Payload whose encode/decode record their invocation (and can be steered).
#[derive(Clone, Debug, PartialEq, Eq)]
pub struct SpyClaimsS<const C: bool>(pub Vec<u8>);
/// the standard encoding (no header suffix)
pub type SpyClaims = SpyClaimsS<false>;
/// the same payload declared as another encoding: header suffix "c" (vNc.local. / vNc.public.)
pub type SpyClaimsC = SpyClaimsS<true>;

impl<const C: bool> Payload for SpyClaimsS<C> {
    const SUFFIX: &'static str = if C { "c" } else { "" };
    fn encode(self, mut w: impl WriteBytes) -> Result<(), Box<dyn Error + Send + Sync>> {
        let fail = ENCODE_FAIL.with(|d| d.borrow().0);
        log(Spy::ClaimsEncode { ok: !fail });
        if fail {
            return Err("claims encode failure injected".into());
        }
        w.write(&self.0);
        Ok(())
    }
    fn decode(p: &[u8]) -> Result<Self, Box<dyn Error + Send + Sync>> {
        let mode = DECODE_MODE.with(|d| *d.borrow());
        log(Spy::Decode { bytes: p.to_vec(), ok: mode == DecodeMode::Ok });
        match mode {
            DecodeMode::Ok => Ok(SpyClaimsS(p.to_vec())),
            DecodeMode::Fail => Err("decode failure injected".into()),
            DecodeMode::Panic => panic!("SPY-DECODE-INVOKED"),
        }
    }
}

#[derive(Clone, Debug, PartialEq, Eq)]
pub struct SpyFooter(pub Vec<u8>);

impl Footer for SpyFooter {
    fn encode(&self, mut w: impl WriteBytes) -> Result<(), Box<dyn Error + Send + Sync>> {
        let fail = ENCODE_FAIL.with(|d| d.borrow().1);
        log(Spy::FooterEncode { ok: !fail });
        if fail {
            return Err("footer encode failure injected".into());
        }
        w.write(&self.0);
        Ok(())
    }
    fn decode(f: &[u8]) -> Result<Self, Box<dyn Error + Send + Sync>> {
        log(Spy::FooterDecode { bytes: f.to_vec(), ok: true });
        Ok(SpyFooter(f.to_vec()))
    }
}

/// A footer type without fields whose wire form is a fixed, non-empty document (a key hint chosen at compile time).
#[derive(Clone, Debug, PartialEq, Eq)]
pub struct FixedFooter;
pub const FIXED_FOOTER: &[u8] = b"{\"kid\":\"primary\"}";

impl Footer for FixedFooter {
    fn encode(&self, mut w: impl WriteBytes) -> Result<(), Box<dyn Error + Send + Sync>> {
        w.write(FIXED_FOOTER);
        Ok(())
    }
    fn decode(f: &[u8]) -> Result<Self, Box<dyn Error + Send + Sync>> {
        if f == FIXED_FOOTER { Ok(FixedFooter) } else { Err("not the fixed footer".into()) }
    }
}

/// Validator that records its invocation and returns a scripted verdict.
pub struct SpyValidatorS<const C: bool> {
    pub verdict: bool,
}
pub type SpyValidator = SpyValidatorS<false>;

impl<const C: bool> Validate for SpyValidatorS<C> {
    type Claims = SpyClaimsS<C>;
    fn validate(&self, claims: &SpyClaimsS<C>) -> Result<(), PasetoError> {
        log(Spy::Validate { claims: claims.0.clone(), verdict: self.verdict });
        if self.verdict { Ok(()) } else { Err(PasetoError::ClaimsError) }
    }
}

/// A footer type whose decoding is NOT injective (trailing ASCII spaces are insignificant, as whitespace is
/// in JSON): two different wire footers decode to the same value.  Authentication must still be over the
/// wire bytes.
#[derive(Clone, Debug, PartialEq, Eq)]
pub struct NormFooter(pub Vec<u8>);

impl Footer for NormFooter {
    fn encode(&self, mut w: impl WriteBytes) -> Result<(), Box<dyn Error + Send + Sync>> {
        log(Spy::FooterEncode { ok: true });
        w.write(&self.0);
        Ok(())
    }
    fn decode(f: &[u8]) -> Result<Self, Box<dyn Error + Send + Sync>> {
        let mut v = f.to_vec();
        while v.last() == Some(&b' ') {
            v.pop();
        }
        Ok(NormFooter(v))
    }
}

/// harness view of a footer value
pub trait HFooter: Footer + Sized {
    fn make(b: &[u8]) -> Self;
    fn value_bytes(&self) -> Vec<u8>;
}
impl HFooter for SpyFooter {
    fn make(b: &[u8]) -> Self {
        SpyFooter(b.to_vec())
    }
    fn value_bytes(&self) -> Vec<u8> {
        self.0.clone()
    }
}
impl HFooter for NormFooter {
    fn make(b: &[u8]) -> Self {
        NormFooter(b.to_vec())
    }
    fn value_bytes(&self) -> Vec<u8> {
        self.0.clone()
    }
}

/// JSON claims through paseto-json's own Json<T> wrapper, with invocation recording.
#[derive(Clone, Debug, PartialEq)]
pub struct SpyJson(pub serde_json::Value);

impl Payload for SpyJson {
    const SUFFIX: &'static str = "";
    fn encode(self, w: impl WriteBytes) -> Result<(), Box<dyn Error + Send + Sync>> {
        log(Spy::ClaimsEncode { ok: true });
        paseto_json::Json(self.0).encode(w)
    }
    fn decode(p: &[u8]) -> Result<Self, Box<dyn Error + Send + Sync>> {
        let r = <paseto_json::Json<serde_json::Value> as Payload>::decode(p);
        log(Spy::Decode { bytes: p.to_vec(), ok: r.is_ok() });
        r.map(|j| SpyJson(j.0))
    }
}

pub struct AcceptJson;
impl Validate for AcceptJson {
    type Claims = SpyJson;
    fn validate(&self, claims: &SpyJson) -> Result<(), PasetoError> {
        log(Spy::Validate { claims: serde_json::to_vec(&claims.0).unwrap(), verdict: true });
        Ok(())
    }
}

/// paseto-json's RegisteredClaims as the payload, with invocation recording.  A claims VALUE is identified by its Debug rendering
/// (all seven fields), so that a value altered on its way through encode / decode is a different identity.
#[derive(Clone, Debug)]
pub struct SpyReg(pub paseto_json::RegisteredClaims);

pub fn reg_identity(c: &paseto_json::RegisteredClaims) -> Vec<u8> {
    format!("{c:?}").into_bytes()
}

impl Payload for SpyReg {
    const SUFFIX: &'static str = "";
    fn encode(self, w: impl WriteBytes) -> Result<(), Box<dyn Error + Send + Sync>> {
        log(Spy::ClaimsEncode { ok: true });
        self.0.encode(w)
    }
    fn decode(p: &[u8]) -> Result<Self, Box<dyn Error + Send + Sync>> {
        let r = <paseto_json::RegisteredClaims as Payload>::decode(p);
        match &r {
            Ok(c) => log(Spy::Decode { bytes: reg_identity(c), ok: true }),
            Err(_) => log(Spy::Decode { bytes: p.to_vec(), ok: false }),
        }
        r.map(SpyReg)
    }
}

pub struct AcceptReg;
impl Validate for AcceptReg {
    type Claims = SpyReg;
    fn validate(&self, claims: &SpyReg) -> Result<(), PasetoError> {
        log(Spy::Validate { claims: reg_identity(&claims.0), verdict: true });
        Ok(())
    }
}

/// paseto-json's Json<Value> as the footer, with invocation recording; identified by its serde_json bytes
#[derive(Clone, Debug, PartialEq)]
pub struct SpyJsonFooter(pub serde_json::Value);

impl Footer for SpyJsonFooter {
    fn encode(&self, w: impl WriteBytes) -> Result<(), Box<dyn Error + Send + Sync>> {
        log(Spy::FooterEncode { ok: true });
        Footer::encode(&paseto_json::Json(self.0.clone()), w)
    }
    fn decode(f: &[u8]) -> Result<Self, Box<dyn Error + Send + Sync>> {
        let r = <paseto_json::Json<serde_json::Value> as Footer>::decode(f);
        log(Spy::FooterDecode { bytes: f.to_vec(), ok: r.is_ok() });
        r.map(|j| SpyJsonFooter(j.0))
    }
}

/// Application claims as users write them: paseto-json's RegisteredClaims flattened into a struct next to private members, among
/// them floats, an untagged and an internally tagged enum (serde buffers those through its Content type).  Carried by Json<T>.
#[derive(Clone, Debug, PartialEq, serde::Serialize, serde::Deserialize)]
pub struct Session {
    pub uid: u64,
    pub trust: f64,
}
#[derive(Clone, Debug, PartialEq, serde::Serialize, serde::Deserialize)]
#[serde(untagged)]
pub enum Amount {
    Whole(u64),
    Real(f64),
    Text(String),
}
#[derive(Clone, Debug, PartialEq, serde::Serialize, serde::Deserialize)]
#[serde(tag = "kind")]
pub enum Grant {
    Read { ratio: f32 },
    Write { quota: u32 },
}
#[derive(Clone, Debug, serde::Serialize, serde::Deserialize)]
pub struct AppClaims {
    #[serde(flatten)]
    pub registered: paseto_json::RegisteredClaims,
    pub role: String,
    #[serde(flatten)]
    pub session: Session,
    pub amount: Amount,
    pub grant: Grant,
}

pub fn app_identity(c: &AppClaims) -> Vec<u8> {
    format!("{c:?}").into_bytes()
}

#[derive(Clone, Debug)]
pub struct SpyApp(pub AppClaims);

impl Payload for SpyApp {
    const SUFFIX: &'static str = "";
    fn encode(self, w: impl WriteBytes) -> Result<(), Box<dyn Error + Send + Sync>> {
        log(Spy::ClaimsEncode { ok: true });
        paseto_json::Json(self.0).encode(w)
    }
    fn decode(p: &[u8]) -> Result<Self, Box<dyn Error + Send + Sync>> {
        let r = <paseto_json::Json<AppClaims> as Payload>::decode(p);
        match &r {
            Ok(c) => log(Spy::Decode { bytes: app_identity(&c.0), ok: true }),
            Err(_) => log(Spy::Decode { bytes: p.to_vec(), ok: false }),
        }
        r.map(|j| SpyApp(j.0))
    }
}

pub struct AcceptApp;
impl Validate for AcceptApp {
    type Claims = SpyApp;
    fn validate(&self, claims: &SpyApp) -> Result<(), PasetoError> {
        log(Spy::Validate { claims: app_identity(&claims.0), verdict: true });
        Ok(())
    }
}
