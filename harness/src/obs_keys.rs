//! C08: byte strings offered as keys of every kind to every backend, with what independent oracles say
//! about them (curve membership, seed -> public key, RSA modulus size).  The specification (Keys.tla)
//! decides which must be accepted and which rejected, and what must hold of every accepted key.
use crate::backends::*;
use crate::eval::{Fam, lc, prim};
use crate::keys;
use crate::prng::Prng;
use crate::rec::{Recorder, codes};
use paseto_core::key::{HasKey, Key, KeyType};
use paseto_core::tokens::UnsealedToken;
use paseto_core::validation::NoValidation;
use paseto_core::version::{Local, PkePublic, PkeSecret, Public, Secret};
use rsa::BigUint;
use serde_json::{Value, json};
use std::panic::{AssertUnwindSafe, catch_unwind};

/// independent Ed25519 curve-membership test with big integers: y < p and (y^2-1)/(d y^2+1) is a square mod p
pub fn ed_on_curve(b: &[u8]) -> (bool, bool) {
    if b.len() != 32 {
        return (false, false);
    }
    let p = (BigUint::from(1u8) << 255) - BigUint::from(19u8);
    let mut yb = b.to_vec();
    let sign = yb[31] >> 7;
    yb[31] &= 0x7f;
    let y = BigUint::from_bytes_le(&yb);
    let canonical = y < p;
    let y = &y % &p;
    let one = BigUint::from(1u8);
    // d = -121665/121666 mod p
    let inv = |x: &BigUint| x.modpow(&(&p - BigUint::from(2u8)), &p);
    let d = (&p - (BigUint::from(121665u32) * inv(&BigUint::from(121666u32))) % &p) % &p;
    let y2 = (&y * &y) % &p;
    let u = (&y2 + &p - &one) % &p;
    let v = (&d * &y2 + &one) % &p;
    let x2 = (&u * inv(&v)) % &p;
    let zero = BigUint::from(0u8);
    let on = if x2 == zero { sign == 0 || true } else { x2.modpow(&((&p - &one) >> 1), &p) == one };
    // x = 0 with the sign bit set is a non-canonical encoding of a curve point
    let canonical = canonical && !(x2 == zero && sign == 1);
    (on, canonical)
}

fn p384_oracles(b: &[u8]) -> Value {
    let rc = p384::PublicKey::from_sec1_bytes(b).is_ok();
    let (dec, inf) = lc::point_status(b);
    json!({"rc_decodes": rc, "lc_decodes": dec && !inf, "lc_infinity": inf})
}

fn rsa_oracles(b: &[u8], secret: bool) -> Value {
    use rsa::pkcs1::DecodeRsaPrivateKey;
    use rsa::pkcs8::DecodePublicKey;
    use rsa::traits::PublicKeyParts;
    // aws-lc as the independent parser (DER only); PEM is unwrapped by the harness' own reader
    let der: Option<Vec<u8>> = if b.first() == Some(&0x30) { Some(b.to_vec()) } else { pem_body(b) };
    let lc_bits = der.as_ref().and_then(|d| lc_rsa_bits(d, secret));
    let rc_bits = if secret {
        rsa::RsaPrivateKey::from_pkcs1_der(b).ok().or_else(|| std::str::from_utf8(b).ok().and_then(|s| rsa::RsaPrivateKey::from_pkcs1_pem(s).ok())).map(|k| k.n().bits())
    } else {
        rsa::RsaPublicKey::from_public_key_der(b).ok().or_else(|| std::str::from_utf8(b).ok().and_then(|s| rsa::RsaPublicKey::from_public_key_pem(s).ok())).map(|k| k.n().bits())
    };
    json!({"lc_bits": lc_bits.unwrap_or(0), "rc_bits": rc_bits.unwrap_or(0), "is_pem": b.first() != Some(&0x30)})
}

pub fn pem_body(b: &[u8]) -> Option<Vec<u8>> {
    let s = std::str::from_utf8(b).ok()?;
    if !s.starts_with("-----BEGIN ") {
        return None;
    }
    let body: String = s.lines().filter(|l| !l.starts_with("-----")).collect();
    // standard base64 with padding
    let mut out = Vec::new();
    let mut acc = 0u32;
    let mut n = 0;
    for c in body.bytes() {
        let v = match c {
            b'A'..=b'Z' => c - b'A',
            b'a'..=b'z' => c - b'a' + 26,
            b'0'..=b'9' => c - b'0' + 52,
            b'+' => 62,
            b'/' => 63,
            b'=' => break,
            _ => return None,
        };
        acc = (acc << 6) | v as u32;
        n += 1;
        if n == 4 {
            out.extend_from_slice(&[(acc >> 16) as u8, (acc >> 8) as u8, acc as u8]);
            acc = 0;
            n = 0;
        }
    }
    match n {
        2 => out.push((acc >> 4) as u8),
        3 => out.extend_from_slice(&[(acc >> 10) as u8, (acc >> 2) as u8]),
        _ => {}
    }
    Some(out)
}

fn lc_rsa_bits(der: &[u8], secret: bool) -> Option<u64> {
    use aws_lc_sys::*;
    unsafe {
        let rsa = if secret {
            RSA_private_key_from_bytes(der.as_ptr(), der.len())
        } else {
            let mut p = der.as_ptr();
            let pkey = d2i_PUBKEY(std::ptr::null_mut(), &raw mut p, der.len() as _);
            if pkey.is_null() {
                ERR_clear_error();
                return None;
            }
            // trailing bytes after the structure are not part of a key
            if p != der.as_ptr().add(der.len()) {
                EVP_PKEY_free(pkey);
                return None;
            }
            let r = EVP_PKEY_get1_RSA(pkey);
            EVP_PKEY_free(pkey);
            r
        };
        if rsa.is_null() {
            ERR_clear_error();
            return None;
        }
        let bits = RSA_bits(rsa) as u64;
        RSA_free(rsa);
        Some(bits)
    }
}

struct Offer {
    cls: &'static str,
    bytes: Vec<u8>,
}

fn generic_offers(rng: &mut Prng, thorough: bool) -> Vec<Offer> {
    let mut v = Vec::new();
    for len in 0..=128usize {
        v.push(Offer { cls: "random", bytes: rng.bytes(len) });
        v.push(Offer { cls: "zero", bytes: vec![0u8; len] });
        v.push(Offer { cls: "ones", bytes: vec![0xff; len] });
        if thorough {
            v.push(Offer { cls: "random", bytes: rng.bytes(len) });
        }
    }
    v
}

fn mutate(v: &mut Vec<Offer>, cls: &'static str, valid: &[u8], rng: &mut Prng) {
    v.push(Offer { cls, bytes: valid.to_vec() });
    if valid.is_empty() {
        return;
    }
    for _ in 0..6 {
        let mut b = valid.to_vec();
        let i = rng.below(b.len());
        b[i] ^= 1 << rng.below(8);
        v.push(Offer { cls: "valid-bitflip", bytes: b });
    }
    v.push(Offer { cls: "valid-truncated", bytes: valid[..valid.len() - 1].to_vec() });
    let mut b = valid.to_vec();
    b.push(0);
    v.push(Offer { cls: "valid-extended", bytes: b });
    let mut b = vec![0u8];
    b.extend_from_slice(valid);
    v.push(Offer { cls: "valid-prefixed", bytes: b });
}

fn observe<B: Backend, K: KeyType>(rec: &mut Recorder, kind: &str, o: &Offer, extra_checks: &dyn Fn(&Key<B::V, K>) -> Value)
where
    B::V: HasKey<K>,
    <B::V as HasKey<K>>::Key: Clone,
{
    let b = &o.bytes;
    let r = catch_unwind(AssertUnwindSafe(|| key_from_bytes::<B::V, K>(b)));
    let mut j = json!({"fn":"keyparse","be":B::NAME,"ver":B::VER,"kind":kind,"cls":o.cls,"len":b.len(),
        "bytes": if b.len() <= 130 { codes(b) } else { codes(&b[..4]) }});
    j["oracle"] = match (B::VER, kind) {
        (_, "local") => json!({}),
        (3, "public") | (3, "pkepublic") => p384_oracles(b),
        (3, _) => json!({}),
        (1, "public") | (1, "pkepublic") => rsa_oracles(b, false),
        (1, _) => rsa_oracles(b, true),
        (_, "public") | (_, "pkepublic") => {
            let (on, canon) = ed_on_curve(b);
            let strict = b.len() == 32 && libsodium_rs::crypto_core::ed25519::is_valid_point(b).unwrap_or(false);
            json!({"ed_on_curve": on, "ed_canonical": canon, "ed_strict": strict})
        }
        _ => {
            // Ed25519 secret = seed || public key of the seed (computed by the family the backend does not use)
            let fam = crate::eval::fam_against(B::NAME);
            let pk = if b.len() >= 32 { ed_pub_of_seed(fam, &b[..32]) } else { vec![] };
            json!({"pk_of_seed": codes(&pk)})
        }
    };
    match r {
        Err(_) => {
            j["result"] = json!("panic");
            j["ok"] = json!(false);
        }
        Ok(Err(e)) => {
            j["result"] = json!("err");
            j["ok"] = json!(false);
            j["errc"] = json!(errc(&e));
        }
        Ok(Ok(k)) => {
            j["result"] = json!("ok");
            j["ok"] = json!(true);
            let post = catch_unwind(AssertUnwindSafe(|| {
                let enc = key_bytes(&k);
                let again = key_from_bytes::<B::V, K>(&enc).map(|k2| key_bytes(&k2));
                let text = k.expose_key().to_string();
                let from_text: Result<Key<B::V, K>, _> = text.parse();
                let cl = Key::<B::V, K>::clone(&k);
                let mut p = json!({
                    "reenc_equal": enc == *b,
                    "reenc_idempotent": again.as_ref().map(|a| *a == enc).unwrap_or(false),
                    "text_roundtrip": from_text.map(|k3| key_bytes(&k3) == enc).unwrap_or(false),
                    "clone_equal": key_bytes(&cl) == enc,
                    "enc_len": enc.len(),
                });
                let more = extra_checks(&k);
                if let Some(m) = more.as_object() {
                    for (a, b) in m {
                        p[a] = b.clone();
                    }
                }
                p
            }));
            match post {
                Ok(p) => j["post"] = p,
                Err(_) => j["result"] = json!("panic-after-accept"),
            }
        }
    }
    rec.emit(j);
}

fn ed_pub_of_seed(fam: Fam, seed: &[u8]) -> Vec<u8> {
    match fam {
        Fam::Rc => ed25519_dalek::SigningKey::from_bytes(seed.try_into().unwrap()).verifying_key().to_bytes().to_vec(),
        Fam::Native => libsodium_rs::crypto_sign::keypair_from_seed(seed.try_into().unwrap()).unwrap().public_key.as_bytes().to_vec(),
    }
}

fn none<K>(_: &K) -> Value {
    json!({})
}

/// keys the library generates itself survive serialisation like any other: export, parse, export again, and (for key pairs) the
/// public half of the parsed key is the public half of the generated one
fn generated_keys<B: Backend>(rec: &mut Recorder, thorough: bool) {
    fn one<B: Backend, K: paseto_core::key::KeyType>(rec: &mut Recorder, kind: &str, gen_key: impl Fn() -> Result<Key<B::V, K>, paseto_core::PasetoError>, public_of: impl Fn(&Key<B::V, K>) -> Vec<u8>)
    where
        B::V: paseto_core::key::HasKey<K>,
    {
        let r = catch_unwind(AssertUnwindSafe(|| {
            let k = gen_key().map_err(|e| errc(&e))?;
            let enc = key_bytes(&k);
            let back = key_from_bytes::<B::V, K>(&enc).map_err(|e| errc(&e));
            let text: Result<Key<B::V, K>, _> = k.expose_key().to_string().parse();
            Ok::<_, String>((enc.clone(), back.as_ref().map(|b| key_bytes(b) == enc).unwrap_or(false), back.as_ref().map(|b| public_of(b) == public_of(&k)).unwrap_or(false),
                text.map(|t| key_bytes(&t) == enc).unwrap_or(false)))
        }));
        let (result, bytes, reparse, same_public, text) = match r {
            Err(_) => ("panic", vec![], false, false, false),
            Ok(Err(_)) => ("err", vec![], false, false, false),
            Ok(Ok((e, a, b, c))) => ("ok", e, a, b, c),
        };
        rec.emit(json!({"fn":"keygen","be":B::NAME,"ver":B::VER,"kind":kind,"cls":"library-generated","len":bytes.len(),"bytes":bytes,"ok":result == "ok","result":result,
            "reparse_equal":reparse,"same_public":same_public,"text_roundtrip":text}));
    }
    let n = if thorough { 40 } else { 8 };
    for _ in 0..n {
        one::<B, Local>(rec, "local", || LocalKey::<B>::random(), |_| vec![]);
        if B::VER != 1 {
            one::<B, Secret>(rec, "secret", || SecretKey::<B>::random(), |k| key_bytes(&k.public_key()));
        }
    }
    if B::VER == 1 {
        one::<B, Secret>(rec, "secret", || SecretKey::<B>::random(), |k| key_bytes(&k.public_key()));
    }
}

pub fn run_backend<B: Backend>(rec: &mut Recorder, thorough: bool, seed: u64) {
    let mut rng = Prng::new(seed, &format!("c08-{}", B::NAME));
    keytext_relations::<B>(rec, &mut rng);
    generated_keys::<B>(rec, thorough);
    let fam = crate::eval::fam_against(B::NAME);
    let generic = generic_offers(&mut rng, thorough);
    let pairs = keys::signing_pairs::<B>(&mut rng, if thorough { 40 } else { 6 });
    // ---- local
    let mut offers = Vec::new();
    mutate(&mut offers, "valid", &rng.bytes(32), &mut rng);
    // every value of the last byte (32-byte keys are opaque: no byte is whitespace, terminator or padding), and a key followed by
    // whitespace or NUL bytes
    for last in 0..=255u8 {
        let mut k = rng.bytes(32);
        k[31] = last;
        offers.push(Offer { cls: "valid-last-byte", bytes: k });
    }
    for tail in [&b"\n"[..], b" ", b"\r\n", b"\0", b"\t  "] {
        let mut k = rng.bytes(32);
        k.extend_from_slice(tail);
        offers.push(Offer { cls: "key-then-whitespace", bytes: k });
    }
    for o in generic.iter().chain(offers.iter()) {
        observe::<B, Local>(rec, "local", o, &|k| {
            // a local key decrypts what it (and its clone, and its reparse) encrypted
            let kb = key_bytes(k);
            let k2: LocalKey<B> = key_from_bytes(&kb).unwrap();
            let t = UnsealedToken::<B::V, Local, crate::payload::Raw>::new(crate::payload::Raw(b"m".to_vec())).seal(k, &[]).map(|t| t.to_string());
            let ok = t.ok().and_then(|s| s.parse::<paseto_core::tokens::SealedToken<B::V, Local, crate::payload::Raw>>().ok()).and_then(|t| t.unseal(&k2.clone(), &[], &NoValidation::dangerous_no_validation()).ok()).map(|u| u.claims.0 == b"m").unwrap_or(false);
            json!({"use_ok": ok})
        });
    }
    // ---- public
    let mut offers = Vec::new();
    for p in &pairs {
        mutate(&mut offers, "valid", &p.public, &mut rng);
    }
    match B::VER {
        3 => {
            use p384::elliptic_curve::sec1::ToEncodedPoint;
            let pk = p384::PublicKey::from_sec1_bytes(&pairs[0].public).unwrap();
            let un = pk.to_encoded_point(false).as_bytes().to_vec();
            offers.push(Offer { cls: "sec1-uncompressed", bytes: un.clone() });
            for tag in [6u8, 7] {
                let mut h = un.clone();
                h[0] = tag;
                offers.push(Offer { cls: "sec1-hybrid", bytes: h });
            }
            offers.push(Offer { cls: "sec1-infinity", bytes: vec![0] });
            offers.push(Offer { cls: "sec1-infinity-padded", bytes: vec![0u8; 49] });
            for tag in [0u8, 1, 4, 5, 6, 7, 8, 0xff] {
                let mut c = pairs[0].public.clone();
                c[0] = tag;
                offers.push(Offer { cls: "sec1-wrong-tag", bytes: c });
            }
            // compressed encodings whose x is not on the curve / not below the field prime
            let mut found = 0;
            while found < 8 {
                let mut c = vec![2u8 + (found % 2) as u8];
                c.extend(rng.bytes(48));
                if !lc::point_status(&c).0 {
                    offers.push(Offer { cls: "sec1-off-curve", bytes: c });
                    found += 1;
                }
            }
            let mut c = vec![2u8];
            c.extend(vec![0xffu8; 48]);
            offers.push(Offer { cls: "sec1-x-not-reduced", bytes: c });
        }
        2 | 4 => {
            let mut found = 0;
            while found < 12 {
                let c = rng.bytes(32);
                if !ed_on_curve(&c).0 {
                    offers.push(Offer { cls: "ed-off-curve", bytes: c });
                    found += 1;
                }
            }
            // small-order and non-canonical encodings: recorded, either verdict allowed by the specification
            let mut id = vec![0u8; 32];
            id[0] = 1;
            offers.push(Offer { cls: "ed-small-order", bytes: id });
            offers.push(Offer { cls: "ed-small-order", bytes: vec![0u8; 32] });
            let mut m1 = vec![0xffu8; 32];
            m1[0] = 0xec;
            m1[31] = 0x7f;
            offers.push(Offer { cls: "ed-small-order", bytes: m1 });
            let mut nc = vec![0xffu8; 32];
            nc[0] = 0xee;
            nc[31] = 0x7f;
            offers.push(Offer { cls: "ed-non-canonical", bytes: nc });
        }
        _ => {
            for f in ["rsa1024-0", "rsa2048-1", "rsa3072-0", "rsa4096-0", "rsa2047-0", "rsa2041-0", "rsa2049-0", "rsa2055-0", "rsa2040-0", "rsa2048e3-0"] {
                let pem = std::fs::read(format!("{}/fixtures/{f}.pub.pem", env!("CARGO_MANIFEST_DIR"))).unwrap();
                let der = pem_body(&pem).unwrap();
                offers.push(Offer { cls: "rsa-pem", bytes: pem });
                let mut t = der.clone();
                t.push(0);
                offers.push(Offer { cls: "rsa-der-trailing", bytes: t });
                offers.push(Offer { cls: "rsa-der-truncated", bytes: der[..der.len() - 3].to_vec() });
                offers.push(Offer { cls: "rsa-der", bytes: der });
            }
        }
    }
    // the key-sealing public key is decoded by its own code path: byte strings of the right length that are no curve point, and the
    // empty string, are offered to it explicitly (the bulk of the random offers goes to the signing-key role only)
    offers.push(Offer { cls: "empty", bytes: Vec::new() });
    if B::VER == 2 || B::VER == 4 {
        let mut n = 0;
        while n < 24 {
            let c = rng.bytes(32);
            if !ed_on_curve(&c).0 {
                offers.push(Offer { cls: "ed-off-curve", bytes: c });
                n += 1;
            }
        }
        let mut two = vec![0u8; 32];
        two[0] = 2;
        offers.push(Offer { cls: if ed_on_curve(&two).0 { "ed-small" } else { "ed-off-curve" }, bytes: two });
    }
    for o in generic.iter().chain(offers.iter()) {
        observe::<B, Public>(rec, "public", o, &none);
        if o.cls != "random" && o.cls != "zero" && o.cls != "ones" {
            observe::<B, PkePublic>(rec, "pkepublic", o, &none);
        }
    }
    // ---- secret
    let mut offers = Vec::new();
    for p in pairs.iter().take(if thorough { 40 } else { 4 }) {
        mutate(&mut offers, "valid", &p.secret, &mut rng);
    }
    match B::VER {
        3 => {
            let n = keys::P384_N.to_vec();
            let mut one = vec![0u8; 48];
            one[47] = 1;
            let mut small = vec![0u8; 48];
            small[46] = 1; // leading zeros in the encoding
            for (cls, b) in [("scalar-0", vec![0u8; 48]), ("scalar-1", one), ("scalar-small", small), ("scalar-n-1", keys::p384_n_minus(1)), ("scalar-n", n.clone()),
                             ("scalar-n+1", { let mut x = n.clone(); x[47] += 1; x }), ("scalar-max", vec![0xffu8; 48])] {
                offers.push(Offer { cls, bytes: b });
            }
            let mut s47 = vec![0u8; 47];
            s47[46] = 5;
            offers.push(Offer { cls: "scalar-short", bytes: s47 });
            let mut s49 = vec![0u8; 49];
            s49[48] = 5;
            offers.push(Offer { cls: "scalar-long", bytes: s49 });
        }
        2 | 4 => {
            // seed || public key of ANOTHER seed; seed || off-curve bytes; seed only; 64 zero bytes
            let a = &pairs[0].secret;
            let b = &pairs[1].secret;
            let mut mix = a[..32].to_vec();
            mix.extend_from_slice(&b[32..]);
            offers.push(Offer { cls: "ed-mismatched-halves", bytes: mix });
            let mut off = a[..32].to_vec();
            loop {
                let c = rng.bytes(32);
                if !ed_on_curve(&c).0 {
                    off.extend(c);
                    break;
                }
            }
            offers.push(Offer { cls: "ed-public-half-off-curve", bytes: off });
            offers.push(Offer { cls: "ed-seed-only", bytes: a[..32].to_vec() });
            // a valid key with bytes inserted between / before / after its halves: the halves are right, the length is not
            for k in [1usize, 16, 32, 64] {
                let junk = rng.bytes(k);
                let mut mid = a[..32].to_vec();
                mid.extend(&junk);
                mid.extend(&a[32..]);
                offers.push(Offer { cls: "ed-halves-with-inserted-bytes", bytes: mid });
                let mut front = junk.clone();
                front.extend(&a[..]);
                offers.push(Offer { cls: "ed-halves-with-inserted-bytes", bytes: front });
                let mut back = a.to_vec();
                back.extend(&junk);
                offers.push(Offer { cls: "ed-halves-with-inserted-bytes", bytes: back });
            }
            for s in [vec![0u8; 32], vec![0xffu8; 32]] {
                let mut k = s.clone();
                k.extend(ed_pub_of_seed(fam, &s));
                offers.push(Offer { cls: "ed-boundary-seed", bytes: k });
            }
        }
        _ => {
            for f in ["rsa1024-0", "rsa2048-1", "rsa3072-0", "rsa4096-0", "rsa2047-0", "rsa2041-0", "rsa2049-0", "rsa2055-0", "rsa2040-0", "rsa2048e3-0"] {
                let pem = std::fs::read(format!("{}/fixtures/{f}.sec.pem", env!("CARGO_MANIFEST_DIR"))).unwrap();
                let der = pem_body(&pem).unwrap();
                offers.push(Offer { cls: "rsa-pem", bytes: pem });
                offers.push(Offer { cls: "rsa-der-truncated", bytes: der[..der.len() - 3].to_vec() });
                offers.push(Offer { cls: "rsa-der", bytes: der });
            }
        }
    }
    // a valid secret key behind leading zero bytes, or followed by zero bytes (a big-integer reader would not notice)
    for p in pairs.iter().take(2) {
        for pad in [1usize, 16, 80] {
            let mut z = vec![0u8; pad];
            z.extend_from_slice(&p.secret);
            offers.push(Offer { cls: "zero-padded-front", bytes: z });
            let mut t = p.secret.clone();
            t.extend(vec![0u8; pad]);
            offers.push(Offer { cls: "zero-padded-back", bytes: t });
        }
    }
    let sign_check = |k: &Key<B::V, Secret>| -> Value {
        // the derived public key is the public half and verifies what the secret key signs
        let pk = k.public_key();
        let pkb = key_bytes(&pk);
        let skb = key_bytes(k);
        let half_ok = match B::VER {
            2 | 4 => skb.len() == 64 && skb[32..] == pkb[..],
            3 => prim::p384_pub(fam, &skb) == pkb,
            _ => true,
        };
        let t = UnsealedToken::<B::V, Public, crate::payload::Raw>::new(crate::payload::Raw(b"m".to_vec())).seal(k, &[]).map(|t| t.to_string());
        let verified = t.ok().and_then(|s| s.parse::<paseto_core::tokens::SealedToken<B::V, Public, crate::payload::Raw>>().ok()).and_then(|t| t.unseal(&pk, &[], &NoValidation::dangerous_no_validation()).ok()).is_some();
        // and a clone of the key behaves the same: same public key, and what the CLONE signs verifies under the original's public key
        let kc = Key::<B::V, Secret>::clone(k);
        let pk2 = kc.public_key();
        let tc = UnsealedToken::<B::V, Public, crate::payload::Raw>::new(crate::payload::Raw(b"m".to_vec())).seal(&kc, &[]).map(|t| t.to_string());
        let verified_clone = tc.ok().and_then(|s| s.parse::<paseto_core::tokens::SealedToken<B::V, Public, crate::payload::Raw>>().ok()).and_then(|t| t.unseal(&pk, &[], &NoValidation::dangerous_no_validation()).ok()).is_some();
        // a clone of a clone, after the first clone is gone
        let kcc = Key::<B::V, Secret>::clone(&kc);
        drop(kc);
        let tcc = UnsealedToken::<B::V, Public, crate::payload::Raw>::new(crate::payload::Raw(b"m".to_vec())).seal(&kcc, &[]).map(|t| t.to_string());
        let verified_cc = tcc.ok().and_then(|s| s.parse::<paseto_core::tokens::SealedToken<B::V, Public, crate::payload::Raw>>().ok()).and_then(|t| t.unseal(&pk2, &[], &NoValidation::dangerous_no_validation()).ok()).is_some();
        json!({"pub_matches": half_ok && key_bytes(&pk2) == pkb, "sign_verify": verified && verified_clone && verified_cc, "pub_bytes_len": pkb.len()})
    };
    for o in generic.iter().chain(offers.iter()) {
        observe::<B, Secret>(rec, "secret", o, &sign_check);
        if o.cls != "random" && o.cls != "zero" && o.cls != "ones" {
            observe::<B, PkeSecret>(rec, "pkesecret", o, &none);
        }
    }
}

/// KeyText values (any length parses) compare, order and hash as their bytes, whatever the two lengths are
fn keytext_relations<B: Backend>(rec: &mut Recorder, rng: &mut Prng) {
    use paseto_core::paserk::KeyText;
    use std::hash::{Hash, Hasher};
    let lens = [0usize, 1, 31, 32, 33, 64, 300];
    let mut vals: Vec<Vec<u8>> = lens.iter().map(|&l| rng.bytes(l)).collect();
    vals.push(vals[3].clone());
    let mut pre = vals[5].clone();
    pre.truncate(32);
    vals.push(pre);
    let hash = |k: &KeyText<B::V, Local>| {
        let mut h = std::collections::hash_map::DefaultHasher::new();
        k.hash(&mut h);
        h.finish()
    };
    for a in &vals {
        for b in &vals {
            let (ka, kb) = (KeyText::<B::V, Local>::from_raw_bytes(a), KeyText::<B::V, Local>::from_raw_bytes(b));
            let r = catch_unwind(AssertUnwindSafe(|| (ka == kb, ka.cmp(&kb) as i32, hash(&ka) == hash(&kb))));
            let (eq, ord, heq, panic) = match r {
                Ok((e, o, h)) => (e, o, h, false),
                Err(_) => (false, 9, false, true),
            };
            let _ = heq;
            // judged by Obs_Keys (KeyRel): equality, order and hash agreement are those of the two byte strings
            rec.emit(json!({"fn":"keyrel","be":B::NAME,"ver":B::VER,"kind":"local","cls":"keytext-relation","len":a.len(),"bytes":a,"other":b,
                "ok": !panic, "result": if panic {"panic"} else {"ok"}, "eq": eq, "ord": ord, "heq": heq}));
        }
    }
}

pub fn run(rec: &mut Recorder, thorough: bool, seed: u64) {
    for be in ALL {
        crate::with_backend!(be, run_backend(rec, thorough, seed));
    }
}
