//! The six backends behind one trait so that every driver is written once, generically
//! over paseto-core's own traits.
use paseto_core::key::{HasKey, Key};
use paseto_core::paserk::{IdVersion, PieWrapVersion, PkeSealingVersion, PkeUnsealingVersion, PwWrapVersion};
use paseto_core::version::{Local, PkePublic, PkeSecret, Public, SealingVersion, Secret};

pub trait Backend: Send + Sync + 'static {
    /// short name used in traces: v1 v2 v3 v3lc v4 v4na
    const NAME: &'static str;
    /// crate name
    const CRATE: &'static str;
    const VER: u32;
    /// whether its randomness goes through the getrandom-0.3 custom backend
    const GETRANDOM03: bool;
    type V: 'static
        + SealingVersion<Local>
        + SealingVersion<Public>
        + PieWrapVersion
        + PwWrapVersion
        + PkeSealingVersion
        + PkeUnsealingVersion
        + IdVersion
        + HasKey<Local, Key: Clone + Send + Sync>
        + HasKey<Public, Key: Clone + Send + Sync>
        + HasKey<Secret, Key: Clone + Send + Sync>
        + HasKey<PkePublic, Key: Clone + Send + Sync>
        + HasKey<PkeSecret, Key: Clone + Send + Sync>;
}

pub struct V1;
pub struct V2;
pub struct V3;
pub struct V3Lc;
pub struct V4;
pub struct V4Na;

impl Backend for V1 {
    const NAME: &'static str = "v1";
    const CRATE: &'static str = "paseto-v1";
    const VER: u32 = 1;
    const GETRANDOM03: bool = true;
    type V = paseto_v1::core::V1;
}
impl Backend for V2 {
    const NAME: &'static str = "v2";
    const CRATE: &'static str = "paseto-v2";
    const VER: u32 = 2;
    const GETRANDOM03: bool = true;
    type V = paseto_v2::core::V2;
}
impl Backend for V3 {
    const NAME: &'static str = "v3";
    const CRATE: &'static str = "paseto-v3";
    const VER: u32 = 3;
    const GETRANDOM03: bool = true;
    type V = paseto_v3::core::V3;
}
impl Backend for V3Lc {
    const NAME: &'static str = "v3lc";
    const CRATE: &'static str = "paseto-v3-aws-lc";
    const VER: u32 = 3;
    const GETRANDOM03: bool = false;
    type V = paseto_v3_aws_lc::core::V3;
}
impl Backend for V4 {
    const NAME: &'static str = "v4";
    const CRATE: &'static str = "paseto-v4";
    const VER: u32 = 4;
    const GETRANDOM03: bool = true;
    type V = paseto_v4::core::V4;
}
impl Backend for V4Na {
    const NAME: &'static str = "v4na";
    const CRATE: &'static str = "paseto-v4-sodium";
    const VER: u32 = 4;
    const GETRANDOM03: bool = false;
    type V = paseto_v4_sodium::core::V4;
}

pub const ALL: [&str; 6] = ["v1", "v2", "v3", "v3lc", "v4", "v4na"];

/// call `$f::<B>($($args),*)` for the backend named `$name`
#[macro_export]
macro_rules! with_backend {
    ($name:expr, $f:ident ( $($args:expr),* )) => {
        match $name {
            "v1" => $f::<$crate::backends::V1>($($args),*),
            "v2" => $f::<$crate::backends::V2>($($args),*),
            "v3" => $f::<$crate::backends::V3>($($args),*),
            "v3lc" => $f::<$crate::backends::V3Lc>($($args),*),
            "v4" => $f::<$crate::backends::V4>($($args),*),
            "v4na" => $f::<$crate::backends::V4Na>($($args),*),
            other => panic!("unknown backend {other}"),
        }
    };
}

pub type LocalKey<B> = Key<<B as Backend>::V, Local>;
pub type PublicKey<B> = Key<<B as Backend>::V, Public>;
pub type SecretKey<B> = Key<<B as Backend>::V, Secret>;
pub type PkePub<B> = Key<<B as Backend>::V, PkePublic>;
pub type PkeSec<B> = Key<<B as Backend>::V, PkeSecret>;

pub fn key_bytes<V: HasKey<K>, K: paseto_core::key::KeyType>(k: &Key<V, K>) -> Vec<u8> {
    k.expose_key().as_raw_bytes().to_vec()
}

pub fn key_from_bytes<V: HasKey<K>, K: paseto_core::key::KeyType>(b: &[u8]) -> Result<Key<V, K>, paseto_core::PasetoError> {
    paseto_core::paserk::KeyText::<V, K>::from_raw_bytes(b).try_into()
}

/// Keys parsed once per thread and reused (a long-lived key, as a service holds it): state that an earlier call left
/// behind in a key object, a thread-local or a library error queue is then still there for the next call.
pub fn cached_key<V: HasKey<K> + 'static, K: paseto_core::key::KeyType>(b: &[u8]) -> Result<std::rc::Rc<Key<V, K>>, paseto_core::PasetoError> {
    use std::any::{Any, TypeId};
    use std::cell::RefCell;
    use std::collections::HashMap;
    thread_local! {
        static CACHE: RefCell<HashMap<(TypeId, Vec<u8>), std::rc::Rc<dyn Any>>> = RefCell::new(HashMap::new());
    }
    let id = (TypeId::of::<Key<V, K>>(), b.to_vec());
    if let Some(k) = CACHE.with(|c| c.borrow().get(&id).cloned()).and_then(|x| x.downcast::<Key<V, K>>().ok()) {
        return Ok(k);
    }
    let k = std::rc::Rc::new(key_from_bytes::<V, K>(b)?);
    CACHE.with(|c| {
        let mut c = c.borrow_mut();
        if c.len() > 4096 {
            c.clear();
        }
        c.insert(id, k.clone() as std::rc::Rc<dyn Any>);
    });
    Ok(k)
}

pub fn errc(e: &paseto_core::PasetoError) -> &'static str {
    use paseto_core::PasetoError::*;
    match e {
        Base64DecodeError => "format",
        InvalidToken => "format",
        InvalidKey => "key",
        CryptoError => "crypto",
        ClaimsError => "claims",
        PayloadError(_) => "payload",
        _ => "other",
    }
}

pub fn errname(e: &paseto_core::PasetoError) -> &'static str {
    use paseto_core::PasetoError::*;
    match e {
        Base64DecodeError => "Base64DecodeError",
        InvalidToken => "InvalidToken",
        InvalidKey => "InvalidKey",
        CryptoError => "CryptoError",
        ClaimsError => "ClaimsError",
        PayloadError(_) => "PayloadError",
        _ => "Other",
    }
}
