//! Deterministic PRNG (xoshiro256**) seeded from VERIF_SEED; the harness never uses OS
//! randomness for its own choices.
#[derive(Clone)]
pub struct Prng([u64; 4]);

fn splitmix(x: &mut u64) -> u64 {
    *x = x.wrapping_add(0x9E3779B97F4A7C15);
    let mut z = *x;
    z = (z ^ (z >> 30)).wrapping_mul(0xBF58476D1CE4E5B9);
    z = (z ^ (z >> 27)).wrapping_mul(0x94D049BB133111EB);
    z ^ (z >> 31)
}

impl Prng {
    pub fn new(seed: u64, stream: &str) -> Self {
        let mut x = seed;
        for b in stream.bytes() {
            x = x.wrapping_mul(0x100000001b3) ^ (b as u64);
        }
        let mut s = [0u64; 4];
        for v in s.iter_mut() {
            *v = splitmix(&mut x);
        }
        Prng(s)
    }
    pub fn next_u64(&mut self) -> u64 {
        let s = &mut self.0;
        let r = s[1].wrapping_mul(5).rotate_left(7).wrapping_mul(9);
        let t = s[1] << 17;
        s[2] ^= s[0];
        s[3] ^= s[1];
        s[1] ^= s[2];
        s[0] ^= s[3];
        s[2] ^= t;
        s[3] = s[3].rotate_left(45);
        r
    }
    pub fn below(&mut self, n: usize) -> usize {
        if n == 0 { 0 } else { (self.next_u64() % (n as u64)) as usize }
    }
    pub fn bytes(&mut self, n: usize) -> Vec<u8> {
        let mut v = Vec::with_capacity(n);
        while v.len() < n {
            let x = self.next_u64().to_le_bytes();
            let k = (n - v.len()).min(8);
            v.extend_from_slice(&x[..k]);
        }
        v
    }
    pub fn pick<'a, T>(&mut self, xs: &'a [T]) -> &'a T {
        &xs[self.below(xs.len())]
    }
    pub fn chance(&mut self, num: usize, den: usize) -> bool {
        self.below(den) < num
    }
}
