mod b64;
mod backends;
mod obs_b64;
mod obs_pae;
mod payload;
mod prng;
mod rec;
mod rng;

use rec::Recorder;

fn arg(args: &[String], name: &str) -> Option<String> {
    args.iter().position(|a| a == name).and_then(|i| args.get(i + 1).cloned())
}

fn main() {
    let args: Vec<String> = std::env::args().collect();
    let cmd = args.get(1).map(|s| s.as_str()).unwrap_or("");
    let out = arg(&args, "--out").unwrap_or_else(|| "/dev/null".into());
    let thorough = arg(&args, "--tier").as_deref() == Some("thorough");
    let seed: u64 = arg(&args, "--seed").and_then(|s| s.parse().ok()).unwrap_or(0);
    rng::passthrough();
    match cmd {
        "obs-b64" => {
            let mut rec = Recorder::create(&out);
            obs_b64::run(&mut rec, &obs_b64::Cfg { thorough, seed });
            println!("lines={}", rec.finish());
        }
        "obs-pae" => {
            let mut rec = Recorder::create(&out);
            obs_pae::run(&mut rec, thorough, seed);
            println!("lines={}", rec.finish());
        }
        _ => {
            eprintln!("usage: pv-harness <cmd> --out FILE [--tier quick|thorough] [--seed N]");
            std::process::exit(2);
        }
    }
}
