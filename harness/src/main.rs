mod b64;
mod deploy;
mod backends;
mod drive_paserk;
mod drive_tokens;
mod eval;
mod obs_terms;
mod keys;
mod obs_b64;
mod obs_cjson;
mod obs_claims;
mod obs_cross;
mod obs_keys;
mod obs_pae;
mod obs_safety;
mod obs_shared;
mod payload;
mod prng;
mod rec;
mod rng;
mod rsa_faults;

use rec::Recorder;

fn arg(args: &[String], name: &str) -> Option<String> {
    args.iter().position(|a| a == name).and_then(|i| args.get(i + 1).cloned())
}

fn main() {
    let args: Vec<String> = std::env::args().collect();
    let cmd = args.get(1).map(|s| s.as_str()).unwrap_or("");
    let out = arg(&args, "--out").unwrap_or_else(|| "/dev/null".into());
    let thorough = arg(&args, "--tier").as_deref() == Some("thorough");
    let seed: u64 = arg(&args, "--seed").and_then(|s| s.parse().ok()).unwrap_or(0);
    rng::passthrough();
    match cmd {
        "obs-b64" => {
            let mut rec = Recorder::create(&out);
            obs_b64::run(&mut rec, &obs_b64::Cfg { thorough, seed });
            println!("lines={}", rec.finish());
        }
        "obs-pae" => {
            let mut rec = Recorder::create(&out);
            obs_pae::run(&mut rec, thorough, seed);
            println!("lines={}", rec.finish());
        }
        "gen-fixtures" => keys::gen_fixtures(),
        "rsa-faults" => {
            let mut rec = Recorder::create(&out);
            std::panic::set_hook(Box::new(|_| {}));
            match rsa_faults::run(&mut rec, thorough, seed) {
                Ok(v) => println!("{}", serde_json::json!({"lines": rec.finish(), "stats": v})),
                Err(e) => {
                    eprintln!("{e}");
                    std::process::exit(3);
                }
            }
        }
        "feat-material" => {
            let v = obs_cross::feature_material(seed);
            std::fs::write(&out, serde_json::to_vec(&v).unwrap()).unwrap();
            println!("ok");
        }
        "deploy" => {
            let mut rec = Recorder::create(&out);
            std::panic::set_hook(Box::new(|_| {}));
            let backends: Vec<String> = arg(&args, "--backends").map(|b| b.split(',').map(|x| x.to_string()).collect()).unwrap_or_else(|| backends::ALL.iter().map(|x| x.to_string()).collect());
            let v = deploy::run(&mut rec, &arg(&args, "--cases").expect("--cases"), seed, &backends);
            println!("{}", serde_json::json!({"lines": rec.finish(), "stats": v}));
        }
        "obs-shared" => {
            let mut rec = Recorder::create(&out);
            std::panic::set_hook(Box::new(|_| {}));
            let v = obs_shared::run(&mut rec, &arg(&args, "--cases").expect("--cases"), thorough, seed);
            println!("{}", serde_json::json!({"lines": rec.finish(), "backends": v}));
        }
        "obs-safety" => {
            let mut rec = Recorder::create(&out);
            std::panic::set_hook(Box::new(|_| {}));
            let backends: Vec<String> = arg(&args, "--backends").map(|b| b.split(',').map(|x| x.to_string()).collect()).unwrap_or_else(|| backends::ALL.iter().map(|x| x.to_string()).collect());
            let n = obs_safety::run(&mut rec, &arg(&args, "--progress").unwrap_or_else(|| "/dev/null".into()), thorough, seed, &backends);
            println!("{}", serde_json::json!({"lines": rec.finish(), "inputs": n}));
        }
        "obs-cross" => {
            let mut rec = Recorder::create(&out);
            std::panic::set_hook(Box::new(|_| {}));
            let n = obs_cross::run(&mut rec, seed);
            println!("{}", serde_json::json!({"lines": rec.finish(), "parses": n}));
        }
        "obs-keys" => {
            let mut rec = Recorder::create(&out);
            std::panic::set_hook(Box::new(|_| {}));
            obs_keys::run(&mut rec, thorough, seed);
            println!("lines={}", rec.finish());
        }
        "obs-terms" => {
            let mut rec = Recorder::create(&out);
            let kinds: Vec<String> = arg(&args, "--kinds").unwrap_or_else(|| "local,public,pie,pw,pke,keyid".into()).split(',').map(|x| x.to_string()).collect();
            std::panic::set_hook(Box::new(|_| {}));
            let n = obs_terms::run(&mut rec, &arg(&args, "--cases").expect("--cases"), thorough, seed, &kinds, arg(&args, "--vectors").as_deref());
            println!("{}", serde_json::json!({"lines": rec.finish(), "records": n}));
        }
        "obs-cjson" => {
            let mut rec = Recorder::create(&out);
            obs_cjson::run(&mut rec, thorough, seed);
            println!("lines={}", rec.finish());
        }
        "obs-claims" => {
            let mut rec = Recorder::create(&out);
            std::panic::set_hook(Box::new(|_| {}));
            let (n, nu) = obs_claims::run(&mut rec, &arg(&args, "--cases").expect("--cases"), thorough, seed);
            println!("{}", serde_json::json!({"lines": rec.finish(), "direct": n, "through_unseal": nu}));
        }
        "paserk" => {
            let mut rec = Recorder::create(&out);
            let backends: Vec<String> = arg(&args, "--backends").map(|b| b.split(',').map(|x| x.to_string()).collect()).unwrap_or_else(|| backends::ALL.iter().map(|x| x.to_string()).collect());
            let cfg = drive_paserk::Cfg { thorough, seed, mode: arg(&args, "--mode").unwrap_or_else(|| "roundtrip".into()), backends };
            std::panic::set_hook(Box::new(|_| {}));
            let st = drive_paserk::run(&mut rec, &cfg);
            if let Some(t) = arg(&args, "--table") {
                rec.dump_table(&t);
            }
            let distinct = rec.distinct();
            println!("{}", serde_json::json!({"lines": rec.finish(), "wraps": st.wraps, "unwraps": st.unwraps, "pke_seals": st.pke_seals,
                "rsa_c_leading_zero": st.rsa_c_leading_zero, "skipped_over_budget": st.skipped_over_budget, "zero_work_factor_blobs": st.zero_work_factor_blobs, "distinct_byte_strings": distinct}));
        }
        "tokens" => {
            let mut rec = Recorder::create(&out);
            let backends: Vec<String> = arg(&args, "--backends").map(|b| b.split(',').map(|x| x.to_string()).collect()).unwrap_or_else(|| backends::ALL.iter().map(|x| x.to_string()).collect());
            let cfg = drive_tokens::Cfg { thorough, seed, mode: arg(&args, "--mode").unwrap_or_else(|| "roundtrip".into()), backends };
            // panics inside the code under test are data; keep the default hook quiet
            std::panic::set_hook(Box::new(|_| {}));
            let st = drive_tokens::run(&mut rec, &cfg);
            if let Some(t) = arg(&args, "--table") {
                rec.dump_table(&t);
            }
            let distinct = rec.distinct();
            println!("{}", serde_json::json!({"lines": rec.finish(), "seals": st.seals, "presentations": st.presentations,
                "signatures": st.signatures, "leading_zero_sigs": st.leading_zero_sigs, "distinct_byte_strings": distinct}));
        }
        _ => {
            eprintln!("usage: pv-harness <cmd> --out FILE [--tier quick|thorough] [--seed N]");
            std::process::exit(2);
        }
    }
}
