//! C15: observations of paseto_core::pae::pre_auth_encode into a Vec and into a
//! chunk-recording writer (the exact sequence of write() calls a streaming MAC would see).
use crate::prng::Prng;
use crate::rec::{Recorder, codes};
use paseto_core::pae::{WriteBytes, pre_auth_encode};
use serde_json::{Value, json};

struct Chunks(Vec<Vec<u8>>);
impl WriteBytes for Chunks {
    fn write(&mut self, slice: &[u8]) {
        self.0.push(slice.to_vec());
    }
}

fn call<W: WriteBytes>(pieces: &[Vec<Vec<u8>>], out: W) {
    let frs: Vec<Vec<&[u8]>> = pieces.iter().map(|p| p.iter().map(|f| f.as_slice()).collect()).collect();
    let ps: Vec<&[&[u8]]> = frs.iter().map(|p| p.as_slice()).collect();
    macro_rules! n {
        ($($k:literal),*) => {
            match ps.len() {
                $($k => { let a: [&[&[u8]]; $k] = ps.clone().try_into().unwrap(); pre_auth_encode(a, out) })*
                _ => panic!("unsupported piece count"),
            }
        };
    }
    n!(0, 1, 2, 3, 4, 5, 6, 7, 8)
}

pub fn observe(rec: &mut Recorder, pieces: &[Vec<Vec<u8>>]) {
    let mut v = Vec::new();
    call(pieces, &mut v);
    let mut c = Chunks(Vec::new());
    call(pieces, &mut c);
    let pj: Vec<Value> = pieces.iter().map(|p| Value::Array(p.iter().map(|f| codes(f)).collect())).collect();
    let wj: Vec<Value> = c.0.iter().map(|f| codes(f)).collect();
    rec.emit(json!({"fn":"pae","pieces":pj,"out":codes(&v),"writes":wj}));
}

pub fn run(rec: &mut Recorder, thorough: bool, seed: u64) {
    let mut rng = Prng::new(seed, "c15");
    // exhaustive small structure: piece counts 0..8, fragment counts 0..7, tiny contents
    for n in 0..=8usize {
        for nf in 0..=7usize {
            for flen in [0usize, 1, 2] {
                let pieces: Vec<Vec<Vec<u8>>> = (0..n)
                    .map(|i| (0..nf).map(|j| vec![(16 * i + j) as u8; if (i + j) % 2 == 0 { flen } else { 1 }]).collect())
                    .collect();
                observe(rec, &pieces);
            }
        }
    }
    // boundary shifts: the same bytes distributed differently over pieces must encode differently;
    // the spec sees each of them as its own observation
    let data: Vec<u8> = (1..=12).collect();
    for cut1 in 0..=12usize {
        for cut2 in cut1..=12 {
            observe(rec, &[vec![data[..cut1].to_vec()], vec![data[cut1..cut2].to_vec()], vec![data[cut2..].to_vec()]]);
        }
    }
    // every total piece length 0..600 (quick: 0..300 and every 7th above), as one fragment and split in two,
    // placed at a varying position among three pieces
    let mut l = 0usize;
    while l <= 600 {
        let b = rng.bytes(l);
        observe(rec, &[vec![b.clone()]]);
        let cut = rng.below(l + 1);
        let mut pieces = vec![vec![rng.bytes(3)], vec![rng.bytes(5)], vec![rng.bytes(2)]];
        pieces[l % 3] = vec![b[..cut].to_vec(), b[cut..].to_vec()];
        observe(rec, &pieces);
        l += if thorough || l < 300 { 1 } else { 7 };
    }
    // fragmentations of one fixed piece list (fragment-invariance)
    let lens = [0usize, 1, 7, 8, 255, 256, 600];
    let reps = if thorough { 600 } else { 120 };
    for r in 0..reps {
        let n = if r < 9 { r } else { rng.below(9) };
        let pieces: Vec<Vec<Vec<u8>>> = (0..n)
            .map(|_| {
                let nf = rng.below(9);
                (0..nf)
                    .map(|_| {
                        let l = if rng.chance(2, 3) { *rng.pick(&lens[..5]) } else if rng.chance(1, 2) { *rng.pick(&lens) } else { rng.below(40) };
                        rng.bytes(l)
                    })
                    .collect()
            })
            .collect();
        observe(rec, &pieces);
        // the flattened variant of the same list
        let flat: Vec<Vec<Vec<u8>>> = pieces.iter().map(|p| vec![p.concat()]).collect();
        observe(rec, &flat);
    }
}
