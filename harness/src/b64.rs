//! The harness' own unpadded base64url codec.  It is used to *build* inputs (token strings
//! from tampered bytes) and to cut fields out of outputs; its meaning is checked against
//! Base64Url.tla by the same observation files as the implementation's (fn = "h_enc"/"h_dec").
const A: &[u8; 64] = b"ABCDEFGHIJKLMNOPQRSTUVWXYZabcdefghijklmnopqrstuvwxyz0123456789-_";

pub fn enc(b: &[u8]) -> String {
    let mut s = String::with_capacity(b.len() * 4 / 3 + 3);
    for c in b.chunks(3) {
        let b0 = c[0] as u32;
        let b1 = *c.get(1).unwrap_or(&0) as u32;
        let b2 = *c.get(2).unwrap_or(&0) as u32;
        let n = (b0 << 16) | (b1 << 8) | b2;
        s.push(A[(n >> 18) as usize & 63] as char);
        s.push(A[(n >> 12) as usize & 63] as char);
        if c.len() > 1 {
            s.push(A[(n >> 6) as usize & 63] as char);
        }
        if c.len() > 2 {
            s.push(A[n as usize & 63] as char);
        }
    }
    s
}

fn val(c: u8) -> Option<u32> {
    A.iter().position(|&x| x == c).map(|p| p as u32)
}

/// strict canonical decoder
pub fn dec(s: &str) -> Option<Vec<u8>> {
    let s = s.as_bytes();
    if s.len() % 4 == 1 {
        return None;
    }
    let mut out = Vec::with_capacity(s.len() * 3 / 4);
    for c in s.chunks(4) {
        let mut n = 0u32;
        for i in 0..4 {
            n = (n << 6) | if i < c.len() { val(c[i])? } else { 0 };
        }
        out.push((n >> 16) as u8);
        if c.len() > 2 {
            out.push((n >> 8) as u8);
        } else if (n >> 8) & 0xff != 0 || n & 0xff != 0 {
            return None;
        }
        if c.len() > 3 {
            out.push(n as u8);
        } else if n & 0xff != 0 {
            return None;
        }
    }
    Some(out)
}
