//! Term evaluator for the L1 constructions printed by spec/gen/Gen_Terms.tla.
//!
//! It knows no PASETO: no PAE, no layout, no labels, no header strings.  Every node of a term is one
//! call of a primitive.  Two primitive families exist and a backend is always checked against the
//! family it does NOT use itself:
//!   Rc     RustCrypto crates (sha2, hmac, hkdf, pbkdf2, aes, blake2, chacha20, chacha20poly1305,
//!          argon2, curve25519-dalek, ed25519-dalek, p384, rsa)
//!   Native aws-lc (aws-lc-rs / aws-lc-sys) and libsodium (libsodium-rs)
use serde_json::Value;
use std::collections::HashMap;

#[derive(Clone, Copy, PartialEq, Eq, Debug)]
pub enum Fam {
    Rc,
    Native,
}

/// the family to use against a backend
pub fn fam_against(backend: &str) -> Fam {
    match backend {
        "v3lc" | "v4na" => Fam::Rc,
        _ => Fam::Native,
    }
}

pub struct Env<'a> {
    pub fam: Fam,
    pub inputs: &'a HashMap<String, Vec<u8>>,
}

fn bytes_of(v: &Value) -> Vec<u8> {
    v.as_array().expect("byte array").iter().map(|x| x.as_u64().unwrap() as u8).collect()
}

pub fn eval(t: &Value, env: &Env) -> Vec<u8> {
    let op = t["op"].as_str().unwrap_or_else(|| panic!("term without op: {t}"));
    let sub = |k: &str| eval(&t[k], env);
    let num = |k: &str| t[k].as_u64().unwrap_or_else(|| panic!("term field {k} missing in {op}")) as usize;
    match op {
        "b" => bytes_of(&t["v"]),
        "in" => {
            let name = t["name"].as_str().unwrap();
            let v = env.inputs.get(name).unwrap_or_else(|| panic!("input {name} not supplied")).clone();
            let want = num("len");
            // inputs whose length does not enter the layout are declared with length 0
            assert!(want == 0 || v.len() == want, "input {name} has length {} but the term declares {want}", v.len());
            v
        }
        "cat" => t["xs"].as_array().unwrap().iter().flat_map(|x| eval(x, env)).collect(),
        "slice" => sub("x")[num("from")..num("to")].to_vec(),
        "xor" => {
            let (a, b) = (sub("a"), sub("b"));
            assert_eq!(a.len(), b.len(), "xor of unequal lengths");
            a.iter().zip(b.iter()).map(|(x, y)| x ^ y).collect()
        }
        "inc128" => inc128(&sub("x"), num("j") as u64),
        "b64" => crate::b64::enc(&sub("x")).into_bytes(),
        "sha384" => prim::sha384(env.fam, &sub("data")),
        "hmac384" => prim::hmac384(env.fam, &sub("key"), &sub("data")),
        "hkdf384" => prim::hkdf384(env.fam, &sub("ikm"), &sub("salt"), &sub("info"), num("len")),
        "pbkdf2_sha384" => prim::pbkdf2(env.fam, &sub("pw"), &sub("salt"), num("iter") as u32, num("len")),
        "blake2b" => prim::blake2b(env.fam, &sub("key"), &sub("data"), num("len")),
        "argon2id" => prim::argon2id(env.fam, &sub("pw"), &sub("salt"), num("mem_kib") as u32, num("time") as u32, num("para") as u32, num("len")),
        "aes256_block" => prim::aes256_block(env.fam, &sub("key"), &sub("block")),
        "xchacha20_xor" => prim::xchacha20_xor(env.fam, &sub("key"), &sub("nonce"), &sub("data")),
        "xchacha20poly1305" => prim::xchacha20poly1305(env.fam, &sub("key"), &sub("nonce"), &sub("aad"), &sub("pt")),
        "x25519" => prim::x25519(env.fam, &sub("sk"), &sub("pk")),
        "x25519_base" => prim::x25519_base(env.fam, &sub("sk")),
        "ed25519_pk_to_x25519" => prim::ed_pk_to_x(env.fam, &sub("pk")),
        "ed25519_sk_to_x25519" => prim::ed_sk_to_x(env.fam, &sub("sk")),
        "p384_ecdh" => prim::p384_ecdh(env.fam, &sub("sk"), &sub("pk")),
        "p384_pub_compressed" => prim::p384_pub(env.fam, &sub("sk")),
        "rsa_dp" => prim::rsa_dp(env.fam, &sub("sk"), &sub("c"), num("len")),
        "rsa_ep" => prim::rsa_ep(env.fam, &sub("pk"), &sub("m"), num("len")),
        other => panic!("unknown term op {other}"),
    }
}

/// Ctr.tla Inc128: (x + j) mod 2^128, big-endian.  Validated against TLC-computed tables (fn = "inc128").
pub fn inc128(x: &[u8], j: u64) -> Vec<u8> {
    let mut out = x.to_vec();
    let mut carry = j as u128;
    for b in out.iter_mut().rev() {
        let s = *b as u128 + (carry & 0xff);
        *b = s as u8;
        carry = (carry >> 8) + (s >> 8);
    }
    out
}

pub mod prim {
    use super::Fam;

    pub fn sha384(f: Fam, d: &[u8]) -> Vec<u8> {
        match f {
            Fam::Rc => {
                use sha2::Digest;
                sha2::Sha384::digest(d).to_vec()
            }
            Fam::Native => aws_lc_rs::digest::digest(&aws_lc_rs::digest::SHA384, d).as_ref().to_vec(),
        }
    }

    pub fn hmac384(f: Fam, k: &[u8], d: &[u8]) -> Vec<u8> {
        match f {
            Fam::Rc => {
                use hmac::Mac;
                let mut m = hmac::Hmac::<sha2::Sha384>::new_from_slice(k).unwrap();
                m.update(d);
                m.finalize().into_bytes().to_vec()
            }
            Fam::Native => {
                let key = aws_lc_rs::hmac::Key::new(aws_lc_rs::hmac::HMAC_SHA384, k);
                aws_lc_rs::hmac::sign(&key, d).as_ref().to_vec()
            }
        }
    }

    pub fn hkdf384(f: Fam, ikm: &[u8], salt: &[u8], info: &[u8], len: usize) -> Vec<u8> {
        match f {
            Fam::Rc => {
                let mut out = vec![0u8; len];
                hkdf::Hkdf::<sha2::Sha384>::new(if salt.is_empty() { None } else { Some(salt) }, ikm).expand(info, &mut out).unwrap();
                out
            }
            Fam::Native => {
                struct L(usize);
                impl aws_lc_rs::hkdf::KeyType for L {
                    fn len(&self) -> usize {
                        self.0
                    }
                }
                let prk = aws_lc_rs::hkdf::Salt::new(aws_lc_rs::hkdf::HKDF_SHA384, salt).extract(ikm);
                let infos = [info];
                let okm = prk.expand(&infos, L(len)).unwrap();
                let mut out = vec![0u8; len];
                okm.fill(&mut out).unwrap();
                out
            }
        }
    }

    pub fn pbkdf2(f: Fam, pw: &[u8], salt: &[u8], iter: u32, len: usize) -> Vec<u8> {
        let mut out = vec![0u8; len];
        match f {
            Fam::Rc => pbkdf2::pbkdf2_hmac::<sha2::Sha384>(pw, salt, iter, &mut out),
            Fam::Native => aws_lc_rs::pbkdf2::derive(aws_lc_rs::pbkdf2::PBKDF2_HMAC_SHA384, std::num::NonZeroU32::new(iter).unwrap(), salt, pw, &mut out),
        }
        out
    }

    pub fn blake2b(f: Fam, key: &[u8], d: &[u8], len: usize) -> Vec<u8> {
        match f {
            Fam::Rc => {
                use blake2::digest::{Update, VariableOutput};
                if key.is_empty() {
                    let mut h = blake2::Blake2bVar::new(len).unwrap();
                    h.update(d);
                    let mut out = vec![0u8; len];
                    h.finalize_variable(&mut out).unwrap();
                    out
                } else {
                    use blake2::digest::Mac;
                    use generic_array::typenum::{U24, U32, U33, U56, U64};
                    macro_rules! mac {
                        ($n:ty) => {{
                            let mut m = blake2::Blake2bMac::<$n>::new_from_slice(key).unwrap();
                            Mac::update(&mut m, d);
                            m.finalize().into_bytes().to_vec()
                        }};
                    }
                    match len {
                        24 => mac!(U24),
                        32 => mac!(U32),
                        33 => mac!(U33),
                        56 => mac!(U56),
                        64 => mac!(U64),
                        _ => panic!("keyed blake2b output length {len} not supported by the evaluator"),
                    }
                }
            }
            Fam::Native => {
                let mut st = libsodium_rs::crypto_generichash::State::new(if key.is_empty() { None } else { Some(key) }, len).unwrap();
                st.update(d);
                st.finalize()
            }
        }
    }

    pub fn argon2id(f: Fam, pw: &[u8], salt: &[u8], mem_kib: u32, time: u32, para: u32, len: usize) -> Vec<u8> {
        match f {
            Fam::Rc => {
                let p = argon2::Params::new(mem_kib, time, para, Some(len)).unwrap();
                let a = argon2::Argon2::new(argon2::Algorithm::Argon2id, argon2::Version::V0x13, p);
                let mut out = vec![0u8; len];
                a.hash_password_into(pw, salt, &mut out).unwrap();
                out
            }
            Fam::Native => {
                assert_eq!(para, 1, "libsodium supports parallelism 1 only");
                libsodium_rs::crypto_pwhash::pwhash(len, pw, salt, time as u64, mem_kib as usize * 1024, libsodium_rs::crypto_pwhash::ALG_ARGON2ID13).unwrap()
            }
        }
    }

    pub fn aes256_block(f: Fam, key: &[u8], block: &[u8]) -> Vec<u8> {
        assert_eq!(block.len(), 16);
        match f {
            Fam::Rc => {
                use aes::cipher::{BlockEncrypt, KeyInit};
                let c = aes::Aes256::new_from_slice(key).unwrap();
                let mut b = *generic_array::GenericArray::from_slice(block);
                c.encrypt_block(&mut b);
                b.to_vec()
            }
            Fam::Native => unsafe {
                let mut k = std::mem::MaybeUninit::<aws_lc_sys::AES_KEY>::zeroed();
                assert_eq!(aws_lc_sys::AES_set_encrypt_key(key.as_ptr(), 256, k.as_mut_ptr()), 0);
                let mut out = [0u8; 16];
                aws_lc_sys::AES_encrypt(block.as_ptr(), out.as_mut_ptr(), k.as_ptr());
                out.to_vec()
            },
        }
    }

    pub fn xchacha20_xor(f: Fam, key: &[u8], nonce: &[u8], d: &[u8]) -> Vec<u8> {
        match f {
            Fam::Rc => {
                use chacha20::cipher::{KeyIvInit, StreamCipher};
                let mut c = chacha20::XChaCha20::new(key.into(), nonce.into());
                let mut out = d.to_vec();
                c.apply_keystream(&mut out);
                out
            }
            Fam::Native => {
                use libsodium_rs::crypto_stream::{self, xchacha20};
                let k = crypto_stream::Key::from_slice(key).unwrap();
                let n = xchacha20::Nonce::try_from_slice(nonce).unwrap();
                xchacha20::stream_xor(d, &n, &k).unwrap()
            }
        }
    }

    pub fn xchacha20poly1305(f: Fam, key: &[u8], nonce: &[u8], aad: &[u8], pt: &[u8]) -> Vec<u8> {
        match f {
            Fam::Rc => {
                use chacha20poly1305::aead::{Aead, KeyInit, Payload};
                let c = chacha20poly1305::XChaCha20Poly1305::new(key.into());
                c.encrypt(nonce.into(), Payload { msg: pt, aad }).unwrap()
            }
            Fam::Native => {
                use libsodium_rs::crypto_aead::xchacha20poly1305 as x;
                let k = x::Key::from_bytes(key).unwrap();
                let n = x::Nonce::try_from_slice(nonce).unwrap();
                x::encrypt(pt, Some(aad), &n, &k).unwrap()
            }
        }
    }

    pub fn x25519(f: Fam, sk: &[u8], pk: &[u8]) -> Vec<u8> {
        match f {
            Fam::Rc => {
                let p = curve25519_dalek::montgomery::MontgomeryPoint(pk.try_into().unwrap());
                p.mul_clamped(sk.try_into().unwrap()).to_bytes().to_vec()
            }
            Fam::Native => libsodium_rs::crypto_scalarmult::curve25519::scalarmult(sk, pk).map(|x| x.to_vec()).unwrap_or_else(|_| vec![0u8; 32]),
        }
    }

    pub fn x25519_base(f: Fam, sk: &[u8]) -> Vec<u8> {
        match f {
            Fam::Rc => curve25519_dalek::montgomery::MontgomeryPoint::mul_base_clamped(sk.try_into().unwrap()).to_bytes().to_vec(),
            Fam::Native => libsodium_rs::crypto_scalarmult::curve25519::scalarmult_base(sk).unwrap().to_vec(),
        }
    }

    pub fn ed_pk_to_x(f: Fam, pk: &[u8]) -> Vec<u8> {
        match f {
            Fam::Rc => curve25519_dalek::edwards::CompressedEdwardsY(pk.try_into().unwrap()).decompress().expect("valid ed25519 point").to_montgomery().to_bytes().to_vec(),
            Fam::Native => {
                let p = libsodium_rs::crypto_sign::PublicKey::from_bytes(pk).unwrap();
                libsodium_rs::crypto_sign::ed25519_pk_to_curve25519(&p).unwrap().to_vec()
            }
        }
    }

    /// seed (32 bytes) -> X25519 secret scalar bytes (SHA-512(seed)[0..32], clamped by the X25519 function itself)
    pub fn ed_sk_to_x(f: Fam, seed: &[u8]) -> Vec<u8> {
        match f {
            Fam::Rc => {
                use sha2::Digest;
                let h = sha2::Sha512::digest(seed);
                curve25519_dalek::scalar::clamp_integer(h[..32].try_into().unwrap()).to_vec()
            }
            Fam::Native => {
                let kp = libsodium_rs::crypto_sign::keypair_from_seed(seed.try_into().unwrap()).unwrap();
                libsodium_rs::crypto_sign::ed25519_sk_to_curve25519(&kp.secret_key).unwrap().to_vec()
            }
        }
    }

    pub fn p384_ecdh(f: Fam, sk: &[u8], pk: &[u8]) -> Vec<u8> {
        match f {
            Fam::Rc => {
                let s = p384::SecretKey::from_slice(sk).unwrap();
                let p = p384::PublicKey::from_sec1_bytes(pk).unwrap();
                p384::ecdh::diffie_hellman(s.to_nonzero_scalar(), p.as_affine()).raw_secret_bytes().to_vec()
            }
            Fam::Native => super::lc::ecdh(sk, pk),
        }
    }

    pub fn p384_pub(f: Fam, sk: &[u8]) -> Vec<u8> {
        match f {
            Fam::Rc => {
                use p384::elliptic_curve::sec1::ToEncodedPoint;
                p384::SecretKey::from_slice(sk).unwrap().public_key().to_encoded_point(true).as_bytes().to_vec()
            }
            Fam::Native => super::lc::pubkey(sk),
        }
    }

    fn fixed(mut v: Vec<u8>, len: usize) -> Vec<u8> {
        while v.len() < len {
            v.insert(0, 0);
        }
        v
    }

    /// raw RSA private operation; sk is PKCS#1 DER
    pub fn rsa_dp(f: Fam, sk_der: &[u8], c: &[u8], len: usize) -> Vec<u8> {
        match f {
            Fam::Rc => {
                use rsa::pkcs1::DecodeRsaPrivateKey;
                let k = rsa::RsaPrivateKey::from_pkcs1_der(sk_der).unwrap();
                let m = rsa::hazmat::rsa_decrypt_and_check::<rsa::rand_core::OsRng>(&k, None, &rsa::BigUint::from_bytes_be(c)).unwrap();
                fixed(m.to_bytes_be(), len)
            }
            Fam::Native => super::lc::rsa_raw(sk_der, c, len, true),
        }
    }

    /// raw RSA public operation; pk is SubjectPublicKeyInfo DER
    pub fn rsa_ep(f: Fam, pk_der: &[u8], m: &[u8], len: usize) -> Vec<u8> {
        match f {
            Fam::Rc => {
                use rsa::pkcs8::DecodePublicKey;
                let k = rsa::RsaPublicKey::from_public_key_der(pk_der).unwrap();
                fixed(rsa::hazmat::rsa_encrypt(&k, &rsa::BigUint::from_bytes_be(m)).unwrap().to_bytes_be(), len)
            }
            Fam::Native => super::lc::rsa_raw(pk_der, m, len, false),
        }
    }

    // ---- signatures (used by the public-token cases; not term nodes) ------------------------------
    pub fn ed25519_sign(f: Fam, seed: &[u8], msg: &[u8]) -> Vec<u8> {
        match f {
            Fam::Rc => {
                use ed25519_dalek::Signer;
                ed25519_dalek::SigningKey::from_bytes(seed.try_into().unwrap()).sign(msg).to_bytes().to_vec()
            }
            Fam::Native => {
                let kp = libsodium_rs::crypto_sign::keypair_from_seed(seed.try_into().unwrap()).unwrap();
                libsodium_rs::crypto_sign::sign_detached(msg, &kp.secret_key).unwrap().to_vec()
            }
        }
    }

    pub fn ed25519_verify(f: Fam, pk: &[u8], msg: &[u8], sig: &[u8]) -> bool {
        if sig.len() != 64 {
            return false;
        }
        match f {
            Fam::Rc => {
                use ed25519_dalek::Verifier;
                let Ok(k) = ed25519_dalek::VerifyingKey::from_bytes(pk.try_into().unwrap()) else { return false };
                k.verify(msg, &ed25519_dalek::Signature::from_bytes(sig.try_into().unwrap())).is_ok()
            }
            Fam::Native => {
                let Ok(p) = libsodium_rs::crypto_sign::PublicKey::from_bytes(pk) else { return false };
                libsodium_rs::crypto_sign::verify_detached(sig.try_into().unwrap(), msg, &p)
            }
        }
    }

    /// ECDSA P-384 with SHA-384 over msg; sig = r || s, 48 bytes each
    pub fn ecdsa_p384_verify(f: Fam, pk: &[u8], msg: &[u8], sig: &[u8]) -> bool {
        if sig.len() != 96 {
            return false;
        }
        match f {
            Fam::Rc => {
                use p384::ecdsa::signature::Verifier;
                let Ok(k) = p384::ecdsa::VerifyingKey::from_sec1_bytes(pk) else { return false };
                let Ok(s) = p384::ecdsa::Signature::from_slice(sig) else { return false };
                k.verify(msg, &s).is_ok()
            }
            Fam::Native => super::lc::ecdsa_verify(pk, &sha384(Fam::Native, msg), sig),
        }
    }

    pub fn ecdsa_p384_sign(f: Fam, sk: &[u8], msg: &[u8]) -> Vec<u8> {
        match f {
            Fam::Rc => {
                use p384::ecdsa::signature::Signer;
                let k = p384::ecdsa::SigningKey::from_slice(sk).unwrap();
                let s: p384::ecdsa::Signature = k.sign(msg);
                s.to_bytes().to_vec()
            }
            Fam::Native => super::lc::ecdsa_sign(sk, &sha384(Fam::Native, msg)),
        }
    }

    /// RSASSA-PSS, SHA-384, MGF1-SHA-384, salt length 48; pk is SubjectPublicKeyInfo DER
    pub fn rsa_pss_verify(f: Fam, pk_der: &[u8], msg: &[u8], sig: &[u8]) -> bool {
        match f {
            Fam::Rc => {
                use rsa::pkcs8::DecodePublicKey;
                use rsa::signature::Verifier;
                let Ok(k) = rsa::RsaPublicKey::from_public_key_der(pk_der) else { return false };
                let vk = rsa::pss::VerifyingKey::<sha2::Sha384>::new(k);
                let Ok(s) = rsa::pss::Signature::try_from(sig) else { return false };
                vk.verify(msg, &s).is_ok()
            }
            Fam::Native => {
                // aws-lc-rs wants the RSAPublicKey (PKCS#1) structure: re-wrap the SPKI with the rsa crate's DER codec
                // (format conversion only; the signature check is aws-lc's)
                use rsa::pkcs1::EncodeRsaPublicKey;
                use rsa::pkcs8::DecodePublicKey;
                let Ok(k) = rsa::RsaPublicKey::from_public_key_der(pk_der) else { return false };
                let pkcs1 = k.to_pkcs1_der().unwrap();
                let upk = aws_lc_rs::signature::UnparsedPublicKey::new(&aws_lc_rs::signature::RSA_PSS_2048_8192_SHA384, pkcs1.as_bytes());
                upk.verify(msg, sig).is_ok()
            }
        }
    }

    pub fn rsa_pss_sign(f: Fam, sk_der: &[u8], msg: &[u8]) -> Vec<u8> {
        match f {
            Fam::Rc => {
                use rsa::pkcs1::DecodeRsaPrivateKey;
                use rsa::signature::{RandomizedSigner, SignatureEncoding};
                let k = rsa::RsaPrivateKey::from_pkcs1_der(sk_der).unwrap();
                let sk = rsa::pss::SigningKey::<sha2::Sha384>::new(k);
                sk.sign_with_rng(&mut rsa::rand_core::OsRng, msg).to_vec()
            }
            Fam::Native => {
                let kp = aws_lc_rs::rsa::KeyPair::from_der(sk_der).unwrap();
                let mut sig = vec![0u8; kp.public_modulus_len()];
                kp.sign(&aws_lc_rs::signature::RSA_PSS_SHA384, &aws_lc_rs::rand::SystemRandom::new(), msg, &mut sig).unwrap();
                sig
            }
        }
    }
}

/// thin wrappers over aws-lc-sys for the primitives aws-lc-rs does not expose in the needed form
pub mod lc {
    use aws_lc_sys::*;
    use std::ptr::{null, null_mut};

    unsafe fn key_from_scalar(sk: &[u8]) -> *mut EC_KEY {
        unsafe {
            let g = EC_group_p384();
            let bn = BN_bin2bn(sk.as_ptr(), sk.len(), null_mut());
            let p = EC_POINT_new(g);
            assert_eq!(EC_POINT_mul(g, p, bn, null(), null(), null_mut()), 1);
            let k = EC_KEY_new();
            assert_eq!(EC_KEY_set_group(k, g), 1);
            assert_eq!(EC_KEY_set_private_key(k, bn), 1);
            assert_eq!(EC_KEY_set_public_key(k, p), 1);
            EC_POINT_free(p);
            BN_free(bn);
            k
        }
    }

    unsafe fn point_from_bytes(pk: &[u8]) -> *mut EC_POINT {
        unsafe {
            let g = EC_group_p384();
            let p = EC_POINT_new(g);
            if EC_POINT_oct2point(g, p, pk.as_ptr(), pk.len(), null_mut()) != 1 {
                EC_POINT_free(p);
                return null_mut();
            }
            p
        }
    }

    pub fn ecdh(sk: &[u8], pk: &[u8]) -> Vec<u8> {
        unsafe {
            let k = key_from_scalar(sk);
            let p = point_from_bytes(pk);
            assert!(!p.is_null(), "peer point does not decode");
            let mut out = [0u8; 48];
            let n = ECDH_compute_key(out.as_mut_ptr().cast(), 48, p, k, None);
            EC_POINT_free(p);
            EC_KEY_free(k);
            assert_eq!(n, 48);
            out.to_vec()
        }
    }

    pub fn pubkey(sk: &[u8]) -> Vec<u8> {
        unsafe {
            let k = key_from_scalar(sk);
            let mut out = [0u8; 49];
            let n = EC_POINT_point2oct(EC_group_p384(), EC_KEY_get0_public_key(k), point_conversion_form_t::POINT_CONVERSION_COMPRESSED, out.as_mut_ptr(), 49, null_mut());
            EC_KEY_free(k);
            assert_eq!(n, 49);
            out.to_vec()
        }
    }

    /// does this SEC1 string decode to a point on P-384 (independent of the p384 crate)?  Returns (decodes, is_infinity)
    pub fn point_status(pk: &[u8]) -> (bool, bool) {
        unsafe {
            let p = point_from_bytes(pk);
            if p.is_null() {
                return (false, false);
            }
            let inf = EC_POINT_is_at_infinity(EC_group_p384(), p) == 1;
            EC_POINT_free(p);
            (true, inf)
        }
    }

    pub fn ecdsa_verify(pk: &[u8], digest: &[u8], sig: &[u8]) -> bool {
        unsafe {
            let p = point_from_bytes(pk);
            if p.is_null() {
                return false;
            }
            let k = EC_KEY_new();
            EC_KEY_set_group(k, EC_group_p384());
            let okk = EC_KEY_set_public_key(k, p) == 1;
            EC_POINT_free(p);
            if !okk {
                EC_KEY_free(k);
                return false;
            }
            let s = ECDSA_SIG_new();
            let r = BN_bin2bn(sig.as_ptr(), 48, null_mut());
            let ss = BN_bin2bn(sig[48..].as_ptr(), 48, null_mut());
            ECDSA_SIG_set0(s, r, ss);
            let ok = ECDSA_do_verify(digest.as_ptr(), digest.len(), s, k) == 1;
            ECDSA_SIG_free(s);
            EC_KEY_free(k);
            ok
        }
    }

    pub fn ecdsa_sign(sk: &[u8], digest: &[u8]) -> Vec<u8> {
        unsafe {
            let k = key_from_scalar(sk);
            let s = ECDSA_do_sign(digest.as_ptr(), digest.len(), k);
            assert!(!s.is_null());
            let mut r = null();
            let mut ss = null();
            ECDSA_SIG_get0(s, &raw mut r, &raw mut ss);
            let mut out = vec![0u8; 96];
            assert_eq!(BN_bn2bin_padded(out.as_mut_ptr(), 48, r), 1);
            assert_eq!(BN_bn2bin_padded(out.as_mut_ptr().add(48), 48, ss), 1);
            ECDSA_SIG_free(s);
            EC_KEY_free(k);
            out
        }
    }

    /// raw (no padding) RSA with aws-lc; private: PKCS#1 DER, public: SubjectPublicKeyInfo DER
    pub fn rsa_raw(der: &[u8], input: &[u8], len: usize, private: bool) -> Vec<u8> {
        unsafe {
            let rsa = if private {
                RSA_private_key_from_bytes(der.as_ptr(), der.len())
            } else {
                let mut p = der.as_ptr();
                let pkey = d2i_PUBKEY(null_mut(), &raw mut p, der.len() as _);
                assert!(!pkey.is_null(), "SPKI does not parse");
                let r = EVP_PKEY_get1_RSA(pkey);
                EVP_PKEY_free(pkey);
                r
            };
            assert!(!rsa.is_null(), "RSA key does not parse");
            let n = RSA_size(rsa) as usize;
            // the input is interpreted at the modulus width
            let mut inp = vec![0u8; n.saturating_sub(input.len())];
            inp.extend_from_slice(input);
            let mut out = vec![0u8; n];
            let mut out_len = 0usize;
            let ok = if private {
                RSA_decrypt(rsa, &raw mut out_len, out.as_mut_ptr(), n, inp.as_ptr(), inp.len(), RSA_NO_PADDING)
            } else {
                RSA_encrypt(rsa, &raw mut out_len, out.as_mut_ptr(), n, inp.as_ptr(), inp.len(), RSA_NO_PADDING)
            };
            RSA_free(rsa);
            assert_eq!(ok, 1, "raw RSA operation failed");
            out.truncate(out_len);
            while out.len() < len {
                out.insert(0, 0);
            }
            out
        }
    }
}
