//! PASERK drivers for C05 / C06 (and the wrap part of C16): PIE wrap, password wrap, key sealing.
use crate::backends::*;
use crate::payload::*;
use crate::prng::Prng;
use crate::rec::Recorder;
use crate::{keys, rng};
use paseto_core::key::{HasKey, Key, SealingKey};
use paseto_core::paserk::{PasswordWrappedKey, PieWrappedKey, PwWrapVersion, SealedKey};
use paseto_core::version::{Local, Secret, Version};
use serde_json::{Value, json};
use std::panic::{AssertUnwindSafe, catch_unwind};
use std::str::FromStr;

pub struct Cfg {
    pub thorough: bool,
    pub seed: u64,
    pub mode: String, // roundtrip | tamper | faults
    pub backends: Vec<String>,
}

#[derive(Default)]
pub struct Stats {
    pub wraps: u64,
    pub unwraps: u64,
    pub pke_seals: u64,
    pub rsa_c_leading_zero: u64,
    pub skipped_over_budget: u64,
    pub zero_work_factor_blobs: u64,
}

fn ktype<K: SealingKey>() -> &'static str {
    if K::HEADER == ".local." { "local" } else { "secret" }
}

fn emit_draws(rec: &mut Recorder) {
    for e in spy_take() {
        if let Spy::Draw { len, ok, val } = e {
            let v = rec.intern(&val);
            rec.emit(json!({"ev":"Draw","len":len,"ok":ok,"val":v}));
        }
    }
}

fn panic_text(p: Box<dyn std::any::Any + Send>) -> String {
    p.downcast_ref::<&str>().map(|s| s.to_string()).or_else(|| p.downcast_ref::<String>().cloned()).unwrap_or_else(|| "<panic>".into())
}

fn body_of(text: &str, hdr: &str) -> Option<Vec<u8>> {
    crate::b64::dec(text.strip_prefix(hdr)?)
}

pub fn hdr_pie<B: Backend, K: SealingKey>() -> String {
    format!("{}{}", <B::V as Version>::PASERK_HEADER, K::PIE_WRAP_HEADER)
}
pub fn hdr_pw<B: Backend, K: SealingKey>() -> String {
    format!("{}{}", <B::V as Version>::PASERK_HEADER, K::PW_WRAP_HEADER)
}
pub fn hdr_seal<B: Backend>() -> String {
    format!("{}.seal.", <B::V as Version>::PASERK_HEADER)
}

/// spec layout (Versions.tla): which bytes of a blob are random fields (nonce / salt / ephemeral key / RSA ciphertext)
fn fresh_fields(wkind: &str, ver: u32, blob: &[u8]) -> Vec<Vec<u8>> {
    let g = |a: usize, b: usize| blob.get(a..b).map(|x| x.to_vec()).unwrap_or_default();
    match (wkind, ver) {
        ("pie", 1) | ("pie", 3) => vec![g(48, 80)],
        ("pie", _) => vec![g(32, 64)],
        ("pw", 1) | ("pw", 3) => vec![g(0, 32), g(36, 52)],
        ("pw", _) => vec![g(0, 16), g(32, 56)],
        ("seal", 1) => vec![g(80, blob.len())],
        ("seal", 3) => vec![g(48, 97)],
        _ => vec![g(32, 64)],
    }
}

fn wrap_ret(rec: &mut Recorder, wkind: &str, ver: u32, text: Result<Result<String, paseto_core::PasetoError>, String>, hdr: &str, klen: usize) -> Option<(String, Vec<u8>)> {
    emit_draws(rec);
    match text {
        Err(p) => {
            rec.emit(json!({"ev":"Panic","where":"wrap","payload":p}));
            None
        }
        Ok(Err(e)) => {
            rec.emit(json!({"ev":"WrapRet","ok":false,"errc":errc(&e),"err":errname(&e),"blob":0,"fresh":[],"len":0,"klen":klen}));
            None
        }
        Ok(Ok(t)) => {
            let Some(blob) = body_of(&t, hdr) else {
                let sid = rec.intern(t.as_bytes());
                rec.emit(json!({"ev":"BadToString","str":sid}));
                return None;
            };
            let bid = rec.intern(&blob);
            let fresh: Vec<u64> = fresh_fields(wkind, ver, &blob).iter().map(|f| rec.intern(f)).collect();
            rec.emit(json!({"ev":"WrapRet","ok":true,"blob":bid,"fresh":fresh,"len":blob.len(),"klen":klen,"errc":""}));
            Some((t, blob))
        }
    }
}

fn guard<T>(f: impl FnOnce() -> Result<T, paseto_core::PasetoError>) -> Result<Result<T, paseto_core::PasetoError>, String> {
    catch_unwind(AssertUnwindSafe(f)).map_err(panic_text)
}

// ---------------------------------------------------------------- PIE
pub fn pie_wrap<B: Backend, K: SealingKey>(rec: &mut Recorder, st: &mut Stats, key: &[u8], with: &[u8], rng_fail: Option<(usize, bool)>) -> Option<(String, Vec<u8>)>
where
    B::V: HasKey<K>,
{
    let k: Key<B::V, K> = key_from_bytes(key).expect("key to wrap parses");
    let w = cached_key::<B::V, Local>(with).expect("wrapping key parses");
    let (kid, wid) = (rec.intern(key), rec.intern(with));
    rec.emit(json!({"ev":"WrapCall","be":B::NAME,"wkind":"pie","ver":B::VER,"ktype":ktype::<K>(),"key":kid,"with":wid}));
    spy_take();
    rng::reset(rng::Source::Os, true, rng_fail.map(|x| x.0), rng_fail.map(|x| x.1).unwrap_or(false));
    let r = guard(|| k.wrap_pie(&w).map(|x| x.to_string()));
    rng::passthrough();
    st.wraps += 1;
    wrap_ret(rec, "pie", B::VER, r, &hdr_pie::<B, K>(), key.len())
}

pub fn pie_unwrap<B: Backend, K: SealingKey>(rec: &mut Recorder, st: &mut Stats, blob: &[u8], with: &[u8], note: Value)
where
    B::V: HasKey<K>,
{
    let text = format!("{}{}", hdr_pie::<B, K>(), crate::b64::enc(blob));
    let Ok(w) = cached_key::<B::V, Local>(with) else { return };
    let (bid, wid) = (rec.intern(blob), rec.intern(with));
    st.unwraps += 1;
    let r = guard(|| PieWrappedKey::<B::V, K>::from_str(&text)?.unwrap(&w).map(|k| key_bytes(&k)));
    unwrap_ret(rec, B::NAME, "pie", B::VER, ktype::<K>(), bid, wid, r, note);
}

/// Text-level extensions of a serialised wrapped / sealed key: the honest text followed by further characters.  No byte string
/// encodes to such a text, so for the trace it is a blob nobody ever produced (named by its UTF-8 bytes) and must be refused.
pub fn extended_texts(text: &str) -> Vec<(String, Value)> {
    [".", "..", ".AAAA", ".AAAA.BBBB", "\n", " ", "=", ".\n"].iter().map(|x| (format!("{text}{x}"), json!({"cls":"extend-text","suffix":x}))).collect()
}

fn unwrap_text<B: Backend>(rec: &mut Recorder, st: &mut Stats, wkind: &str, kt: &str, text: &str, with: &[u8], note: Value, f: impl FnOnce() -> Result<Vec<u8>, paseto_core::PasetoError>) {
    let (bid, wid) = (rec.intern(text.as_bytes()), rec.intern(with));
    st.unwraps += 1;
    let r = guard(f);
    unwrap_ret(rec, B::NAME, wkind, B::VER, kt, bid, wid, r, note);
}

#[allow(clippy::too_many_arguments)]
fn unwrap_ret(rec: &mut Recorder, be: &str, wkind: &str, ver: u32, kt: &str, bid: u64, wid: u64, r: Result<Result<Vec<u8>, paseto_core::PasetoError>, String>, note: Value) {
    match r {
        Err(p) => rec.emit(json!({"ev":"Panic","where":"unwrap","be":be,"wkind":wkind,"payload":p,"note":note})),
        Ok(Err(e)) => rec.emit(json!({"ev":"Unwrap","be":be,"wkind":wkind,"ver":ver,"ktype":kt,"blob":bid,"with":wid,"ok":false,"key":0,"errc":errc(&e),"err":errname(&e),"note":note})),
        Ok(Ok(k)) => {
            let kid = rec.intern(&k);
            rec.emit(json!({"ev":"Unwrap","be":be,"wkind":wkind,"ver":ver,"ktype":kt,"blob":bid,"with":wid,"ok":true,"key":kid,"errc":"","note":note}));
        }
    }
}

// ---------------------------------------------------------------- PBKW
/// PBKW parameter block per Versions.tla: v1/v3 iterations u32 BE; v2/v4 mem u64 BE, time u32 BE, para u32 BE
pub fn pw_param_block(ver: u32, cost: (u64, u32, u32)) -> Vec<u8> {
    if ver == 1 || ver == 3 {
        (cost.0 as u32).to_be_bytes().to_vec()
    } else {
        let mut v = cost.0.to_be_bytes().to_vec();
        v.extend_from_slice(&cost.1.to_be_bytes());
        v.extend_from_slice(&cost.2.to_be_bytes());
        v
    }
}

/// Params values can only be obtained from a parsed blob: build one with the wanted parameter block
pub fn pw_params<B: Backend>(cost: (u64, u32, u32)) -> <B::V as PwWrapVersion>::Params {
    let salt = if B::VER == 1 || B::VER == 3 { 32 } else { 16 };
    let mut blob = vec![0u8; salt];
    blob.extend(pw_param_block(B::VER, cost));
    blob.extend(vec![0u8; 24 + 32 + 48]);
    let text = format!("{}{}", hdr_pw::<B, Local>(), crate::b64::enc(&blob));
    PasswordWrappedKey::<B::V, Local>::from_str(&text).expect("crafted blob parses").params().expect("params readable")
}

/// the cost an attacker-modified blob asks for, read with the spec's layout; None if the blob is too short
pub fn pw_cost_of(ver: u32, blob: &[u8]) -> Option<(u64, u32, u32)> {
    if ver == 1 || ver == 3 {
        let b = blob.get(32..36)?;
        Some((u32::from_be_bytes(b.try_into().ok()?) as u64, 0, 1))
    } else {
        let m = u64::from_be_bytes(blob.get(16..24)?.try_into().ok()?);
        let t = u32::from_be_bytes(blob.get(24..28)?.try_into().ok()?);
        let p = u32::from_be_bytes(blob.get(28..32)?.try_into().ok()?);
        Some((m, t, p))
    }
}

/// the budget of properties C04/C06/C07
pub fn within_budget(ver: u32, c: (u64, u32, u32)) -> bool {
    // the budget bounds memory and passes (k2 / k4) or iterations (k1 / k3); the lane count is not part of it: Argon2's work does not
    // grow with it, and counts Argon2 cannot use are refused (an earlier version of this filter also skipped lane counts above 16 and
    // so never offered the counts whose check overflowed inside the argon2 crate - see DESIGN 11.5)
    if ver == 1 || ver == 3 { c.0 <= 10_000 } else { c.0 <= 64 * 1024 * 1024 && c.1 <= 3 }
}

/// The identity of a password as PBKW sees it.  k2/k4 (Argon2id) take the password bytes as they are.
/// k1/k3 prescribe PBKDF2-HMAC-SHA384, and an HMAC key is zero-padded to the 128-byte block (RFC 2104;
/// keys longer than a block are hashed first): passwords that differ only by trailing NUL bytes ARE the
/// same key for the prescribed algorithm.  The specification compares passwords by this identity.
pub fn pw_identity(ver: u32, pass: &[u8]) -> Vec<u8> {
    if ver == 2 || ver == 4 {
        return pass.to_vec();
    }
    use sha2::Digest;
    let mut k = if pass.len() > 128 { sha2::Sha384::digest(pass).to_vec() } else { pass.to_vec() };
    while k.last() == Some(&0) {
        k.pop();
    }
    k
}

pub fn pw_wrap<B: Backend, K: SealingKey>(rec: &mut Recorder, st: &mut Stats, key: &[u8], pass: &[u8], cost: Option<(u64, u32, u32)>, rng_fail: Option<(usize, bool)>) -> Option<(String, Vec<u8>)>
where
    B::V: HasKey<K>,
{
    let k: Key<B::V, K> = key_from_bytes(key).expect("key to wrap parses");
    let (kid, wid) = (rec.intern(key), rec.intern(&pw_identity(B::VER, pass)));
    rec.emit(json!({"ev":"WrapCall","be":B::NAME,"wkind":"pw","ver":B::VER,"ktype":ktype::<K>(),"key":kid,"with":wid,"cost":cost.map(|c| json!([c.0,c.1,c.2])).unwrap_or(json!([]))}));
    let params = cost.map(pw_params::<B>);
    spy_take();
    rng::reset(rng::Source::Os, true, rng_fail.map(|x| x.0), rng_fail.map(|x| x.1).unwrap_or(false));
    let r = guard(|| match &params {
        Some(p) => k.password_wrap_with_params(pass, p).map(|x| x.to_string()),
        None => k.password_wrap(pass).map(|x| x.to_string()),
    });
    rng::passthrough();
    st.wraps += 1;
    wrap_ret(rec, "pw", B::VER, r, &hdr_pw::<B, K>(), key.len())
}

pub fn pw_unwrap<B: Backend, K: SealingKey>(rec: &mut Recorder, st: &mut Stats, blob: &[u8], pass: &[u8], note: Value)
where
    B::V: HasKey<K>,
{
    // a blob the harness wrapped itself with a cost of its own choosing is always executed; the budget only
    // protects against costs an attacker-style mutation produced
    let honest = note["cls"] == "honest";
    if let Some(c) = pw_cost_of(B::VER, blob).filter(|_| !honest) {
        if !within_budget(B::VER, c) {
            st.skipped_over_budget += 1;
            // parsed (must not panic) but not unwrapped: cost beyond the stated budget
            let text = format!("{}{}", hdr_pw::<B, K>(), crate::b64::enc(blob));
            let r = catch_unwind(AssertUnwindSafe(|| PasswordWrappedKey::<B::V, K>::from_str(&text).map(|p| p.params().is_ok())));
            if r.is_err() {
                rec.emit(json!({"ev":"Panic","where":"pw-parse","be":B::NAME,"note":note}));
            }
            return;
        }
    }
    let text = format!("{}{}", hdr_pw::<B, K>(), crate::b64::enc(blob));
    let (bid, wid) = (rec.intern(blob), rec.intern(&pw_identity(B::VER, pass)));
    st.unwraps += 1;
    let r = guard(|| PasswordWrappedKey::<B::V, K>::from_str(&text)?.unwrap(pass).map(|k| key_bytes(&k)));
    unwrap_ret(rec, B::NAME, "pw", B::VER, ktype::<K>(), bid, wid, r, note);
}

// ---------------------------------------------------------------- PKE
pub fn pke_seal<B: Backend>(rec: &mut Recorder, st: &mut Stats, key: &[u8], recipient_pub: &[u8], rng_fail: Option<(usize, bool)>) -> Option<(String, Vec<u8>)> {
    let k: LocalKey<B> = key_from_bytes(key).expect("local key parses");
    let pk = cached_key::<B::V, paseto_core::version::PkePublic>(recipient_pub).expect("recipient public key parses");
    let (kid, wid) = (rec.intern(key), rec.intern(recipient_pub));
    rec.emit(json!({"ev":"WrapCall","be":B::NAME,"wkind":"seal","ver":B::VER,"ktype":"local","key":kid,"with":wid}));
    spy_take();
    rng::reset(rng::Source::Os, true, rng_fail.map(|x| x.0), rng_fail.map(|x| x.1).unwrap_or(false));
    let r = guard(|| k.seal(&pk).map(|x| x.to_string()));
    rng::passthrough();
    st.wraps += 1;
    st.pke_seals += 1;
    let out = wrap_ret(rec, "seal", B::VER, r, &hdr_seal::<B>(), key.len());
    if let Some((_, blob)) = &out {
        if B::VER == 1 && (blob.len() != 592 || blob[80] == 0) {
            st.rsa_c_leading_zero += 1;
        }
    }
    out
}

pub fn pke_unseal<B: Backend>(rec: &mut Recorder, st: &mut Stats, blob: &[u8], recipient_sec: &[u8], note: Value) {
    let text = format!("{}{}", hdr_seal::<B>(), crate::b64::enc(blob));
    let Ok(sk) = cached_key::<B::V, paseto_core::version::PkeSecret>(recipient_sec) else { return };
    let (bid, wid) = (rec.intern(blob), rec.intern(recipient_sec));
    st.unwraps += 1;
    let r = guard(|| SealedKey::<B::V>::from_str(&text)?.unseal(&sk).map(|k| key_bytes(&k)));
    unwrap_ret(rec, B::NAME, "seal", B::VER, "local", bid, wid, r, note);
}

// ---------------------------------------------------------------- scenarios
fn small_cost(ver: u32, i: usize) -> (u64, u32, u32) {
    if ver == 1 || ver == 3 {
        ([1u64, 2, 7, 100, 1000, 10_000, 65_536][i % 7], 0, 1)
    } else {
        // memory stays small; the number of passes also takes values above libsodium's presets
        ([8u64, 16, 64, 256, 1024, 8, 16][i % 7] * 1024, [1u32, 2, 3, 4, 5, 6, 10, 17][i % 8], 1)
    }
}

struct World {
    locals: Vec<Vec<u8>>,
    secrets: Vec<keys::Pair>,
    recipients: Vec<keys::Pair>,
    passwords: Vec<Vec<u8>>,
}

fn world<B: Backend>(rng: &mut Prng, n: usize) -> World {
    World {
        locals: keys::local_keys(rng, n),
        secrets: keys::signing_pairs::<B>(rng, n.min(2)),
        recipients: keys::pke_pairs::<B>(n.min(3)),
        passwords: vec![vec![], vec![0], b"correct horse battery staple".to_vec(), vec![0u8; 7], rng.bytes(1024), rng.bytes(1), b"typed at a prompt\n".to_vec(), b"from a file\r\n".to_vec(), b" padded ".to_vec()],
    }
}

fn learn_recipients(rec: &mut Recorder, w: &World) {
    for r in &w.recipients {
        let (s, p) = (rec.intern(&r.secret), rec.intern(&r.public));
        rec.emit(json!({"ev":"Pair","sk":s,"pk":p,"origin":r.origin}));
    }
}

pub fn roundtrip<B: Backend>(rec: &mut Recorder, st: &mut Stats, cfg: &Cfg) {
    let mut rng = Prng::new(cfg.seed, &format!("c05-{}", B::NAME));
    let w = world::<B>(&mut rng, if cfg.thorough { 6 } else { 3 });
    let mut scen = 0;
    let mut reset = |rec: &mut Recorder, what: &str| {
        rec.emit(json!({"ev":"Reset","scenario":format!("{what}-{}-{scen}", B::NAME)}));
        scen += 1;
    };
    // PIE: every wrapping key x every wrapped key (local and secret)
    reset(rec, "pie");
    for with in &w.locals {
        for k in &w.locals {
            if let Some((_, blob)) = pie_wrap::<B, Local>(rec, st, k, with, None) {
                pie_unwrap::<B, Local>(rec, st, &blob, with, json!({"cls":"honest"}));
            }
        }
        for s in &w.secrets {
            if let Some((_, blob)) = pie_wrap::<B, Secret>(rec, st, &s.secret, with, None) {
                pie_unwrap::<B, Secret>(rec, st, &blob, with, json!({"cls":"honest"}));
            }
        }
    }
    // PBKW: small-cost lattice x passwords, plus default parameters twice
    reset(rec, "pw");
    let mut i = 0;
    // Argon2id with several lanes: valid PASERK parameters that the RustCrypto backends implement (libsodium's Argon2 has a fixed
    // parallelism of 1, paseto-v4-sodium refuses the others by design and is not asked)
    if B::NAME == "v2" || B::NAME == "v4" {
        for (ci, cost) in [(64u64 * 1024, 1u32, 2u32), (128 * 1024, 2, 4), (96 * 1024, 1, 3)].into_iter().enumerate() {
            let k = &w.locals[ci % w.locals.len()];
            if let Some((_, blob)) = pw_wrap::<B, Local>(rec, st, k, &w.passwords[0], Some(cost), None) {
                pw_unwrap::<B, Local>(rec, st, &blob, &w.passwords[0], json!({"cls":"honest"}));
            }
        }
    }
    for pass in &w.passwords {
        for ci in 0..(if cfg.thorough { 8 } else { 3 }) {
            let cost = small_cost(B::VER, i + ci);
            let k = &w.locals[i % w.locals.len()];
            if let Some((text, blob)) = pw_wrap::<B, Local>(rec, st, k, pass, Some(cost), None) {
                pw_unwrap::<B, Local>(rec, st, &blob, pass, json!({"cls":"honest"}));
                // the parameter block embedded in the blob is the requested cost (spec layout), and params() of the parsed
                // blob re-wraps another key with the very same parameter block
                let want = pw_param_block(B::VER, cost);
                let salt = if B::VER == 1 || B::VER == 3 { 32 } else { 16 };
                let got = blob.get(salt..salt + want.len()).unwrap_or(&[]).to_vec();
                let (l, r) = (rec.intern(&got), rec.intern(&want));
                rec.emit(json!({"ev":"Law","name":"pbkw-parameter-block-is-the-requested-cost","lhs":l,"rhs":r,"be":B::NAME}));
                let again = catch_unwind(AssertUnwindSafe(|| {
                    let p = PasswordWrappedKey::<B::V, Local>::from_str(&text)?.params()?;
                    key_from_bytes::<B::V, Local>(k)?.password_wrap_with_params(b"another", &p).map(|w| w.to_string())
                }));
                let got2 = match again {
                    Ok(Ok(t2)) => body_of(&t2, &hdr_pw::<B, Local>()).and_then(|b| b.get(salt..salt + want.len()).map(|x| x.to_vec())).unwrap_or_default(),
                    _ => b"<params() or re-wrap failed>".to_vec(),
                };
                let l2 = rec.intern(&got2);
                rec.emit(json!({"ev":"Law","name":"pbkw-params-accessor-preserves-the-block","lhs":l2,"rhs":r,"be":B::NAME}));
            }
            let s = &w.secrets[i % w.secrets.len()];
            if let Some((_, blob)) = pw_wrap::<B, Secret>(rec, st, &s.secret, pass, Some(cost), None) {
                pw_unwrap::<B, Secret>(rec, st, &blob, pass, json!({"cls":"honest"}));
            }
            i += 1;
        }
    }
    for (j, pass) in w.passwords.iter().take(if cfg.thorough { 4 } else { 1 }).enumerate() {
        let k = &w.locals[j % w.locals.len()];
        if let Some((_, blob)) = pw_wrap::<B, Local>(rec, st, k, pass, None, None) {
            // the default cost is the library's own choice and is executed even where it exceeds the attacker budget
            let text_cost = pw_cost_of(B::VER, &blob);
            rec.emit(json!({"ev":"Note","what":"default-params","cost":text_cost.map(|c| json!([c.0,c.1,c.2])).unwrap_or(json!([]))}));
            let (bid, wid) = (rec.intern(&blob), rec.intern(&pw_identity(B::VER, pass)));
            let text = format!("{}{}", hdr_pw::<B, Local>(), crate::b64::enc(&blob));
            st.unwraps += 1;
            let r = guard(|| PasswordWrappedKey::<B::V, Local>::from_str(&text)?.unwrap(pass).map(|k| key_bytes(&k)));
            unwrap_ret(rec, B::NAME, "pw", B::VER, "local", bid, wid, r, json!({"cls":"honest-default-params"}));
        }
    }
    // PKE: many seals per recipient so that rare values of the internal randomness occur
    let n = if B::VER == 1 { if cfg.thorough { 6000 } else { 1500 } } else if cfg.thorough { 3000 } else { 300 };
    let mut done = 0;
    while done < n {
        reset(rec, "seal");
        learn_recipients(rec, &w);
        for _ in 0..100 {
            let r = &w.recipients[done % w.recipients.len()];
            let k = if done % 7 == 0 { w.locals[done % w.locals.len()].clone() } else { rng.bytes(32) };
            if let Some((_, blob)) = pke_seal::<B>(rec, st, &k, &r.public, None) {
                pke_unseal::<B>(rec, st, &blob, &r.secret, json!({"cls":"honest"}));
            }
            done += 1;
        }
    }
}

/// the same bit flipped in two tag bytes, and permutations of the tag bytes (a checksum-style comparison would accept them)
fn tag_variants(blob: &[u8], t0: usize, tlen: usize) -> Vec<(Vec<u8>, Value)> {
    let mut v = Vec::new();
    if ONLY_RELABEL.with(|c| *c.borrow()) || blob.len() < t0 + tlen || tlen < 2 {
        return v;
    }
    for b in 0..8u8 {
        for (i, j) in [(0usize, 1usize), (0, tlen - 1), (tlen / 2, tlen / 2 + 1)] {
            let mut q = blob.to_vec();
            q[t0 + i] ^= 1 << b;
            q[t0 + j] ^= 1 << b;
            v.push((q, json!({"cls":"tag-two-bytes-same-bit","bit":b,"i":i,"j":j})));
        }
    }
    let mut q = blob.to_vec();
    q[t0..t0 + tlen].reverse();
    v.push((q, json!({"cls":"tag-permuted","how":"reversed"})));
    let mut q = blob.to_vec();
    q[t0..t0 + tlen].rotate_left(1);
    v.push((q, json!({"cls":"tag-permuted","how":"rotated"})));
    v.retain(|(q, _)| q != blob);
    v
}

fn flips(blob: &[u8], thorough: bool, rng: &mut Prng, edges: &[usize]) -> Vec<(usize, u8)> {
    let mut v = Vec::new();
    if ONLY_RELABEL.with(|c| *c.borrow()) {
        return v;
    }
    for i in 0..blob.len() {
        let near = edges.iter().any(|&e| i + 2 >= e && i < e + 2) || i < 2 || i + 2 >= blob.len();
        if thorough || near {
            v.extend((0..8).map(|b| (i, b)));
        } else {
            v.push((i, rng.below(8) as u8));
        }
    }
    v
}

/// Many seal -> parse -> unseal round trips to one recipient: outcomes that depend on the ephemeral value (a rare shape of the
/// ephemeral public key, of the shared secret, of the RSA ciphertext) need numbers.  Only failures are recorded, as Law events.
pub fn bulk_pke<B: Backend>(rec: &mut Recorder, st: &mut Stats, cfg: &Cfg) {
    let n: usize = match (B::VER, cfg.thorough) {
        (1, false) => 40,
        (1, true) => 600,
        (3, false) => 1500,
        (3, true) => 20000,
        (_, false) => 12000,
        (_, true) => 150000,
    };
    let rcp = &keys::pke_pairs::<B>(1)[0];
    let (Ok(pk), Ok(sk)) = (key_from_bytes::<B::V, paseto_core::version::PkePublic>(&rcp.public), key_from_bytes::<B::V, paseto_core::version::PkeSecret>(&rcp.secret)) else { return };
    let mut rng = Prng::new(cfg.seed, &format!("c05-bulk-{}", B::NAME));
    rec.emit(json!({"ev":"Reset","scenario":format!("bulk-seal-{}", B::NAME)}));
    let mut bad = 0u64;
    for i in 0..n {
        let kb = rng.bytes(32);
        let r = catch_unwind(AssertUnwindSafe(|| -> Result<Vec<u8>, String> {
            let k: LocalKey<B> = key_from_bytes(&kb).map_err(|e| errname(&e).to_string())?;
            let text = k.seal(&pk).map_err(|e| format!("seal: {}", errname(&e)))?.to_string();
            let back = SealedKey::<B::V>::from_str(&text).map_err(|e| format!("parse: {}", errname(&e)))?.unseal(&sk).map_err(|e| format!("unseal: {} of {text}", errname(&e)))?;
            Ok(key_bytes(&back))
        }));
        let got = match r {
            Ok(Ok(b)) => b,
            Ok(Err(e)) => e.into_bytes(),
            Err(_) => b"panic".to_vec(),
        };
        st.wraps += 1;
        st.pke_seals += 1;
        // now and then the long-lived recipient key first refuses a damaged blob (an ephemeral public key that is no curve point, a
        // flipped tag): the round trips that follow are judged like all others
        if i % 64 == 7 {
            let _ = catch_unwind(AssertUnwindSafe(|| {
                let k: LocalKey<B> = key_from_bytes(&kb).ok()?;
                let text = k.seal(&pk).ok()?.to_string();
                let hdr = hdr_seal::<B>();
                let mut blob = body_of(&text, &hdr)?;
                let at = if i % 128 == 7 { blob.len() - 1 } else { blob.len() / 2 };
                blob[at] ^= 0x55;
                let bad = format!("{hdr}{}", crate::b64::enc(&blob));
                SealedKey::<B::V>::from_str(&bad).ok()?.unseal(&sk).ok()
            }));
        }
        if got != kb && bad < 20 {
            bad += 1;
            let (l, r) = (rec.intern(&got), rec.intern(&kb));
            rec.emit(json!({"ev":"Law","name":"sealed-key-round-trip","lhs":l,"rhs":r,"be":B::NAME,"i":i}));
        }
    }
    rec.emit(json!({"ev":"Note","what":"bulk seal/unseal round trips","be":B::NAME,"n":n,"failed":bad}));
}

pub fn tamper<B: Backend>(rec: &mut Recorder, st: &mut Stats, cfg: &Cfg) {
    let only_relabel = cfg.mode == "relabel";
    ONLY_RELABEL.with(|c| *c.borrow_mut() = only_relabel);
    let mut rng = Prng::new(cfg.seed, &format!("c06-{}", B::NAME));
    let w = world::<B>(&mut rng, 3);
    let with = &w.locals[2];
    let other_with = &w.locals[0];
    let pass = &w.passwords[2];
    let t = |ver: u32| if ver == 1 || ver == 3 { 48usize } else { 32 };
    // ---- PIE, local and secret
    rec.emit(json!({"ev":"Reset","scenario":format!("tamper-pie-{}", B::NAME)}));
    let lk = &w.locals[2];
    let sk = &w.secrets[w.secrets.len() - 1].secret;
    if let Some((_, blob)) = pie_wrap::<B, Local>(rec, st, lk, with, None) {
        pie_unwrap::<B, Local>(rec, st, &blob, with, json!({"cls":"identity"}));
        for (i, b) in flips(&blob, cfg.thorough, &mut rng, &[t(B::VER), t(B::VER) + 32]) {
            let mut q = blob.clone();
            q[i] ^= 1 << b;
            pie_unwrap::<B, Local>(rec, st, &q, with, json!({"cls":"bitflip","pos":i,"bit":b}));
        }
        for (q, note) in tag_variants(&blob, 0, t(B::VER)) {
            pie_unwrap::<B, Local>(rec, st, &q, with, note);
        }
        for n in 0..(if only_relabel { 0 } else { blob.len() }) {
            pie_unwrap::<B, Local>(rec, st, &blob[..n], with, json!({"cls":"truncate","to":n}));
        }
        for k in 1..=3 {
            let mut q = blob.clone();
            q.extend(vec![0u8; k]);
            pie_unwrap::<B, Local>(rec, st, &q, with, json!({"cls":"extend","k":k}));
        }
        for (text, note) in extended_texts(&format!("{}{}", hdr_pie::<B, Local>(), crate::b64::enc(&blob))) {
            if let Ok(w) = cached_key::<B::V, Local>(with) {
                unwrap_text::<B>(rec, st, "pie", "local", &text, with, note, || PieWrappedKey::<B::V, Local>::from_str(&text)?.unwrap(&w).map(|k| key_bytes(&k)));
            }
        }
        if !only_relabel {
            for (q, note) in structural_variants(&blob) {
                pie_unwrap::<B, Local>(rec, st, &q, with, note);
            }
        }
        pie_unwrap::<B, Local>(rec, st, &blob, other_with, json!({"cls":"other-key"}));
        pie_unwrap::<B, Secret>(rec, st, &blob, with, json!({"cls":"relabel","to":"secret"}));
        relabel_all(rec, st, "pie", "local", &blob, with, &w);
        // after all those rejections the honest blob still unwraps to the same key
        pie_unwrap::<B, Local>(rec, st, &blob, with, json!({"cls":"honest-after-failures"}));
    }
    if let Some((_, blob)) = pie_wrap::<B, Secret>(rec, st, sk, with, None) {
        pie_unwrap::<B, Secret>(rec, st, &blob, with, json!({"cls":"identity"}));
        let fl = flips(&blob, cfg.thorough, &mut rng, &[t(B::VER), t(B::VER) + 32]);
        let step = if blob.len() > 400 && !cfg.thorough { 5 } else { 1 };
        for (i, b) in fl.into_iter().step_by(step) {
            let mut q = blob.clone();
            q[i] ^= 1 << b;
            pie_unwrap::<B, Secret>(rec, st, &q, with, json!({"cls":"bitflip","pos":i,"bit":b}));
        }
        for n in (0..(if only_relabel { 0 } else { blob.len() })).step_by(step) {
            pie_unwrap::<B, Secret>(rec, st, &blob[..n], with, json!({"cls":"truncate","to":n}));
        }
        pie_unwrap::<B, Secret>(rec, st, &blob, other_with, json!({"cls":"other-key"}));
        pie_unwrap::<B, Local>(rec, st, &blob, with, json!({"cls":"relabel","to":"local"}));
        relabel_all(rec, st, "pie", "secret", &blob, with, &w);
    }
    // ---- PBKW
    rec.emit(json!({"ev":"Reset","scenario":format!("tamper-pw-{}", B::NAME)}));
    let cost = small_cost(B::VER, 1);
    if let Some((_, blob)) = pw_wrap::<B, Local>(rec, st, lk, pass, Some(cost), None) {
        pw_unwrap::<B, Local>(rec, st, &blob, pass, json!({"cls":"identity"}));
        let salt = if B::VER == 1 || B::VER == 3 { 32 } else { 16 };
        let par = if B::VER == 1 || B::VER == 3 { 4 } else { 16 };
        let nn = if B::VER == 1 || B::VER == 3 { 16 } else { 24 };
        // every bit of the parameter block, and the usual sampling elsewhere
        let mut fl = flips(&blob, cfg.thorough, &mut rng, &[salt, salt + par, salt + par + nn, blob.len() - t(B::VER)]);
        for i in salt..salt + par {
            for b in 0..8u8 {
                if !fl.contains(&(i, b)) {
                    fl.push((i, b));
                }
            }
        }
        for (i, b) in fl {
            let mut q = blob.clone();
            q[i] ^= 1 << b;
            pw_unwrap::<B, Local>(rec, st, &q, pass, json!({"cls":"bitflip","pos":i,"bit":b}));
        }
        for (q, note) in tag_variants(&blob, blob.len() - t(B::VER), t(B::VER)) {
            pw_unwrap::<B, Local>(rec, st, &q, pass, note);
        }
        for n in 0..(if only_relabel { 0 } else { blob.len() }) {
            pw_unwrap::<B, Local>(rec, st, &blob[..n], pass, json!({"cls":"truncate","to":n}));
        }
        for k in 1..=3 {
            let mut q = blob.clone();
            q.extend(vec![0u8; k]);
            pw_unwrap::<B, Local>(rec, st, &q, pass, json!({"cls":"extend","k":k}));
        }
        for (text, note) in extended_texts(&format!("{}{}", hdr_pw::<B, Local>(), crate::b64::enc(&blob))) {
            unwrap_text::<B>(rec, st, "pw", "local", &text, pass, note, || PasswordWrappedKey::<B::V, Local>::from_str(&text)?.unwrap(pass).map(|k| key_bytes(&k)));
        }
        if !only_relabel {
            for (q, note) in structural_variants(&blob) {
                pw_unwrap::<B, Local>(rec, st, &q, pass, note);
            }
        }
        for p2 in [&b""[..], &b"correct horse battery stapl"[..], &b"correct horse battery staple\0"[..], &b"Correct horse battery staple"[..],
                   &b"correct horse battery staple\n"[..], &b"correct horse battery staple\r\n"[..], &b"correct horse battery staple "[..], &b" correct horse battery staple"[..]] {
            pw_unwrap::<B, Local>(rec, st, &blob, p2, json!({"cls":"other-password"}));
        }
        pw_unwrap::<B, Secret>(rec, st, &blob, pass, json!({"cls":"relabel","to":"secret"}));
        relabel_all(rec, st, "pw", "local", &blob, pass, &w);
        // after all those rejections the honest blob still unwraps to the same key
        pw_unwrap::<B, Local>(rec, st, &blob, pass, json!({"cls":"honest"}));
    }
    if let Some((_, blob)) = pw_wrap::<B, Secret>(rec, st, sk, pass, Some(cost), None) {
        pw_unwrap::<B, Secret>(rec, st, &blob, pass, json!({"cls":"identity"}));
        let step = if blob.len() > 400 && !cfg.thorough { 5 } else { 1 };
        for (i, b) in flips(&blob, cfg.thorough, &mut rng, &[blob.len() - t(B::VER)]).into_iter().step_by(step) {
            if i >= 16 && i < 36 {
                continue; // parameter bits are covered on the local blob
            }
            let mut q = blob.clone();
            q[i] ^= 1 << b;
            pw_unwrap::<B, Secret>(rec, st, &q, pass, json!({"cls":"bitflip","pos":i,"bit":b}));
        }
        pw_unwrap::<B, Local>(rec, st, &blob, pass, json!({"cls":"relabel","to":"local"}));
        relabel_all(rec, st, "pw", "secret", &blob, pass, &w);
    }
    // passwords are byte strings, not text: a password that is not valid UTF-8 is bound as tightly as any other
    {
        let bin: &[u8] = b"hunter2\xff\xfe";
        if let Some((_, blob)) = pw_wrap::<B, Local>(rec, st, lk, bin, Some(cost), None) {
            pw_unwrap::<B, Local>(rec, st, &blob, bin, json!({"cls":"identity"}));
            for p2 in [&b"hunter2\xff\xfd"[..], &b"hunter2\xfe\xfe"[..], &b"hunter2\xff"[..], &b"hunter2\x80\x80"[..], &b"hunter2\xc3\x28"[..],
                       "hunter2\u{FFFD}\u{FFFD}".as_bytes(), "hunter2\u{FFFD}".as_bytes(), &b"hunter2"[..], &b"hunter2\xff\xfe\xff"[..]] {
                pw_unwrap::<B, Local>(rec, st, &blob, p2, json!({"cls":"other-password","binary":true}));
            }
        }
    }
    // a password longer than one block of the PBKDF2 hash (128 bytes): every byte of it counts
    {
        let long: Vec<u8> = (0..300u32).map(|i| (i * 7 + 3) as u8).collect();
        if let Some((_, blob)) = pw_wrap::<B, Local>(rec, st, lk, &long, Some(cost), None) {
            pw_unwrap::<B, Local>(rec, st, &blob, &long, json!({"cls":"identity"}));
            let mut last = long.clone();
            last[299] ^= 1;
            let mut mid = long.clone();
            mid[200] ^= 0x80;
            for p2 in [&long[..128], &long[..129], &long[..200], &long[..299], &last[..], &mid[..]] {
                pw_unwrap::<B, Local>(rec, st, &blob, p2, json!({"cls":"other-password","long":true}));
            }
        }
    }
    // a work factor of zero is outside the valid range (RFC 8018: a positive iteration count; Argon2: at least one pass): a backend
    // may refuse to wrap with it, but a blob it does produce must still be bound to its password.  The blob is not recorded as an
    // honest wrap, so the specification demands that every presentation of it under ANOTHER password is rejected.
    {
        let zero: (u64, u32, u32) = if B::VER == 1 || B::VER == 3 { (0, 0, 1) } else { (8 * 1024, 0, 1) };
        let made = catch_unwind(AssertUnwindSafe(|| {
            let p = pw_params::<B>(zero);
            key_from_bytes::<B::V, Local>(lk).and_then(|k| k.password_wrap_with_params(pass, &p)).map(|x| x.to_string())
        }));
        if let Ok(Ok(text)) = made {
            if let Some(blob) = body_of(&text, &hdr_pw::<B, Local>()) {
                st.zero_work_factor_blobs += 1;
                for p2 in [&b""[..], &b"x"[..], &b"correct horse battery stapl"[..]] {
                    if p2 != &pass[..] {
                        pw_unwrap::<B, Local>(rec, st, &blob, p2, json!({"cls":"zero-work-factor-other-password"}));
                    }
                }
            }
        }
    }
    // ---- PKE
    rec.emit(json!({"ev":"Reset","scenario":format!("tamper-seal-{}", B::NAME)}));
    learn_recipients(rec, &w);
    let r0 = &w.recipients[0];
    let r1 = &w.recipients[w.recipients.len() - 1];
    if let Some((_, blob)) = pke_seal::<B>(rec, st, lk, &r0.public, None) {
        pke_unseal::<B>(rec, st, &blob, &r0.secret, json!({"cls":"identity"}));
        let edges: Vec<usize> = if B::VER == 1 { vec![48, 80] } else if B::VER == 3 { vec![48, 97] } else { vec![32, 64] };
        let step = if B::VER == 1 && !cfg.thorough { 3 } else { 1 };
        for (i, b) in flips(&blob, cfg.thorough, &mut rng, &edges).into_iter().step_by(step) {
            let mut q = blob.clone();
            q[i] ^= 1 << b;
            pke_unseal::<B>(rec, st, &q, &r0.secret, json!({"cls":"bitflip","pos":i,"bit":b}));
        }
        for (q, note) in tag_variants(&blob, 0, t(B::VER)) {
            pke_unseal::<B>(rec, st, &q, &r0.secret, note);
        }
        for n in (0..(if only_relabel { 0 } else { blob.len() })).step_by(step) {
            pke_unseal::<B>(rec, st, &blob[..n], &r0.secret, json!({"cls":"truncate","to":n}));
        }
        for k in 1..=3 {
            let mut q = blob.clone();
            q.extend(vec![0u8; k]);
            pke_unseal::<B>(rec, st, &q, &r0.secret, json!({"cls":"extend","k":k}));
        }
        for (text, note) in extended_texts(&format!("{}{}", hdr_seal::<B>(), crate::b64::enc(&blob))) {
            if let Ok(sk) = cached_key::<B::V, paseto_core::version::PkeSecret>(&r0.secret) {
                unwrap_text::<B>(rec, st, "seal", "local", &text, &r0.secret, note, || SealedKey::<B::V>::from_str(&text)?.unseal(&sk).map(|k| key_bytes(&k)));
            }
        }
        if !only_relabel {
            for (q, note) in structural_variants(&blob) {
                pke_unseal::<B>(rec, st, &q, &r0.secret, note);
            }
        }
        if r1.secret != r0.secret {
            pke_unseal::<B>(rec, st, &blob, &r1.secret, json!({"cls":"other-recipient"}));
        }
        relabel_all(rec, st, "seal", "local", &blob, &r0.secret, &w);
        // after all those rejections the honest blob still unwraps to the same key
        pke_unseal::<B>(rec, st, &blob, &r0.secret, json!({"cls":"honest-after-failures"}));
    }
}

/// length-changing corruptions other than cutting the end: bytes dropped from the front or the middle, junk inserted
fn structural_variants(blob: &[u8]) -> Vec<(Vec<u8>, Value)> {
    let mut v = Vec::new();
    for n in [1usize, 8, 16, 24, 32, 48, 64, 96] {
        if n < blob.len() {
            v.push((blob[n..].to_vec(), json!({"cls":"truncate-front","dropped":n})));
        }
    }
    for at in [16usize, 32, 48, 64] {
        for n in [16usize, 32, 48] {
            if at + n <= blob.len() {
                let mut q = blob[..at].to_vec();
                q.extend_from_slice(&blob[at + n..]);
                v.push((q, json!({"cls":"drop-middle","at":at,"n":n})));
            }
        }
        if at <= blob.len() {
            let mut q = blob[..at].to_vec();
            q.extend(vec![0x5au8; 32]);
            q.extend_from_slice(&blob[at..]);
            v.push((q, json!({"cls":"insert-middle","at":at})));
        }
    }
    v
}

/// the same blob bytes under the parser of every other version (and, for seal, that version's recipient key)
fn relabel_all(rec: &mut Recorder, st: &mut Stats, wkind: &str, kt: &str, blob: &[u8], with: &[u8], w: &World) {
    fn go<B2: Backend>(rec: &mut Recorder, st: &mut Stats, wkind: &str, kt: &str, blob: &[u8], with: &[u8], from_ver: u32) {
        if B2::VER == from_ver {
            return; // same version: the sibling backend accepts by design (C07)
        }
        let note = json!({"cls":"relabel","to":format!("k{}", B2::VER)});
        match (wkind, kt) {
            ("pie", "local") => pie_unwrap::<B2, Local>(rec, st, blob, with, note),
            ("pie", _) => pie_unwrap::<B2, Secret>(rec, st, blob, with, note),
            ("pw", "local") => pw_unwrap::<B2, Local>(rec, st, blob, with, note),
            ("pw", _) => pw_unwrap::<B2, Secret>(rec, st, blob, with, note),
            _ => {
                // a recipient secret of the other version: its own generated one
                let r = keys::pke_pairs::<B2>(1);
                let (s, p) = (rec.intern(&r[0].secret), rec.intern(&r[0].public));
                rec.emit(json!({"ev":"Pair","sk":s,"pk":p,"origin":"relabel"}));
                pke_unseal::<B2>(rec, st, blob, &r[0].secret, note)
            }
        }
    }
    let _ = w;
    // the version of the blob is not known here; callers are generic, so derive it from the header-less context:
    // every backend of a *different* version than the caller's is tried by passing the caller's version in `from_ver`
    let from_ver = CURRENT_VER.with(|c| *c.borrow());
    go::<V1>(rec, st, wkind, kt, blob, with, from_ver);
    go::<V2>(rec, st, wkind, kt, blob, with, from_ver);
    go::<V3>(rec, st, wkind, kt, blob, with, from_ver);
    go::<V3Lc>(rec, st, wkind, kt, blob, with, from_ver);
    go::<V4>(rec, st, wkind, kt, blob, with, from_ver);
    go::<V4Na>(rec, st, wkind, kt, blob, with, from_ver);
}

thread_local! {
    static ONLY_RELABEL: std::cell::RefCell<bool> = const { std::cell::RefCell::new(false) };
    static CURRENT_VER: std::cell::RefCell<u32> = const { std::cell::RefCell::new(0) };
}

pub fn faults<B: Backend>(rec: &mut Recorder, st: &mut Stats, cfg: &Cfg) {
    let mut rng = Prng::new(cfg.seed, &format!("c16w-{}", B::NAME));
    let w = world::<B>(&mut rng, 2);
    rec.emit(json!({"ev":"Reset","scenario":format!("wrap-faults-{}", B::NAME)}));
    learn_recipients(rec, &w);
    let k = &w.locals[2];
    let with = &w.locals[3 % w.locals.len()];
    let pass = &w.passwords[2];
    let cost = small_cost(B::VER, 0);
    if !B::GETRANDOM03 {
        return;
    }
    // learn the draw counts with a clean run of each operation, then fail every index
    let count = |f: &mut dyn FnMut()| -> usize {
        spy_take();
        rng::reset(rng::Source::Os, true, None, false);
        f();
        let n = rng::take_log().len();
        rng::passthrough();
        spy_take();
        n
    };
    let mut scratch = Recorder::create("/dev/null");
    let mut s2 = Stats::default();
    let n_pie = count(&mut || {
        let kk: LocalKey<B> = key_from_bytes(k).unwrap();
        let ww: LocalKey<B> = key_from_bytes(with).unwrap();
        let _ = kk.wrap_pie(&ww);
    });
    let n_pw = count(&mut || {
        let kk: LocalKey<B> = key_from_bytes(k).unwrap();
        let _ = kk.password_wrap_with_params(pass, &pw_params::<B>(cost));
    });
    let n_seal = count(&mut || {
        let kk: LocalKey<B> = key_from_bytes(k).unwrap();
        let pk: PkePub<B> = key_from_bytes(&w.recipients[0].public).unwrap();
        let _ = kk.seal(&pk);
    });
    let _ = (&mut scratch, &mut s2);
    // glitches (one failing draw, cleanly or after a partial fill) and outages (that draw and every later one fail)
    for (partial, lasting) in [(false, false), (true, false), (false, true)] {
        let arm = || {
            if lasting {
                rng::outage_next()
            }
        };
        for i in 0..n_pie {
            arm();
            pie_wrap::<B, Local>(rec, st, k, with, Some((i, partial)));
            arm();
            pie_wrap::<B, Secret>(rec, st, &w.secrets[0].secret, with, Some((i, partial)));
        }
        for i in 0..n_pw {
            arm();
            pw_wrap::<B, Local>(rec, st, k, pass, Some(cost), Some((i, partial)));
        }
        for i in 0..n_seal {
            arm();
            pke_seal::<B>(rec, st, k, &w.recipients[0].public, Some((i, partial)));
        }
    }
    rec.emit(json!({"ev":"Note","what":"draw-counts","be":B::NAME,"pie":n_pie,"pw":n_pw,"seal":n_seal}));
    // after the faults everything still works
    if let Some((_, blob)) = pie_wrap::<B, Local>(rec, st, k, with, None) {
        pie_unwrap::<B, Local>(rec, st, &blob, with, json!({"cls":"honest-after-faults"}));
    }
}

/// key generation, observed as an operation of its own (C16)
fn keygen<B: Backend>(rec: &mut Recorder, kind: &str, rng_fail: Option<(usize, bool)>) -> usize {
    rec.emit(json!({"ev":"KeyGenCall","be":B::NAME,"ver":B::VER,"kind":kind}));
    spy_take();
    rng::reset(rng::Source::Os, true, rng_fail.map(|x| x.0), rng_fail.map(|x| x.1).unwrap_or(false));
    let r = catch_unwind(AssertUnwindSafe(|| -> Result<Vec<u8>, paseto_core::PasetoError> {
        if kind == "local" { LocalKey::<B>::random().map(|k| key_bytes(&k)) } else { SecretKey::<B>::random().map(|k| key_bytes(&k)) }
    }));
    let ndraws = rng::take_log().len();
    rng::passthrough();
    emit_draws(rec);
    match r {
        Err(p) => rec.emit(json!({"ev":"Panic","where":"keygen","be":B::NAME,"payload":panic_text(p)})),
        Ok(Err(e)) => rec.emit(json!({"ev":"KeyGenRet","ok":false,"errc":errc(&e),"err":errname(&e),"key":0})),
        Ok(Ok(k)) => {
            let kid = rec.intern(&k);
            rec.emit(json!({"ev":"KeyGenRet","ok":true,"key":kid,"errc":"","len":k.len()}));
        }
    }
    ndraws
}

/// C16: consecutive wraps / seals / key generations with identical inputs: every random field must be new
pub fn fresh<B: Backend>(rec: &mut Recorder, st: &mut Stats, cfg: &Cfg) {
    let mut rng = Prng::new(cfg.seed, &format!("c16p-{}", B::NAME));
    let w = world::<B>(&mut rng, 1);
    let n = if cfg.thorough { 1500 } else { 400 };
    rec.emit(json!({"ev":"Reset","scenario":format!("fresh-wraps-{}", B::NAME)}));
    learn_recipients(rec, &w);
    let k = &w.locals[2];
    let cost = small_cost(B::VER, 0);
    for _ in 0..n {
        pie_wrap::<B, Local>(rec, st, k, k, None);
        pw_wrap::<B, Local>(rec, st, k, b"same password", Some(cost), None);
        pke_seal::<B>(rec, st, k, &w.recipients[0].public, None);
        keygen::<B>(rec, "local", None);
    }
    // the same secret key wrapped again and again (a nonce derived from the wrapped key instead of drawn would repeat)
    let sk = &w.secrets[0].secret;
    for _ in 0..(n / 4).max(40) {
        pie_wrap::<B, Secret>(rec, st, sk, k, None);
        pw_wrap::<B, Secret>(rec, st, sk, b"same password", Some(cost), None);
    }
    // the same operations on freshly started threads, one after the other, still in the same scenario
    let m = if cfg.thorough { 300 } else { 40 };
    for _ in 0..3 {
        std::thread::scope(|sc| {
            sc.spawn(|| {
                for _ in 0..m {
                    pie_wrap::<B, Local>(rec, st, k, k, None);
                    pw_wrap::<B, Local>(rec, st, k, b"same password", Some(cost), None);
                    pke_seal::<B>(rec, st, k, &w.recipients[0].public, None);
                    keygen::<B>(rec, "local", None);
                }
            });
        });
    }
    // secret-key generation (RSA for v1 is slow: a handful)
    let ns = if B::VER == 1 { if cfg.thorough { 40 } else { 3 } } else { n };
    for _ in 0..ns {
        keygen::<B>(rec, "secret", None);
    }
    // fail every draw of key generation
    if B::GETRANDOM03 {
        for kind in ["local", "secret"] {
            if B::VER == 1 && kind == "secret" {
                continue; // RSA key generation draws from getrandom 0.2 (OsRng), not interceptable here
            }
            let nd = keygen::<B>(rec, kind, None);
            for i in 0..nd {
                keygen::<B>(rec, kind, Some((i, false)));
                keygen::<B>(rec, kind, Some((i, true)));
                rng::outage_next();
                keygen::<B>(rec, kind, Some((i, false)));
            }
        }
    }
}

pub fn run(rec: &mut Recorder, cfg: &Cfg) -> Stats {
    let mut st = Stats::default();
    fn one<B: Backend>(rec: &mut Recorder, st: &mut Stats, cfg: &Cfg) {
        CURRENT_VER.with(|c| *c.borrow_mut() = B::VER);
        match cfg.mode.as_str() {
            "roundtrip" => {
                roundtrip::<B>(rec, st, cfg);
                bulk_pke::<B>(rec, st, cfg);
            }
            "tamper" | "relabel" => tamper::<B>(rec, st, cfg),
            "faults" => faults::<B>(rec, st, cfg),
            "fresh" => fresh::<B>(rec, st, cfg),
            m => panic!("unknown mode {m}"),
        }
    }
    for be in &cfg.backends {
        crate::with_backend!(be.as_str(), one(rec, &mut st, cfg));
    }
    st
}
