//! Token drivers for C01 / C02 / C12 (and the token part of C16): seal with the library's own
//! randomness, serialise, tamper, parse, unseal -- one NDJSON event per L0 action.
//!
//! The driver never judges.  It executes calls, projects concrete values to interned ids and
//! describes what it did; Trace_Ideal.tla decides whether the recorded behaviour is allowed.
use crate::backends::*;
use crate::payload::*;
use crate::prng::Prng;
use crate::rec::Recorder;
use crate::{keys, rng};
use paseto_core::key::{HasKey, Key, KeyType};
use paseto_core::tokens::{SealedToken, UnsealedToken};
use paseto_core::version::{Local, Public, Purpose, SealingVersion, Version};
use serde_json::{Value, json};
use std::panic::{AssertUnwindSafe, catch_unwind};
use std::str::FromStr;

pub struct Cfg {
    pub thorough: bool,
    pub seed: u64,
    pub mode: String, // "roundtrip" | "tamper"
    pub backends: Vec<String>,
}

pub struct Stats {
    pub seals: u64,
    pub presentations: u64,
    pub leading_zero_sigs: u64,
    pub signatures: u64,
}

fn purpose_name<P: Purpose>() -> &'static str {
    if P::HEADER == ".local." { "local" } else { "public" }
}

/// spec layout constant (Versions.tla NonceLen): bytes of the payload that are the nonce of a local token
fn nonce_len(ver: u32) -> usize {
    if ver == 2 { 24 } else { 32 }
}
/// spec layout constant (Versions.tla TagLen / SigLen)
fn tail_len(ver: u32, purpose: &str) -> usize {
    match (ver, purpose) {
        (1, "local") | (3, "local") => 48,
        (2, "local") => 16,
        (4, "local") => 32,
        (1, _) => 256,
        (3, _) => 96,
        _ => 64,
    }
}

fn emit_spy(rec: &mut Recorder, evs: Vec<Spy>) {
    for e in evs {
        match e {
            Spy::Draw { len, ok, val } => {
                let v = rec.intern(&val);
                rec.emit(json!({"ev":"Draw","len":len,"ok":ok,"val":v}))
            }
            Spy::FooterEncode { ok } => rec.emit(json!({"ev":"FooterEncode","ok":ok})),
            Spy::ClaimsEncode { ok } => rec.emit(json!({"ev":"ClaimsEncode","ok":ok})),
            Spy::FooterDecode { .. } => {}
            Spy::Decode { bytes, ok } => {
                let b = rec.intern(&bytes);
                rec.emit(json!({"ev":"Decode","bytes":b,"ok":ok}))
            }
            Spy::Validate { claims, verdict } => {
                let c = rec.intern(&claims);
                rec.emit(json!({"ev":"Validate","claims":c,"verdict":verdict}))
            }
        }
    }
}

fn panic_text(p: Box<dyn std::any::Any + Send>) -> String {
    if let Some(s) = p.downcast_ref::<&str>() {
        s.to_string()
    } else if let Some(s) = p.downcast_ref::<String>() {
        s.clone()
    } else {
        "<non-string panic>".into()
    }
}

/// split a token string produced by the library into (payload bytes, footer bytes) using the harness codec
pub fn split_token(s: &str, hdr_len: usize) -> Option<(Vec<u8>, Vec<u8>)> {
    let rest = s.get(hdr_len..)?;
    let (p, f) = match rest.split_once('.') {
        Some((p, f)) => (p, f),
        None => (rest, ""),
    };
    Some((crate::b64::dec(p)?, crate::b64::dec(f)?))
}

pub fn pname<P: Purpose, const C: bool>() -> String {
    format!("{}{}", purpose_name::<P>(), if C { "+c" } else { "" })
}

pub fn header_c<B: Backend, P: Purpose, const C: bool>() -> String {
    format!("{}{}{}", <B::V as Version>::HEADER, if C { "c" } else { "" }, P::HEADER)
}

pub fn header<B: Backend, P: Purpose>() -> String {
    format!("{}{}", <B::V as Version>::HEADER, P::HEADER)
}

pub fn token_string<B: Backend, P: Purpose>(payload: &[u8], footer: &[u8]) -> String {
    let mut s = header::<B, P>();
    s.push_str(&crate::b64::enc(payload));
    if !footer.is_empty() {
        s.push('.');
        s.push_str(&crate::b64::enc(footer));
    }
    s
}

pub struct Sealed {
    pub payload: Vec<u8>,
    pub footer: Vec<u8>,
    pub text: String,
}

/// One seal through the public API with the library's own randomness.
#[allow(clippy::too_many_arguments)]
pub fn seal_lib<B: Backend, P: Purpose>(
    rec: &mut Recorder,
    st: &mut Stats,
    seal_key: &[u8],
    claims: &[u8],
    footer: &[u8],
    aad: &[u8],
    enc_fail: (bool, bool),
    rng_fail: Option<(usize, bool)>,
) -> Option<Sealed>
where
    B::V: SealingVersion<P>,
{
    seal_lib_f::<B, P, SpyFooter>(rec, st, seal_key, claims, footer, aad, enc_fail, rng_fail)
}

#[allow(clippy::too_many_arguments)]
pub fn seal_lib_f<B: Backend, P: Purpose, F: HFooter>(
    rec: &mut Recorder,
    st: &mut Stats,
    seal_key: &[u8],
    claims: &[u8],
    footer: &[u8],
    aad: &[u8],
    enc_fail: (bool, bool),
    rng_fail: Option<(usize, bool)>,
) -> Option<Sealed>
where
    B::V: SealingVersion<P>,
{
    seal_lib_fc::<B, P, F, false>(rec, st, seal_key, claims, footer, aad, enc_fail, rng_fail)
}

/// `C`: the payload type declares the encoding suffix "c" (header vNc.purpose.); the purpose recorded is then "<purpose>+c"
#[allow(clippy::too_many_arguments)]
pub fn seal_lib_fc<B: Backend, P: Purpose, F: HFooter, const C: bool>(
    rec: &mut Recorder,
    st: &mut Stats,
    seal_key: &[u8],
    claims: &[u8],
    footer: &[u8],
    aad: &[u8],
    enc_fail: (bool, bool),
    rng_fail: Option<(usize, bool)>,
) -> Option<Sealed>
where
    B::V: SealingVersion<P>,
{
    let base = purpose_name::<P>();
    let purpose = pname::<P, C>();
    let purpose = purpose.as_str();
    let key = cached_key::<B::V, P::SealingKey>(seal_key).expect("sealing key parses");
    let kid = rec.intern(seal_key);
    let cid = rec.intern(claims);
    let fid = rec.intern(footer);
    let aid = rec.intern(aad);
    rec.emit(json!({"ev":"SealCall","be":B::NAME,"ver":B::VER,"purpose":purpose,"key":kid,"claims":cid,"footer":fid,"aad":aid}));
    set_encode_fail(enc_fail.0, enc_fail.1);
    spy_take();
    rng::reset(rng::Source::Os, true, rng_fail.map(|x| x.0), rng_fail.map(|x| x.1).unwrap_or(false));
    let r = catch_unwind(AssertUnwindSafe(|| {
        UnsealedToken::<B::V, P, SpyClaimsS<C>>::new(SpyClaimsS::<C>(claims.to_vec())).with_footer(F::make(footer)).seal(&key, aad)
    }));
    rng::passthrough();
    set_encode_fail(false, false);
    emit_spy(rec, spy_take());
    st.seals += 1;
    match r {
        Err(p) => {
            rec.emit(json!({"ev":"Panic","where":"seal","be":B::NAME,"payload":panic_text(p)}));
            None
        }
        Ok(Err(e)) => {
            rec.emit(json!({"ev":"SealRet","ok":false,"errc":errc(&e),"err":errname(&e),"wire":0,"footer":0,"fresh":[]}));
            None
        }
        Ok(Ok(tok)) => {
            let text = tok.to_string();
            let hdr = header_c::<B, P, C>();
            let parts = if text.starts_with(&hdr) { split_token(&text, hdr.len()) } else { None };
            let Some((payload, tfooter)) = parts else {
                // the serialisation is not even of the right shape: report it as a failed ToString
                let sid = rec.intern(text.as_bytes());
                rec.emit(json!({"ev":"BadToString","be":B::NAME,"str":sid}));
                return None;
            };
            let wid = rec.intern(&payload);
            let tfid = rec.intern(&tfooter);
            let nonce = if base == "local" { payload.get(..nonce_len(B::VER)).unwrap_or(&payload).to_vec() } else { Vec::new() };
            let fresh: Vec<u64> = if base == "local" { vec![rec.intern(&nonce)] } else { vec![] };
            if base == "public" && B::VER == 3 {
                st.signatures += 1;
                let n = payload.len();
                if n >= 96 && (payload[n - 96] == 0 || payload[n - 48] == 0) {
                    st.leading_zero_sigs += 1;
                }
            }
            rec.emit(json!({"ev":"SealRet","ok":true,"wire":wid,"footer":tfid,"fresh":fresh,"len":payload.len(),"clen":claims.len()}));
            let sid = rec.intern(text.as_bytes());
            rec.emit(json!({"ev":"ToString","str":sid,"ver":B::VER,"purpose":purpose,"wire":wid,"footer":tfid}));
            Some(Sealed { payload, footer: tfooter, text })
        }
    }
}

/// Present a token string to the parser of backend B / purpose P and, if it parses, unseal it.
#[allow(clippy::too_many_arguments)]
pub fn present<B: Backend, P: Purpose>(
    rec: &mut Recorder,
    st: &mut Stats,
    text: &str,
    unseal_key: &[u8],
    aad: &[u8],
    mode: DecodeMode,
    verdict: bool,
    note: Value,
) where
    B::V: SealingVersion<P>,
{
    present_f::<B, P, SpyFooter>(rec, st, text, unseal_key, aad, mode, verdict, note)
}

#[allow(clippy::too_many_arguments)]
pub fn present_f<B: Backend, P: Purpose, F: HFooter>(
    rec: &mut Recorder,
    st: &mut Stats,
    text: &str,
    unseal_key: &[u8],
    aad: &[u8],
    mode: DecodeMode,
    verdict: bool,
    note: Value,
) where
    B::V: SealingVersion<P>,
{
    present_fc::<B, P, F, false>(rec, st, text, unseal_key, aad, mode, verdict, note)
}

#[allow(clippy::too_many_arguments)]
pub fn present_fc<B: Backend, P: Purpose, F: HFooter, const C: bool>(
    rec: &mut Recorder,
    st: &mut Stats,
    text: &str,
    unseal_key: &[u8],
    aad: &[u8],
    mode: DecodeMode,
    verdict: bool,
    note: Value,
) where
    B::V: SealingVersion<P>,
{
    let purpose = pname::<P, C>();
    let purpose = purpose.as_str();
    st.presentations += 1;
    let sid = rec.intern(text.as_bytes());
    spy_take();
    let parsed = catch_unwind(AssertUnwindSafe(|| SealedToken::<B::V, P, SpyClaimsS<C>, F>::from_str(text)));
    spy_take();
    let tok = match parsed {
        Err(p) => {
            rec.emit(json!({"ev":"Panic","where":"parse","be":B::NAME,"payload":panic_text(p),"note":note}));
            return;
        }
        Ok(Err(e)) => {
            rec.emit(json!({"ev":"ParseRet","be":B::NAME,"str":sid,"ver":B::VER,"purpose":purpose,"ok":false,"wire":0,"footer":0,"errc":errc(&e),"note":note}));
            return;
        }
        Ok(Ok(t)) => t,
    };
    // what was parsed, observed through Display and the footer accessor
    let shown = tok.to_string();
    let hdr = header_c::<B, P, C>();
    let (payload, footer) = split_token(&shown, hdr.len()).unwrap_or((b"<unsplittable>".to_vec(), Vec::new()));
    let wid = rec.intern(&payload);
    let fid = rec.intern(&footer);
    let ufid = rec.intern(&tok.unverified_footer().value_bytes());
    // what was actually presented on the wire (the harness built the string from these bytes)
    let (pwid, pfid) = match split_token(text.strip_suffix('.').filter(|t| !t[hdr.len().min(t.len())..].contains('.')).unwrap_or(text), hdr.len()) {
        Some((pp, pf)) if text.starts_with(&hdr) => (rec.intern(&pp), rec.intern(&pf)),
        _ => (wid, fid),
    };
    rec.emit(json!({"ev":"ParseRet","be":B::NAME,"str":sid,"ver":B::VER,"purpose":purpose,"ok":true,"wire":wid,"footer":fid,"ufooter":ufid,"pwire":pwid,"pfooter":pfid}));
    let Ok(key) = cached_key::<B::V, P>(unseal_key) else {
        rec.emit(json!({"ev":"Note","what":"unsealing key does not parse for this backend","be":B::NAME}));
        return;
    };
    let kid = rec.intern(unseal_key);
    let aid = rec.intern(aad);
    rec.emit(json!({"ev":"UnsealCall","be":B::NAME,"ver":B::VER,"purpose":purpose,"wire":pwid,"footer":pfid,"key":kid,"aad":aid,
        "mode":format!("{mode:?}"),"verdict":verdict,"note":note}));
    set_decode_mode(mode);
    let r = catch_unwind(AssertUnwindSafe(|| tok.unseal(&key, aad, &SpyValidatorS::<C> { verdict })));
    set_decode_mode(DecodeMode::Ok);
    emit_spy(rec, spy_take());
    match r {
        Err(p) => rec.emit(json!({"ev":"Panic","where":"unseal","be":B::NAME,"payload":panic_text(p)})),
        Ok(Err(e)) => rec.emit(json!({"ev":"UnsealRet","ok":false,"errc":errc(&e),"err":errname(&e),"claims":0,"footer":0})),
        Ok(Ok(t)) => {
            let c = rec.intern(&t.claims.0);
            let f = rec.intern(&t.footer.value_bytes());
            rec.emit(json!({"ev":"UnsealRet","ok":true,"claims":c,"footer":f,"errc":""}));
        }
    }
}

pub fn lengths(thorough: bool, rng: &mut Prng) -> Vec<usize> {
    let mut v: Vec<usize> = (0..=34).collect();
    for b in [48usize, 64, 96, 128, 192, 256, 512, 1024, 4096] {
        v.extend([b - 1, b, b + 1]);
    }
    v.extend([39, 47, 55, 56, 57, 60, 63, 65, 100, 127, 129, 130]);
    if thorough {
        v.extend(35..=300);
        for k in 10..=20 {
            let p = 1usize << k;
            v.extend([p - 1, p, p + 1]);
        }
    } else {
        for _ in 0..6 {
            v.push(rng.below(3000));
        }
        // the upper end of the property's quantification (1 MiB) in the quick tier too
        v.extend([65535, 65536, (1 << 20) - 1, 1 << 20]);
    }
    v.sort();
    v.dedup();
    v
}

struct KeyMat {
    seal: Vec<u8>,
    unseal: Vec<u8>,
    origin: &'static str,
}

fn key_mats<B: Backend, P: Purpose>(rec: &mut Recorder, rng: &mut Prng, n: usize) -> Vec<KeyMat> {
    if purpose_name::<P>() == "local" {
        keys::local_keys(rng, n).into_iter().enumerate().map(|(i, k)| KeyMat { seal: k.clone(), unseal: k, origin: if i < 2 { "boundary" } else { "random" } }).collect()
    } else {
        keys::signing_pairs::<B>(rng, n)
            .into_iter()
            .map(|p| {
                let s = rec.intern(&p.secret);
                let q = rec.intern(&p.public);
                let _ = (s, q);
                KeyMat { seal: p.secret, unseal: p.public, origin: p.origin }
            })
            .collect()
    }
}

fn learn(rec: &mut Recorder, purpose: &str, k: &KeyMat) {
    if purpose == "public" {
        let s = rec.intern(&k.seal);
        let p = rec.intern(&k.unseal);
        rec.emit(json!({"ev":"Pair","sk":s,"pk":p,"origin":k.origin}));
    }
}

/// C01: honest round trips with library randomness.
pub fn roundtrip<B: Backend, P: Purpose>(rec: &mut Recorder, st: &mut Stats, cfg: &Cfg)
where
    B::V: SealingVersion<P>,
{
    let purpose = purpose_name::<P>();
    let mut rng = Prng::new(cfg.seed, &format!("c01-{}-{}", B::NAME, purpose));
    let kms = key_mats::<B, P>(rec, &mut rng, if cfg.thorough { 6 } else { 2 });
    let lens = lengths(cfg.thorough, &mut rng);
    let footers: Vec<Vec<u8>> = vec![vec![], b"{\"kid\":\"k\"}".to_vec(), rng.bytes(64), vec![0u8], rng.bytes(57)];
    let aads: Vec<Vec<u8>> = vec![vec![], b"{\"test-vector\":\"x\"}".to_vec(), rng.bytes(33)];
    let slow = B::VER == 1 && purpose == "public";
    let mut scen = 0usize;
    for (ki, km) in kms.iter().enumerate() {
        for (li, &len) in lens.iter().enumerate() {
            if slow && !cfg.thorough && li % 3 != ki % 3 {
                continue;
            }
            if len > 5000 && (ki > 0) {
                continue;
            }
            rec.emit(json!({"ev":"Reset","scenario":format!("rt-{}-{}-{}", B::NAME, purpose, scen)}));
            scen += 1;
            learn(rec, purpose, km);
            let claims = if len % 5 == 0 { vec![(len % 251) as u8; len] } else { rng.bytes(len) };
            let footer = &footers[(li + ki) % footers.len()];
            let aad = &aads[(li / 2 + ki) % aads.len()];
            if let Some(s) = seal_lib::<B, P>(rec, st, &km.seal, &claims, footer, aad, (false, false), None) {
                present::<B, P>(rec, st, &s.text, &km.unseal, aad, DecodeMode::Ok, true, json!({"cls":"honest"}));
                if li % 9 == 4 {
                    let nf = if footer.is_empty() { b"added".to_vec() } else if li % 2 == 0 { Vec::new() } else { let mut x = footer.to_vec(); x.reverse(); x.push(b'!'); x };
                    reseal_with_new_footer::<B, P>(rec, st, &km.seal, &km.unseal, &s, &claims, &nf, aad);
                }
            }
        }
    }
    // a payload type that declares another encoding (header suffix "c": vNc.purpose.): the same round trip law
    rec.emit(json!({"ev":"Reset","scenario":format!("rt-suffix-{}-{}", B::NAME, purpose)}));
    {
        let km = &kms[kms.len() - 1];
        learn(rec, purpose, km);
        for (i, len) in [0usize, 1, 16, 33, 100, 300].into_iter().enumerate() {
            let claims = rng.bytes(len);
            let footer = &footers[i % footers.len()];
            let aad = &aads[i % aads.len()];
            if let Some(s) = seal_lib_fc::<B, P, SpyFooter, true>(rec, st, &km.seal, &claims, footer, aad, (false, false), None) {
                present_fc::<B, P, SpyFooter, true>(rec, st, &s.text, &km.unseal, aad, DecodeMode::Ok, true, json!({"cls":"honest"}));
            }
        }
    }
    // JSON claims through paseto-json's Json<T> (strings around every plausible buffer size) and JSON-ish footers
    rec.emit(json!({"ev":"Reset","scenario":format!("rt-json-{}-{}", B::NAME, purpose)}));
    let km = &kms[kms.len() - 1];
    learn(rec, purpose, km);
    let slens: Vec<usize> = if cfg.thorough { vec![0, 1, 100, 127, 128, 129, 254, 255, 256, 257, 258, 511, 512, 513, 1000, 4095, 4096, 4097, 65536, 100000] } else { vec![0, 17, 255, 256, 257, 1000, 70000] };
    for (i, &sl) in slens.iter().enumerate() {
        if slow && i % 2 == 1 {
            continue;
        }
        let v = serde_json::json!({"data": "x".repeat(sl), "n": i, "nested": {"k": ["a", 1, null]}});
        let footer = format!("{{\"kid\":\"{}\"}}", "k".repeat(if i % 2 == 0 { 3 } else { sl.min(600) }));
        seal_json::<B, P>(rec, st, &km.seal, &km.unseal, &v, footer.as_bytes());
    }
    // paseto-json's own claims type and Json<T> footers: every field independently present / absent, nbf and iat apart, strings that
    // need escapes, footers with brackets inside strings and real nesting
    // a footer type without fields (zero-sized) whose encoding is a fixed non-empty document: written, and read back
    {
        let key: Key<B::V, P::SealingKey> = key_from_bytes(&km.seal).unwrap();
        let ukey: Key<B::V, P> = key_from_bytes(&km.unseal).unwrap();
        let m = rng.bytes(21);
        let r = catch_unwind(AssertUnwindSafe(|| {
            let text = UnsealedToken::<B::V, P, Raw>::new(Raw(m.clone())).with_footer(crate::payload::FixedFooter).seal(&key, &[]).map(|t| t.to_string()).ok()?;
            let wire_footer = split_token(&text, header::<B, P>().len()).map(|x| x.1)?;
            let back = SealedToken::<B::V, P, Raw, crate::payload::FixedFooter>::from_str(&text).and_then(|t| t.unseal(&ukey, &[], &paseto_core::validation::NoValidation::dangerous_no_validation())).map(|u| u.claims.0);
            Some((wire_footer, back.unwrap_or_else(|e| format!("<{}>", errname(&e)).into_bytes())))
        }));
        let (wf, back) = r.ok().flatten().unwrap_or((b"<panic or seal error>".to_vec(), b"<panic or seal error>".to_vec()));
        let (l, rr) = (rec.intern(&wf), rec.intern(crate::payload::FIXED_FOOTER));
        rec.emit(json!({"ev":"Law","name":"fieldless-footer-type-is-written","lhs":l,"rhs":rr,"be":B::NAME,"purpose":purpose}));
        let (l, rr) = (rec.intern(&back), rec.intern(&m));
        rec.emit(json!({"ev":"Law","name":"fieldless-footer-token-round-trips","lhs":l,"rhs":rr,"be":B::NAME,"purpose":purpose}));
    }
    rec.emit(json!({"ev":"Reset","scenario":format!("rt-registered-{}-{}", B::NAME, purpose)}));
    learn(rec, purpose, km);
    {
        let t = |s: i64, n: i32| jiff::Timestamp::new(s, n).ok();
        let strs = ["", "alice", "a\"b\\c\n", "é😀", "x".repeat(300).leak() as &str];
        let footers = [json!({"kid": "k4.lid.abc"}), json!({"path": "a[?(@.b[?(@.c[?(@.d[?(@.e[[[[[[[[[[[[[[[[[["}), json!([[[[[[[[[[[[[[[[[[[[1]]]]]]]]]]]]]]]]]]]]),
                       json!({"re": "[[[[[[[[[[[[[[[[[[[[x", "z": "}}}}"}), json!("just a string"), json!({"a": {"b": {"c": {"d": [1, 2, {"e": null}]}}}}),
                       // scalar documents, among them the ones an Option / unit footer serialises to
                       json!(null), json!(false), json!(0), json!(""), json!([]), json!({})];
        let n = if slow { 6 } else if cfg.thorough { 128 } else { 24 };
        for i in 0..n {
            let mask = if cfg.thorough && !slow { i } else { rng.below(128) };
            let s = |k: usize| if mask >> k & 1 == 1 { Some(strs[(i + k) % strs.len()].to_string()) } else { None };
            let claims = paseto_json::RegisteredClaims {
                iss: s(0),
                sub: s(1),
                aud: s(2),
                jti: s(3),
                exp: if mask >> 4 & 1 == 1 { t(4_102_444_800 + i as i64, 999_999_999) } else { None },
                nbf: if mask >> 5 & 1 == 1 { t(1_700_000_000 + i as i64, 1) } else { None },
                iat: if mask >> 6 & 1 == 1 { t(1_600_000_000 - i as i64, 0) } else { None },
            };
            seal_registered::<B, P>(rec, st, &km.seal, &km.unseal, &claims, &footers[i % footers.len()]);
            // the same registered claims flattened into an application struct with floats and enums next to them
            if i % 3 == 0 {
                let app = AppClaims {
                    registered: claims.clone(),
                    role: strs[(i + 2) % strs.len()].to_string(),
                    session: Session { uid: u64::MAX - i as u64, trust: [0.25, 1.0, 1e300, -0.5, 3.0][i % 5] },
                    amount: [Amount::Whole(7), Amount::Real(2.5), Amount::Text("n/a".into()), Amount::Real(1e-7)][i % 4].clone(),
                    grant: if i % 2 == 0 { Grant::Read { ratio: 0.75 } } else { Grant::Write { quota: 9 } },
                };
                seal_typed::<B, P, SpyApp>(rec, st, &km.seal, &km.unseal, &SpyApp(app), &footers[(i + 1) % footers.len()]);
            }
        }
    }
    // many signatures per randomized signer so that rare signature values (leading zero bytes) occur
    if purpose == "public" && (B::NAME == "v3lc" || B::NAME == "v3") {
        let n = if cfg.thorough { 20000 } else { 3000 };
        let km = &kms[0];
        let mut i = 0;
        while i < n {
            rec.emit(json!({"ev":"Reset","scenario":format!("sig-{}-{}", B::NAME, i)}));
            learn(rec, purpose, km);
            for _ in 0..50 {
                let claims = rng.bytes(8);
                if let Some(s) = seal_lib::<B, P>(rec, st, &km.seal, &claims, &[], &[], (false, false), None) {
                    // verify only the rare ones and a sample: the verdict is the specification's either way
                    let n = s.payload.len();
                    if s.payload[n - 96] == 0 || s.payload[n - 48] == 0 || i % 10 == 0 {
                        present::<B, P>(rec, st, &s.text, &km.unseal, &[], DecodeMode::Ok, true, json!({"cls":"honest"}));
                    }
                }
                i += 1;
            }
        }
    }
}

/// one honest round trip with JSON claims (paseto-json's Json<T> under a recording wrapper)
fn seal_json<B: Backend, P: Purpose>(rec: &mut Recorder, st: &mut Stats, seal_key: &[u8], unseal_key: &[u8], v: &serde_json::Value, footer: &[u8])
where
    B::V: SealingVersion<P>,
{
    let purpose = purpose_name::<P>();
    let key: Key<B::V, P::SealingKey> = key_from_bytes(seal_key).expect("sealing key parses");
    let wire_claims = serde_json::to_vec(v).unwrap();
    let (kid, cid, fid) = (rec.intern(seal_key), rec.intern(&wire_claims), rec.intern(footer));
    rec.emit(json!({"ev":"SealCall","be":B::NAME,"ver":B::VER,"purpose":purpose,"key":kid,"claims":cid,"footer":fid,"aad":0,"ptype":"json"}));
    spy_take();
    rng::reset(rng::Source::Os, true, None, false);
    let r = catch_unwind(AssertUnwindSafe(|| UnsealedToken::<B::V, P, SpyJson>::new(SpyJson(v.clone())).with_footer(SpyFooter(footer.to_vec())).seal(&key, &[])));
    rng::passthrough();
    emit_spy(rec, spy_take());
    st.seals += 1;
    let tok = match r {
        Ok(Ok(t)) => t,
        Ok(Err(e)) => {
            rec.emit(json!({"ev":"SealRet","ok":false,"errc":errc(&e),"err":errname(&e),"wire":0,"footer":0,"fresh":[]}));
            return;
        }
        Err(p) => {
            rec.emit(json!({"ev":"Panic","where":"seal","be":B::NAME,"payload":panic_text(p)}));
            return;
        }
    };
    let text = tok.to_string();
    let hdr = header::<B, P>();
    let Some((payload, tfooter)) = split_token(&text, hdr.len()) else { return };
    let (wid, tfid) = (rec.intern(&payload), rec.intern(&tfooter));
    let fresh: Vec<u64> = if purpose == "local" { vec![rec.intern(payload.get(..nonce_len(B::VER)).unwrap_or(&payload))] } else { vec![] };
    rec.emit(json!({"ev":"SealRet","ok":true,"wire":wid,"footer":tfid,"fresh":fresh,"len":payload.len(),"clen":wire_claims.len()}));
    let sid = rec.intern(text.as_bytes());
    rec.emit(json!({"ev":"ToString","str":sid,"ver":B::VER,"purpose":purpose,"wire":wid,"footer":tfid}));
    // parse and unseal with the JSON payload type
    st.presentations += 1;
    let parsed = catch_unwind(AssertUnwindSafe(|| SealedToken::<B::V, P, SpyJson, SpyFooter>::from_str(&text)));
    spy_take();
    let Ok(Ok(t2)) = parsed else {
        rec.emit(json!({"ev":"ParseRet","be":B::NAME,"str":sid,"ver":B::VER,"purpose":purpose,"ok":false,"wire":0,"footer":0}));
        return;
    };
    let shown = t2.to_string();
    let (p2, f2) = split_token(&shown, hdr.len()).unwrap_or_default();
    let (w2, ff2) = (rec.intern(&p2), rec.intern(&f2));
    rec.emit(json!({"ev":"ParseRet","be":B::NAME,"str":sid,"ver":B::VER,"purpose":purpose,"ok":true,"wire":w2,"footer":ff2,"pwire":wid,"pfooter":tfid}));
    let ukey: Key<B::V, P> = key_from_bytes(unseal_key).unwrap();
    let uk = rec.intern(unseal_key);
    rec.emit(json!({"ev":"UnsealCall","be":B::NAME,"ver":B::VER,"purpose":purpose,"wire":wid,"footer":tfid,"key":uk,"aad":0,"note":{"cls":"honest-json"}}));
    let r = catch_unwind(AssertUnwindSafe(|| t2.unseal(&ukey, &[], &AcceptJson)));
    emit_spy(rec, spy_take());
    match r {
        Err(p) => rec.emit(json!({"ev":"Panic","where":"unseal","be":B::NAME,"payload":panic_text(p)})),
        Ok(Err(e)) => rec.emit(json!({"ev":"UnsealRet","ok":false,"errc":errc(&e),"err":errname(&e),"claims":0,"footer":0})),
        Ok(Ok(u)) => {
            // the released claims, identified by their canonical serde_json bytes
            let c = rec.intern(&serde_json::to_vec(&u.claims.0).unwrap());
            let f = rec.intern(&u.footer.0);
            rec.emit(json!({"ev":"UnsealRet","ok":true,"claims":c,"footer":f,"errc":""}));
        }
    }
}

/// unseal -> change the (public) footer field -> seal again: the new token carries and authenticates the NEW footer
fn reseal_with_new_footer<B: Backend, P: Purpose>(rec: &mut Recorder, st: &mut Stats, km_seal: &[u8], km_unseal: &[u8], first: &Sealed, claims: &[u8], new_footer: &[u8], aad: &[u8])
where
    B::V: SealingVersion<P>,
{
    let purpose = purpose_name::<P>();
    let Ok(ukey) = key_from_bytes::<B::V, P>(km_unseal) else { return };
    let key = cached_key::<B::V, P::SealingKey>(km_seal).expect("sealing key parses");
    // the first token is opened outside the recording (its own round trip has been recorded already)
    let opened = catch_unwind(AssertUnwindSafe(|| {
        SealedToken::<B::V, P, SpyClaims, SpyFooter>::from_str(&first.text).and_then(|t| t.unseal(&ukey, aad, &SpyValidator { verdict: true }))
    }));
    spy_take();
    let Ok(Ok(mut open)) = opened else { return };
    open.footer = SpyFooter(new_footer.to_vec());
    let (kid, cid, fid, aid) = (rec.intern(km_seal), rec.intern(claims), rec.intern(new_footer), rec.intern(aad));
    rec.emit(json!({"ev":"SealCall","be":B::NAME,"ver":B::VER,"purpose":purpose,"key":kid,"claims":cid,"footer":fid,"aad":aid,"how":"re-seal of an unsealed token with its footer field replaced"}));
    spy_take();
    rng::reset(rng::Source::Os, true, None, false);
    let r = catch_unwind(AssertUnwindSafe(|| open.seal(&key, aad)));
    rng::passthrough();
    emit_spy(rec, spy_take());
    st.seals += 1;
    match r {
        Err(p) => rec.emit(json!({"ev":"Panic","where":"seal","be":B::NAME,"payload":panic_text(p)})),
        Ok(Err(e)) => rec.emit(json!({"ev":"SealRet","ok":false,"errc":errc(&e),"err":errname(&e),"wire":0,"footer":0,"fresh":[]})),
        Ok(Ok(tok)) => {
            let text = tok.to_string();
            let hdr = header::<B, P>();
            let Some((payload, tfooter)) = split_token(&text, hdr.len()) else { return };
            let (wid, tfid) = (rec.intern(&payload), rec.intern(&tfooter));
            let fresh: Vec<u64> = if purpose == "local" { vec![rec.intern(payload.get(..nonce_len(B::VER)).unwrap_or(&payload))] } else { vec![] };
            rec.emit(json!({"ev":"SealRet","ok":true,"wire":wid,"footer":tfid,"fresh":fresh,"len":payload.len(),"clen":claims.len()}));
            let sid = rec.intern(text.as_bytes());
            rec.emit(json!({"ev":"ToString","str":sid,"ver":B::VER,"purpose":purpose,"wire":wid,"footer":tfid}));
            present::<B, P>(rec, st, &text, km_unseal, aad, DecodeMode::Ok, true, json!({"cls":"honest"}));
        }
    }
}

/// one honest round trip with paseto-json's RegisteredClaims as the payload type and Json<Value> as the footer type
pub trait TypedPayload: paseto_core::encodings::Payload + Clone {
    type Accept: paseto_core::validation::Validate<Claims = Self>;
    const PTYPE: &'static str;
    fn identity(&self) -> Vec<u8>;
    fn accept() -> Self::Accept;
}
impl TypedPayload for SpyReg {
    type Accept = AcceptReg;
    const PTYPE: &'static str = "registered-claims";
    fn identity(&self) -> Vec<u8> {
        reg_identity(&self.0)
    }
    fn accept() -> AcceptReg {
        AcceptReg
    }
}
impl TypedPayload for SpyApp {
    type Accept = AcceptApp;
    const PTYPE: &'static str = "application-claims";
    fn identity(&self) -> Vec<u8> {
        app_identity(&self.0)
    }
    fn accept() -> AcceptApp {
        AcceptApp
    }
}

fn seal_registered<B: Backend, P: Purpose>(rec: &mut Recorder, st: &mut Stats, seal_key: &[u8], unseal_key: &[u8], claims: &paseto_json::RegisteredClaims, footer: &serde_json::Value)
where
    B::V: SealingVersion<P>,
{
    seal_typed::<B, P, SpyReg>(rec, st, seal_key, unseal_key, &SpyReg(claims.clone()), footer)
}

fn seal_typed<B: Backend, P: Purpose, M: TypedPayload>(rec: &mut Recorder, st: &mut Stats, seal_key: &[u8], unseal_key: &[u8], claims: &M, footer: &serde_json::Value)
where
    B::V: SealingVersion<P>,
{
    let purpose = purpose_name::<P>();
    let key: Key<B::V, P::SealingKey> = key_from_bytes(seal_key).expect("sealing key parses");
    let wire_footer = serde_json::to_vec(footer).unwrap();
    let (kid, cid, fid) = (rec.intern(seal_key), rec.intern(&claims.identity()), rec.intern(&wire_footer));
    rec.emit(json!({"ev":"SealCall","be":B::NAME,"ver":B::VER,"purpose":purpose,"key":kid,"claims":cid,"footer":fid,"aad":0,"ptype":M::PTYPE}));
    spy_take();
    rng::reset(rng::Source::Os, true, None, false);
    let r = catch_unwind(AssertUnwindSafe(|| UnsealedToken::<B::V, P, M>::new(claims.clone()).with_footer(SpyJsonFooter(footer.clone())).seal(&key, &[])));
    rng::passthrough();
    emit_spy(rec, spy_take());
    st.seals += 1;
    let tok = match r {
        Ok(Ok(t)) => t,
        Ok(Err(e)) => {
            rec.emit(json!({"ev":"SealRet","ok":false,"errc":errc(&e),"err":errname(&e),"wire":0,"footer":0,"fresh":[]}));
            return;
        }
        Err(p) => {
            rec.emit(json!({"ev":"Panic","where":"seal","be":B::NAME,"payload":panic_text(p)}));
            return;
        }
    };
    let text = tok.to_string();
    let hdr = header::<B, P>();
    let Some((payload, tfooter)) = split_token(&text, hdr.len()) else { return };
    let (wid, tfid) = (rec.intern(&payload), rec.intern(&tfooter));
    let fresh: Vec<u64> = if purpose == "local" { vec![rec.intern(payload.get(..nonce_len(B::VER)).unwrap_or(&payload))] } else { vec![] };
    // the length of the encoded claims is whatever the library's own encoder wrote (C14 judges its content)
    let clen = payload.len().saturating_sub(if purpose == "local" { nonce_len(B::VER) } else { 0 } + tail_len(B::VER, purpose));
    rec.emit(json!({"ev":"SealRet","ok":true,"wire":wid,"footer":tfid,"fresh":fresh,"len":payload.len(),"clen":clen}));
    let sid = rec.intern(text.as_bytes());
    rec.emit(json!({"ev":"ToString","str":sid,"ver":B::VER,"purpose":purpose,"wire":wid,"footer":tfid}));
    st.presentations += 1;
    let parsed = catch_unwind(AssertUnwindSafe(|| SealedToken::<B::V, P, M, SpyJsonFooter>::from_str(&text)));
    spy_take();
    let Ok(Ok(t2)) = parsed else {
        rec.emit(json!({"ev":"ParseRet","be":B::NAME,"str":sid,"ver":B::VER,"purpose":purpose,"ok":false,"wire":0,"footer":0}));
        return;
    };
    let shown = t2.to_string();
    let (p2, f2) = split_token(&shown, hdr.len()).unwrap_or_default();
    let (w2, ff2) = (rec.intern(&p2), rec.intern(&f2));
    rec.emit(json!({"ev":"ParseRet","be":B::NAME,"str":sid,"ver":B::VER,"purpose":purpose,"ok":true,"wire":w2,"footer":ff2,"pwire":wid,"pfooter":tfid}));
    let ukey: Key<B::V, P> = key_from_bytes(unseal_key).unwrap();
    let uk = rec.intern(unseal_key);
    rec.emit(json!({"ev":"UnsealCall","be":B::NAME,"ver":B::VER,"purpose":purpose,"wire":wid,"footer":tfid,"key":uk,"aad":0,"note":{"cls":"honest-typed-claims"}}));
    let r = catch_unwind(AssertUnwindSafe(|| t2.unseal(&ukey, &[], &M::accept())));
    emit_spy(rec, spy_take());
    match r {
        Err(p) => rec.emit(json!({"ev":"Panic","where":"unseal","be":B::NAME,"payload":panic_text(p)})),
        Ok(Err(e)) => rec.emit(json!({"ev":"UnsealRet","ok":false,"errc":errc(&e),"err":errname(&e),"claims":0,"footer":0})),
        Ok(Ok(u)) => {
            let c = rec.intern(&u.claims.identity());
            let f = rec.intern(&serde_json::to_vec(&u.footer.0).unwrap());
            rec.emit(json!({"ev":"UnsealRet","ok":true,"claims":c,"footer":f,"errc":""}));
        }
    }
}

/// C02 / C12: every tamper class on real tokens.
pub fn tamper<B: Backend, P: Purpose>(rec: &mut Recorder, st: &mut Stats, cfg: &Cfg)
where
    B::V: SealingVersion<P>,
{
    let purpose = purpose_name::<P>();
    let mut rng = Prng::new(cfg.seed, &format!("c02-{}-{}", B::NAME, purpose));
    let kms = key_mats::<B, P>(rec, &mut rng, 2);
    let km = &kms[kms.len() - 1];
    let other = &kms[0];
    let has_aad = B::VER >= 3;
    let tlen = tail_len(B::VER, purpose);
    let nlen = if purpose == "local" { nonce_len(B::VER) } else { 0 };
    let msg_lens: Vec<usize> = if cfg.thorough { vec![0, 1, 15, 16, 17, 31, 33, 47, 64, 100, 129, 300] } else { vec![0, 17, 40 + rng.below(30)] };
    let modes = [DecodeMode::Panic, DecodeMode::Ok, DecodeMode::Fail];
    let mut mi = 0usize;
    let mut next_mode = |tampered: bool| -> (DecodeMode, bool) {
        mi += 1;
        if tampered { (modes[mi % 3], mi % 2 == 0) } else { (DecodeMode::Ok, true) }
    };
    for (si, &mlen) in msg_lens.iter().enumerate() {
        for variant in 0..3usize {
            // variant 0: footer + (assertion if supported); variant 1: no footer, no assertion;
            // variant 2 (one message length only): a long footer and assertion, so that every buffer size a
            // streaming pre-authentication writer might use is crossed
            if variant == 2 && si != 1 {
                continue;
            }
            let footer: Vec<u8> = match variant { 0 => rng.bytes(5 + si), 2 => rng.bytes(150), _ => vec![] };
            let aad: Vec<u8> = if !has_aad { vec![] } else { match variant { 0 => rng.bytes(4 + si), 2 => rng.bytes(140), _ => vec![] } };
            rec.emit(json!({"ev":"Reset","scenario":format!("tamper-{}-{}-{}-{}", B::NAME, purpose, mlen, variant)}));
            learn(rec, purpose, km);
            learn(rec, purpose, other);
            let claims = rng.bytes(mlen);
            let Some(s) = seal_lib::<B, P>(rec, st, &km.seal, &claims, &footer, &aad, (false, false), None) else { continue };
            // a second honest token of the same key for splicing
            let claims2 = rng.bytes(mlen);
            let Some(s2) = seal_lib::<B, P>(rec, st, &km.seal, &claims2, &footer, &aad, (false, false), None) else { continue };
            let p = &s.payload;
            let f = &s.footer;
            let mut go = |rec: &mut Recorder, st: &mut Stats, text: String, key: &[u8], a: &[u8], tampered: bool, note: Value| {
                // byte-identical to an honest token (e.g. a splice of two tokens that sign the same bytes): not a tamper
                let tampered = tampered && text != s.text && text != s2.text;
                let (m, v) = next_mode(tampered);
                present::<B, P>(rec, st, &text, key, a, m, v, note);
            };
            // 0. untampered, in all three outcomes (release, decoder fails, validator rejects), and with a trailing '.'
            present::<B, P>(rec, st, &s.text, &km.unseal, &aad, DecodeMode::Ok, true, json!({"cls":"identity"}));
            present::<B, P>(rec, st, &s.text, &km.unseal, &aad, DecodeMode::Fail, true, json!({"cls":"identity-decoder-fails"}));
            present::<B, P>(rec, st, &s.text, &km.unseal, &aad, DecodeMode::Ok, false, json!({"cls":"identity-validator-rejects"}));
            if f.is_empty() {
                present::<B, P>(rec, st, &format!("{}.", s.text), &km.unseal, &aad, DecodeMode::Ok, true, json!({"cls":"identity-trailing-dot"}));
            }
            // 1. bit flips in the payload
            let boundary = |i: usize| -> bool {
                i < 2 || i + 2 >= p.len() || (nlen > 0 && i + 2 >= nlen && i < nlen + 2) || (p.len() >= tlen && i + 2 >= p.len() - tlen && i < p.len() - tlen + 2)
            };
            for i in 0..p.len() {
                let bits: Vec<u8> = if cfg.thorough || boundary(i) { (0..8).collect() } else { vec![rng.below(8) as u8] };
                for b in bits {
                    let mut q = p.clone();
                    q[i] ^= 1 << b;
                    go(rec, st, token_string::<B, P>(&q, f), &km.unseal, &aad, true, json!({"cls":"bitflip","field":"payload","pos":i,"bit":b}));
                }
            }
            // 1b. the same bit flipped in two bytes of the tag / signature, and the tag bytes permuted
            if p.len() >= tlen && tlen >= 2 {
                let t0 = p.len() - tlen;
                for b in 0..8u8 {
                    for (i, j) in [(0usize, 1usize), (0, tlen - 1), (tlen / 2, tlen / 2 + 1)] {
                        if i == j || j >= tlen {
                            continue;
                        }
                        let mut q = p.clone();
                        q[t0 + i] ^= 1 << b;
                        q[t0 + j] ^= 1 << b;
                        go(rec, st, token_string::<B, P>(&q, f), &km.unseal, &aad, true, json!({"cls":"tag-two-bytes-same-bit","bit":b,"i":i,"j":j}));
                    }
                }
                let mut q = p.clone();
                q[t0..].reverse();
                go(rec, st, token_string::<B, P>(&q, f), &km.unseal, &aad, true, json!({"cls":"tag-permuted","how":"reversed"}));
                // 1c. degenerate tags / signatures: all of it, or one half, blanked with zeros or ones (an ECDSA r or s of 0 or above the
                // group order, an Ed25519 point / scalar that does not decode, an RSA signature above the modulus)
                for (how, range, fill) in [("all-zero", 0..tlen, 0u8), ("all-ones", 0..tlen, 0xff), ("first-half-zero", 0..tlen / 2, 0), ("second-half-zero", tlen / 2..tlen, 0),
                                           ("first-half-ones", 0..tlen / 2, 0xff), ("second-half-ones", tlen / 2..tlen, 0xff)] {
                    let mut q = p.clone();
                    q[t0..][range].fill(fill);
                    go(rec, st, token_string::<B, P>(&q, f), &km.unseal, &aad, true, json!({"cls":"tag-degenerate","how":how}));
                }
                let mut q = p.clone();
                q[t0..].rotate_left(1);
                go(rec, st, token_string::<B, P>(&q, f), &km.unseal, &aad, true, json!({"cls":"tag-permuted","how":"rotated"}));
                let mut q = p.clone();
                q[t0..].swap(0, 1);
                go(rec, st, token_string::<B, P>(&q, f), &km.unseal, &aad, true, json!({"cls":"tag-permuted","how":"swapped"}));
            }
            // 2. bit flips in the footer
            for i in 0..f.len() {
                for b in 0..8u8 {
                    let mut g = f.clone();
                    g[i] ^= 1 << b;
                    go(rec, st, token_string::<B, P>(p, &g), &km.unseal, &aad, true, json!({"cls":"bitflip","field":"footer","pos":i,"bit":b}));
                }
            }
            // 3. truncations and extensions
            let trunc: Vec<usize> = if p.len() <= 400 || cfg.thorough { (0..p.len()).collect() } else { (0..p.len()).step_by(7).collect() };
            for n in trunc {
                go(rec, st, token_string::<B, P>(&p[..n], f), &km.unseal, &aad, true, json!({"cls":"truncate","to":n}));
                if n < 8 || n % 16 == 0 {
                    go(rec, st, token_string::<B, P>(&p[p.len() - n..], f), &km.unseal, &aad, true, json!({"cls":"truncate-front","to":n}));
                }
            }
            // Ed25519 (RFC 8032 5.1.7): the scalar S of a signature must be below the group order L; S + k*L describes the same
            // group element and a verifier that reduces it would accept a second spelling of the signature
            if purpose == "public" && (B::VER == 2 || B::VER == 4) && p.len() >= 64 {
                const L: [u8; 32] = [0xed, 0xd3, 0xf5, 0x5c, 0x1a, 0x63, 0x12, 0x58, 0xd6, 0x9c, 0xf7, 0xa2, 0xde, 0xf9, 0xde, 0x14,
                                     0, 0, 0, 0, 0, 0, 0, 0, 0, 0, 0, 0, 0, 0, 0, 0x10];
                let mut q = p.clone();
                let at = q.len() - 32;
                for k in 1..=14u32 {
                    let mut carry = 0u16;
                    for i in 0..32 {
                        let v = q[at + i] as u16 + L[i] as u16 + carry;
                        q[at + i] = v as u8;
                        carry = v >> 8;
                    }
                    if carry != 0 {
                        break;
                    }
                    go(rec, st, token_string::<B, P>(&q, f), &km.unseal, &aad, true, json!({"cls":"signature-scalar-plus-group-order","k":k}));
                }
            }
            // text-level extensions: further '.'-separated sections after the token
            for tail in [".", "..", ".AAAA", "..AAAA", ".x", ". ", ".\u{0}"] {
                let text = format!("{}{}", s.text, tail);
                // a token without footer followed by a single '.' is the same token with an explicit empty footer
                let same = f.is_empty() && tail == ".";
                go(rec, st, text, &km.unseal, &aad, !same, json!({"cls":"extend-text","tail":tail}));
            }
            for k in 1..=3usize {
                let mut q = p.clone();
                q.extend(std::iter::repeat_n(0u8, k));
                go(rec, st, token_string::<B, P>(&q, f), &km.unseal, &aad, true, json!({"cls":"extend","k":k,"at":"end"}));
                let mut q = vec![0u8; k];
                q.extend_from_slice(p);
                go(rec, st, token_string::<B, P>(&q, f), &km.unseal, &aad, true, json!({"cls":"extend","k":k,"at":"front"}));
                if p.len() >= tlen {
                    let cut = p.len() - tlen;
                    let mut q = p[..cut].to_vec();
                    q.extend(std::iter::repeat_n(0u8, k));
                    q.extend_from_slice(&p[cut..]);
                    go(rec, st, token_string::<B, P>(&q, f), &km.unseal, &aad, true, json!({"cls":"insert","k":k,"at":"before-tag"}));
                }
            }
            // 4. boundary shifts between message / footer / assertion
            if p.len() >= tlen {
                let body_end = p.len() - tlen;
                for k in 1..=3usize {
                    if body_end >= nlen + k {
                        // last k bytes of the message (ciphertext) move to the front of the footer
                        let mut q = p[..body_end - k].to_vec();
                        q.extend_from_slice(&p[body_end..]);
                        let mut g = p[body_end - k..body_end].to_vec();
                        g.extend_from_slice(f);
                        go(rec, st, token_string::<B, P>(&q, &g), &km.unseal, &aad, true, json!({"cls":"shift","from":"message","to":"footer","k":k}));
                    }
                    if f.len() >= k {
                        let mut q = p[..body_end].to_vec();
                        q.extend_from_slice(&f[..k]);
                        q.extend_from_slice(&p[body_end..]);
                        go(rec, st, token_string::<B, P>(&q, &f[k..]), &km.unseal, &aad, true, json!({"cls":"shift","from":"footer","to":"message","k":k}));
                        // footer tail moves to the front of the assertion
                        let mut a = f[f.len() - k..].to_vec();
                        a.extend_from_slice(&aad);
                        go(rec, st, token_string::<B, P>(p, &f[..f.len() - k]), &km.unseal, &a, true, json!({"cls":"shift","from":"footer","to":"assertion","k":k}));
                    }
                    if aad.len() >= k {
                        let mut g = f.clone();
                        g.extend_from_slice(&aad[..k]);
                        go(rec, st, token_string::<B, P>(p, &g), &km.unseal, &aad[k..], true, json!({"cls":"shift","from":"assertion","to":"footer","k":k}));
                    }
                }
            }
            // 5. footer added / removed / replaced; assertion added / removed / replaced
            if f.is_empty() {
                go(rec, st, token_string::<B, P>(p, b"x"), &km.unseal, &aad, true, json!({"cls":"footer-added"}));
                go(rec, st, token_string::<B, P>(p, &[0]), &km.unseal, &aad, true, json!({"cls":"footer-added-nul"}));
            } else {
                go(rec, st, token_string::<B, P>(p, &[]), &km.unseal, &aad, true, json!({"cls":"footer-removed"}));
                go(rec, st, token_string::<B, P>(p, &rng.bytes(f.len())), &km.unseal, &aad, true, json!({"cls":"footer-replaced"}));
                let mut g = f.clone();
                g.push(0);
                go(rec, st, token_string::<B, P>(p, &g), &km.unseal, &aad, true, json!({"cls":"footer-extended"}));
            }
            if aad.is_empty() {
                go(rec, st, s.text.clone(), &km.unseal, b"x", true, json!({"cls":"assertion-added"}));
                go(rec, st, s.text.clone(), &km.unseal, &[0], true, json!({"cls":"assertion-added-nul"}));
            } else {
                go(rec, st, s.text.clone(), &km.unseal, &[], true, json!({"cls":"assertion-removed"}));
                go(rec, st, s.text.clone(), &km.unseal, &rng.bytes(aad.len()), true, json!({"cls":"assertion-replaced"}));
                let mut a = aad.clone();
                a.push(0);
                go(rec, st, s.text.clone(), &km.unseal, &a, true, json!({"cls":"assertion-extended"}));
                go(rec, st, s.text.clone(), &km.unseal, &aad[..aad.len() - 1], true, json!({"cls":"assertion-truncated"}));
            }
            // 6. other keys
            go(rec, st, s.text.clone(), &other.unseal, &aad, true, json!({"cls":"other-key"}));
            if purpose == "local" {
                for bit in [0usize, 7, 128, 255] {
                    let mut k2 = km.unseal.clone();
                    k2[bit / 8] ^= 1 << (bit % 8);
                    go(rec, st, s.text.clone(), &k2, &aad, true, json!({"cls":"key-bitflip","bit":bit}));
                }
            }
            // 7. splices of two honest tokens of the same key
            let p2 = &s2.payload;
            if p.len() == p2.len() && p.len() >= tlen {
                let cut = p.len() - tlen;
                let mut q = p[..cut].to_vec();
                q.extend_from_slice(&p2[cut..]);
                go(rec, st, token_string::<B, P>(&q, f), &km.unseal, &aad, true, json!({"cls":"splice","what":"body1+tag2"}));
                if nlen > 0 {
                    let mut q = p2[..nlen].to_vec();
                    q.extend_from_slice(&p[nlen..]);
                    go(rec, st, token_string::<B, P>(&q, f), &km.unseal, &aad, true, json!({"cls":"splice","what":"nonce2+rest1"}));
                }
            }
            // 8. bodies shorter than any valid token, with every value of the final byte
            for b in 0..=255u8 {
                let mut q = p[..nlen].to_vec();
                q.push(b);
                go(rec, st, token_string::<B, P>(&q, f), &km.unseal, &aad, true, json!({"cls":"short-all-values","len":q.len(),"last":b}));
                if nlen > 0 {
                    go(rec, st, token_string::<B, P>(&[b], f), &km.unseal, &aad, true, json!({"cls":"short-all-values","len":1,"last":b}));
                }
            }
            // 9. a footer type whose decoder is not injective: a re-spelled footer is a different wire footer
            if variant == 0 {
                let nf = b"{\"kid\":\"key-1\"}".to_vec();
                if let Some(sn) = seal_lib_f::<B, P, NormFooter>(rec, st, &km.seal, &claims, &nf, &aad, (false, false), None) {
                    present_f::<B, P, NormFooter>(rec, st, &sn.text, &km.unseal, &aad, DecodeMode::Ok, true, json!({"cls":"identity"}));
                    for k in 1..=2usize {
                        let mut g = nf.clone();
                        g.extend(std::iter::repeat_n(b' ', k));
                        let (m, v) = next_mode(true);
                        present_f::<B, P, NormFooter>(rec, st, &token_string::<B, P>(&sn.payload, &g), &km.unseal, &aad, m, v, json!({"cls":"footer-respelled","k":k}));
                    }
                }
            }
            // 10. header relabel: the same payload/footer under every other version and purpose
            relabel::<B, P>(rec, st, &s, km, &aad, &mut rng);
            // 11. after all those rejections the honest tokens are still accepted (the long-lived key objects were not
            // altered; nothing a failed call left behind leaks into the next one)
            present::<B, P>(rec, st, &s.text, &km.unseal, &aad, DecodeMode::Ok, true, json!({"cls":"honest-after-failures"}));
            present::<B, P>(rec, st, &s2.text, &km.unseal, &aad, DecodeMode::Ok, true, json!({"cls":"honest-after-failures"}));
        }
    }
    // (C12) the KIND of error a failing token gets does not depend on what its unauthenticated payload bytes would decode to: two tokens
    // that differ only in their claims (plain ASCII JSON / bytes that are not UTF-8 / empty / all zero) fail the same way under the
    // same corruption
    {
        rec.emit(json!({"ev":"Reset","scenario":format!("tamper-errkind-{}-{}", B::NAME, purpose)}));
        let kind_of = |text: &str, key: &[u8], aad: &[u8]| -> String {
            let Ok(k) = key_from_bytes::<B::V, P>(key) else { return "key-does-not-parse".into() };
            match catch_unwind(AssertUnwindSafe(|| SealedToken::<B::V, P, Raw, Vec<u8>>::from_str(text).and_then(|t| t.unseal(&k, aad, &paseto_core::validation::NoValidation::dangerous_no_validation())))) {
                Ok(Ok(_)) => "accepted".into(),
                Ok(Err(e)) => errname(&e).to_string(),
                Err(_) => "panic".into(),
            }
        };
        let seal_raw = |claims: &[u8], footer: &[u8], aad: &[u8]| -> Option<String> {
            let key = key_from_bytes::<B::V, P::SealingKey>(&km.seal).ok()?;
            UnsealedToken::<B::V, P, Raw>::new(Raw(claims.to_vec())).with_footer(footer.to_vec()).seal(&key, aad).ok().map(|t| t.to_string())
        };
        let aad: Vec<u8> = if has_aad { b"ctx".to_vec() } else { vec![] };
        let footer = b"kid-1".to_vec();
        let payloads: [&[u8]; 5] = [b"{\"sub\":\"alice\",\"n\":1}", &[0xff, 0xfe, 0x80, 0x81, 0xc3, 0x28, 0xa0, 0xa1, 0xf0, 0x28, 0x8c, 0xbc, 0xff, 0xff, 0x00, 0xc0, 0xaf], b"", &[0u8; 40], "{\"k\":\"\u{e9}\u{20ac}\"} \u{1f600}".as_bytes()];
        let texts: Vec<Option<String>> = payloads.iter().map(|p| seal_raw(p, &footer, &aad)).collect();
        let corrupt = |t: &str, how: usize| -> (String, Vec<u8>, Vec<u8>) {
            let (body, _f) = t.rsplit_once('.').unwrap_or((t, ""));
            match how {
                0 => (t.to_string(), other.unseal.clone(), aad.clone()),                                   // another key
                1 => (format!("{body}.{}", crate::b64::enc(b"kid-2")), km.unseal.clone(), aad.clone()),    // footer exchanged
                2 => (body.to_string(), km.unseal.clone(), aad.clone()),                                   // footer removed
                3 => (t.to_string(), km.unseal.clone(), b"other".to_vec()),                                // another assertion
                _ => {
                    // last byte of the body flipped
                    let hdr = header::<B, P>();
                    let (mut p, f) = split_token(t, hdr.len()).unwrap_or_default();
                    if let Some(x) = p.last_mut() {
                        *x ^= 1;
                    }
                    (token_string::<B, P>(&p, &f), km.unseal.clone(), aad.clone())
                }
            }
        };
        if let Some(Some(base)) = texts.first() {
            for how in 0..5 {
                if how == 3 && !has_aad {
                    continue;
                }
                let (t0, k0, a0) = corrupt(base, how);
                let want = kind_of(&t0, &k0, &a0);
                for (pi, t) in texts.iter().enumerate().skip(1) {
                    let Some(t) = t else { continue };
                    let (t1, k1, a1) = corrupt(t, how);
                    let got = kind_of(&t1, &k1, &a1);
                    let (l, r) = (rec.intern(got.as_bytes()), rec.intern(want.as_bytes()));
                    rec.emit(json!({"ev":"Law","name":"error-kind-independent-of-unauthenticated-payload","lhs":l,"rhs":r,"be":B::NAME,"purpose":purpose,"corruption":how,"payload":pi}));
                }
            }
        }
    }
    // the payload encoding is part of the header (vN.purpose. / vNc.purpose.): a token sealed as one encoding and
    // presented as the other (header rewritten, everything else byte-identical) must fail authentication, both ways
    for (vi, mlen) in [0usize, 23, 80].into_iter().enumerate() {
        let footer: Vec<u8> = if vi == 1 { vec![] } else { rng.bytes(7) };
        let aad: Vec<u8> = if has_aad && vi != 1 { rng.bytes(5) } else { vec![] };
        rec.emit(json!({"ev":"Reset","scenario":format!("tamper-encoding-{}-{}-{}", B::NAME, purpose, mlen)}));
        learn(rec, purpose, km);
        let claims = rng.bytes(mlen);
        let (hs, hc) = (header_c::<B, P, false>(), header_c::<B, P, true>());
        if let Some(s) = seal_lib_fc::<B, P, SpyFooter, true>(rec, st, &km.seal, &claims, &footer, &aad, (false, false), None) {
            let stripped = format!("{}{}", hs, &s.text[hc.len()..]);
            for (k, m) in [DecodeMode::Panic, DecodeMode::Ok, DecodeMode::Fail].into_iter().enumerate() {
                present_fc::<B, P, SpyFooter, false>(rec, st, &stripped, &km.unseal, &aad, m, k % 2 == 0, json!({"cls":"encoding-relabel","from":"c","to":""}));
            }
            // unmodified, to the parser of the other encoding: not even well-formed
            present_fc::<B, P, SpyFooter, false>(rec, st, &s.text, &km.unseal, &aad, DecodeMode::Panic, true, json!({"cls":"encoding-foreign","from":"c","to":""}));
            present_fc::<B, P, SpyFooter, true>(rec, st, &s.text, &km.unseal, &aad, DecodeMode::Ok, true, json!({"cls":"honest"}));
        }
        if let Some(s) = seal_lib_fc::<B, P, SpyFooter, false>(rec, st, &km.seal, &claims, &footer, &aad, (false, false), None) {
            let added = format!("{}{}", hc, &s.text[hs.len()..]);
            for (k, m) in [DecodeMode::Panic, DecodeMode::Ok, DecodeMode::Fail].into_iter().enumerate() {
                present_fc::<B, P, SpyFooter, true>(rec, st, &added, &km.unseal, &aad, m, k % 2 == 0, json!({"cls":"encoding-relabel","from":"","to":"c"}));
            }
            present_fc::<B, P, SpyFooter, true>(rec, st, &s.text, &km.unseal, &aad, DecodeMode::Panic, true, json!({"cls":"encoding-foreign","from":"","to":"c"}));
        }
    }
    // length sweep: the END of every piece is authenticated, over total sizes (message + footer + assertion) that cross whatever
    // buffer a pre-authentication writer might use: every (third) size up to 140, then a ladder fine enough to put each of the three
    // shapes (bulk in the message / in the footer / in the assertion) into any window of 40 sizes, up to 1300
    let slow = B::VER == 1 && purpose == "public";
    let sizes: Vec<usize> = (0..=140usize).step_by(if cfg.thorough { 1 } else { 3 }).chain((141..=1300usize).step_by(if cfg.thorough { 5 } else { 11 })).collect();
    for (k, &total) in sizes.iter().enumerate() {
        if slow && k % 4 != 0 {
            continue;
        }
        if k % 16 == 0 || slow {
            rec.emit(json!({"ev":"Reset","scenario":format!("tamper-sweep-{}-{}-{}", B::NAME, purpose, total)}));
            learn(rec, purpose, km);
        }
        let shape = if slow { (k / 4) % 3 } else { k % 3 };
        let small = 1 + k % 4;
        let (ml, fl, al) = match shape {
            0 => (total, 0, 0),
            1 => (small.min(total), total - small.min(total), 0),
            _ if has_aad => (small.min(total), 0, total - small.min(total)),
            _ => (total / 2, total - total / 2, 0),
        };
        let (claims, footer, aad) = (rng.bytes(ml), rng.bytes(fl), rng.bytes(al));
        let Some(s) = seal_lib::<B, P>(rec, st, &km.seal, &claims, &footer, &aad, (false, false), None) else { continue };
        present::<B, P>(rec, st, &s.text, &km.unseal, &aad, DecodeMode::Ok, true, json!({"cls":"identity","sweep":total}));
        let (p, f) = (&s.payload, &s.footer);
        // the last byte of the message (public: in the clear before the signature; local: the last ciphertext byte before the tag)
        if p.len() > tlen + nlen {
            let mut q = p.clone();
            let at = p.len() - tlen - 1;
            q[at] ^= 1 << (k % 8);
            let (m, v) = next_mode(true);
            present::<B, P>(rec, st, &token_string::<B, P>(&q, f), &km.unseal, &aad, m, v, json!({"cls":"bitflip","field":"message-end","sweep":total}));
        }
        if !f.is_empty() {
            let mut g = f.clone();
            let at = g.len() - 1;
            g[at] ^= 1 << (k % 8);
            let (m, v) = next_mode(true);
            present::<B, P>(rec, st, &token_string::<B, P>(p, &g), &km.unseal, &aad, m, v, json!({"cls":"bitflip","field":"footer-end","sweep":total}));
        }
        if !aad.is_empty() {
            let mut a2 = aad.clone();
            let at = a2.len() - 1;
            a2[at] ^= 1 << (k % 8);
            let (m, v) = next_mode(true);
            present::<B, P>(rec, st, &s.text, &km.unseal, &a2, m, v, json!({"cls":"assertion-replaced","field":"assertion-end","sweep":total}));
        }
    }
    // the same for tokens of a payload encoding with a suffix (header one byte longer): every footer length up to 140, the last
    // footer byte altered
    for fl in 1..=140usize {
        if slow && fl % 8 != 7 {
            continue;
        }
        if fl % 16 == 1 || slow {
            rec.emit(json!({"ev":"Reset","scenario":format!("tamper-sweep-suffix-{}-{}-{}", B::NAME, purpose, fl)}));
            learn(rec, purpose, km);
        }
        let (claims, footer) = (rng.bytes(1 + fl % 5), rng.bytes(fl));
        let aad: Vec<u8> = if has_aad && fl % 2 == 0 { rng.bytes(3) } else { vec![] };
        let Some(s) = seal_lib_fc::<B, P, SpyFooter, true>(rec, st, &km.seal, &claims, &footer, &aad, (false, false), None) else { continue };
        present_fc::<B, P, SpyFooter, true>(rec, st, &s.text, &km.unseal, &aad, DecodeMode::Ok, true, json!({"cls":"identity","sweep_suffix":fl}));
        let mut g = s.footer.clone();
        g[fl - 1] ^= 1 << (fl % 8);
        let hc = header_c::<B, P, true>();
        let text = format!("{hc}{}.{}", crate::b64::enc(&s.payload), crate::b64::enc(&g));
        let (m, v) = next_mode(true);
        present_fc::<B, P, SpyFooter, true>(rec, st, &text, &km.unseal, &aad, m, v, json!({"cls":"bitflip","field":"footer-end","sweep_suffix":fl}));
    }
}

fn relabel<B: Backend, P: Purpose>(rec: &mut Recorder, st: &mut Stats, s: &Sealed, km: &KeyMat, aad: &[u8], rng: &mut Prng)
where
    B::V: SealingVersion<P>,
{
    fn as_backend<B2: Backend>(rec: &mut Recorder, st: &mut Stats, payload: &[u8], footer: &[u8], key_local: &[u8], key_public: Option<&[u8]>, aad: &[u8], from: &str) {
        // as a local token of B2 with the same 32 key bytes (local keys have the same shape in every version)
        let t = token_string::<B2, Local>(payload, footer);
        present::<B2, Local>(rec, st, &t, key_local, aad, DecodeMode::Panic, true, json!({"cls":"relabel","from":from,"to":format!("{}.local", B2::NAME)}));
        // as a public token of B2 with a public key of B2
        let pk = match key_public {
            Some(k) if key_from_bytes::<B2::V, Public>(k).is_ok() => k.to_vec(),
            _ => {
                let mut r = Prng::new(1, "relabel");
                keys::signing_pairs::<B2>(&mut r, 1)[0].public.clone()
            }
        };
        let t = token_string::<B2, Public>(payload, footer);
        present::<B2, Public>(rec, st, &t, &pk, aad, DecodeMode::Panic, true, json!({"cls":"relabel","from":from,"to":format!("{}.public", B2::NAME)}));
    }
    let purpose = purpose_name::<P>();
    let from = format!("{}.{}", B::NAME, purpose);
    let key_local: Vec<u8> = if purpose == "local" { km.unseal.clone() } else { rng.bytes(32) };
    let key_public: Option<&[u8]> = if purpose == "public" { Some(&km.unseal) } else { None };
    for be in ALL {
        // the token's own (version, purpose) is the identity, exercised elsewhere; siblings of the same
        // version and purpose accept it by design (C03) and are exercised by the cross-backend driver
        macro_rules! call {
            ($t:ty) => {{
                if <$t as Backend>::VER == B::VER {
                    // same version: only the other purpose is a relabel
                    if purpose == "local" {
                        let pk = keys::signing_pairs::<$t>(&mut Prng::new(2, "relabel"), 1)[0].public.clone();
                        let t = token_string::<$t, Public>(&s.payload, &s.footer);
                        present::<$t, Public>(rec, st, &t, &pk, aad, DecodeMode::Panic, true, json!({"cls":"relabel","from":from,"to":format!("{}.public", <$t>::NAME)}));
                    } else {
                        let t = token_string::<$t, Local>(&s.payload, &s.footer);
                        present::<$t, Local>(rec, st, &t, &key_local, aad, DecodeMode::Panic, true, json!({"cls":"relabel","from":from,"to":format!("{}.local", <$t>::NAME)}));
                    }
                } else {
                    as_backend::<$t>(rec, st, &s.payload, &s.footer, &key_local, key_public, aad, &from);
                }
            }};
        }
        match be {
            "v1" => call!(V1),
            "v2" => call!(V2),
            "v3" => call!(V3),
            "v3lc" => call!(V3Lc),
            "v4" => call!(V4),
            _ => call!(V4Na),
        }
    }
}

/// C16 (token part) + C01: failure injection into encoders and into each draw of the getrandom-0.3 backends.
pub fn faults<B: Backend, P: Purpose>(rec: &mut Recorder, st: &mut Stats, cfg: &Cfg)
where
    B::V: SealingVersion<P>,
{
    let purpose = purpose_name::<P>();
    let mut rng = Prng::new(cfg.seed, &format!("c16-{}-{}", B::NAME, purpose));
    let kms = key_mats::<B, P>(rec, &mut rng, 1);
    let km = &kms[kms.len() - 1];
    for (i, &len) in [0usize, 1, 33, 200].iter().enumerate() {
        rec.emit(json!({"ev":"Reset","scenario":format!("fault-{}-{}-{}", B::NAME, purpose, len)}));
        learn(rec, purpose, km);
        let claims = rng.bytes(len);
        let footer = if i % 2 == 0 { vec![] } else { rng.bytes(9) };
        // encoder failures
        seal_lib::<B, P>(rec, st, &km.seal, &claims, &footer, &[], (true, false), None);
        seal_lib::<B, P>(rec, st, &km.seal, &claims, &footer, &[], (false, true), None);
        seal_lib::<B, P>(rec, st, &km.seal, &claims, &footer, &[], (true, true), None);
        if B::GETRANDOM03 {
            // learn the number of draws, then fail each index (cleanly, and after a partial fill)
            rng::reset(rng::Source::Os, true, None, false);
            let key: Key<B::V, P::SealingKey> = key_from_bytes(&km.seal).unwrap();
            let _ = UnsealedToken::<B::V, P, Raw>::new(Raw(claims.clone())).with_footer(footer.clone()).seal(&key, &[]);
            let n = rng::take_log().len();
            rng::passthrough();
            spy_take();
            for idx in 0..n {
                seal_lib::<B, P>(rec, st, &km.seal, &claims, &footer, &[], (false, false), Some((idx, false)));
                seal_lib::<B, P>(rec, st, &km.seal, &claims, &footer, &[], (false, false), Some((idx, true)));
                // an outage: this draw and every later one fail (code that tries again must still give up)
                rng::outage_next();
                seal_lib::<B, P>(rec, st, &km.seal, &claims, &footer, &[], (false, false), Some((idx, false)));
            }
        }
        // and once more without faults: the key still works
        if let Some(s) = seal_lib::<B, P>(rec, st, &km.seal, &claims, &footer, &[], (false, false), None) {
            present::<B, P>(rec, st, &s.text, &km.unseal, &[], DecodeMode::Ok, true, json!({"cls":"honest-after-faults"}));
        }
    }
}

/// C16: N consecutive seals with identical key, message, footer: every embedded nonce must be new.
pub fn fresh<B: Backend, P: Purpose>(rec: &mut Recorder, st: &mut Stats, cfg: &Cfg)
where
    B::V: SealingVersion<P>,
{
    let purpose = purpose_name::<P>();
    if purpose != "local" {
        return; // signatures embed no nonce (deterministic schemes legitimately repeat)
    }
    let mut rng = Prng::new(cfg.seed, &format!("c16f-{}-{}", B::NAME, purpose));
    let kms = key_mats::<B, P>(rec, &mut rng, 1);
    let km = &kms[0];
    // (the trace validator carries the set of values seen so far in every state: its cost grows with the square of n)
    let n = if cfg.thorough { 4000 } else { 600 };
    let claims = b"{\"same\":\"message\"}".to_vec();
    rec.emit(json!({"ev":"Reset","scenario":format!("fresh-{}-{}", B::NAME, purpose)}));
    for _ in 0..n {
        seal_lib::<B, P>(rec, st, &km.seal, &claims, &[], &[], (false, false), None);
    }
    // the same on freshly started threads, one after the other, in the same scenario: whatever per-thread or per-process state a
    // nonce generator keeps, no value may come back (thread-local counters restart, process-wide prefixes are shared)
    let m = if cfg.thorough { 500 } else { 60 };
    for _ in 0..3 {
        std::thread::scope(|sc| {
            sc.spawn(|| {
                for _ in 0..m {
                    seal_lib::<B, P>(rec, st, &km.seal, &claims, &[], &[], (false, false), None);
                }
            });
        });
    }
}

pub fn run(rec: &mut Recorder, cfg: &Cfg) -> Stats {
    let mut st = Stats { seals: 0, presentations: 0, leading_zero_sigs: 0, signatures: 0 };
    fn both<B: Backend>(rec: &mut Recorder, st: &mut Stats, cfg: &Cfg) {
        match cfg.mode.as_str() {
            "roundtrip" => {
                roundtrip::<B, Local>(rec, st, cfg);
                roundtrip::<B, Public>(rec, st, cfg);
            }
            "tamper" => {
                tamper::<B, Local>(rec, st, cfg);
                tamper::<B, Public>(rec, st, cfg);
            }
            "faults" => {
                faults::<B, Local>(rec, st, cfg);
                faults::<B, Public>(rec, st, cfg);
            }
            "fresh" => fresh::<B, Local>(rec, st, cfg),
            m => panic!("unknown mode {m}"),
        }
    }
    for be in &cfg.backends {
        crate::with_backend!(be.as_str(), both(rec, &mut st, cfg));
    }
    st
}

#[allow(dead_code)]
fn _unused<V: HasKey<K>, K: KeyType>() {}
