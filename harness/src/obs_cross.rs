//! C10: every valid serialised value of every (backend, kind), offered to every parser of every backend.
use crate::backends::*;
use crate::drive_paserk as dp;
use crate::keys;
use crate::payload::Raw;
use crate::prng::Prng;
use crate::rec::{Recorder, codes};
use paseto_core::key::Key;
use paseto_core::paserk::{KeyId, KeyText, PasswordWrappedKey, PieWrappedKey, SealedKey};
use paseto_core::tokens::{SealedToken, UnsealedToken};
use paseto_core::version::{Local, PkePublic, PkeSecret, Public, Secret};
use serde_json::json;
use std::panic::{AssertUnwindSafe, catch_unwind};
use std::str::FromStr;

pub struct Item {
    pub be: &'static str,
    pub ver: u32,
    pub kind: &'static str,
    pub text: String,
}

pub fn catalogue_pub<B: Backend>(rng: &mut Prng, out: &mut Vec<Item>) {
    catalogue::<B>(rng, out)
}

fn catalogue<B: Backend>(rng: &mut Prng, out: &mut Vec<Item>) {
    let mut push = |kind: &'static str, text: String| out.push(Item { be: B::NAME, ver: B::VER, kind, text });
    let lk = LocalKey::<B>::random().unwrap();
    let pair = &keys::signing_pairs::<B>(rng, 1)[0];
    let sk: SecretKey<B> = key_from_bytes(&pair.secret).unwrap();
    let pk = sk.public_key();
    let rcp = &keys::pke_pairs::<B>(1)[0];
    let ppk: PkePub<B> = key_from_bytes(&rcp.public).unwrap();
    let psk: PkeSec<B> = key_from_bytes(&rcp.secret).unwrap();
    for (f, a) in [(vec![], vec![]), (b"footer".to_vec(), vec![])] {
        let t = UnsealedToken::<B::V, Local, Raw>::new(Raw(rng.bytes(20))).with_footer(f.clone()).seal(&lk, &a).unwrap();
        push("token.local", t.to_string());
        let t = UnsealedToken::<B::V, Public, Raw>::new(Raw(rng.bytes(20))).with_footer(f).seal(&sk, &a).unwrap();
        push("token.public", t.to_string());
    }
    push("key.local", lk.expose_key().to_string());
    push("key.public", pk.to_string());
    push("key.secret", sk.expose_key().to_string());
    push("key.pkepublic", ppk.expose_key().to_string());
    push("key.pkesecret", psk.expose_key().to_string());
    if B::VER == 1 {
        // RSA keys may also be given as PEM text inside the PASERK: the kind (signing vs key-sealing) is then still decided by
        // the modulus size alone
        for (kind, file) in [("key.public", "rsa2048-0.pub"), ("key.secret", "rsa2048-0.sec"), ("key.pkepublic", "rsa4096-0.pub"), ("key.pkesecret", "rsa4096-0.sec")] {
            if let Ok(pem) = std::fs::read(format!("{}/fixtures/{file}.pem", env!("CARGO_MANIFEST_DIR"))) {
                let label = if kind.ends_with("public") { "public" } else { "secret" };
                push(kind, format!("k1.{label}.{}", crate::b64::enc(&pem)));
            }
        }
    }
    push("id.lid", lk.id().to_string());
    push("id.pid", pk.id().to_string());
    push("id.sid", sk.id().to_string());
    push("id.pkepid", ppk.id().to_string());
    push("id.pkesid", psk.id().to_string());
    let wk = LocalKey::<B>::random().unwrap();
    push("pie.local", lk.clone().wrap_pie(&wk).unwrap().to_string());
    push("pie.secret", sk.clone().wrap_pie(&wk).unwrap().to_string());
    let cost = if B::VER == 1 || B::VER == 3 { (2u64, 0, 1) } else { (8 * 1024, 1, 1) };
    push("pw.local", lk.clone().password_wrap_with_params(b"pw", &dp::pw_params::<B>(cost)).unwrap().to_string());
    push("pw.secret", sk.clone().password_wrap_with_params(b"pw", &dp::pw_params::<B>(cost)).unwrap().to_string());
    push("seal", lk.clone().seal(&ppk).unwrap().to_string());
}

fn try_parse<T: FromStr>(s: &str) -> &'static str {
    match catch_unwind(AssertUnwindSafe(|| T::from_str(s).is_ok())) {
        Ok(true) => "ok",
        Ok(false) => "err",
        Err(_) => "panic",
    }
}

fn try_cbor<T: serde::de::DeserializeOwned>(doc: &[u8]) -> &'static str {
    // (ciborium's default scratch buffer is 4 KiB and longer strings are refused by the format library itself: RSA-4096 key texts)
    match catch_unwind(AssertUnwindSafe(|| ciborium::de::from_reader_with_buffer::<T, _>(doc, &mut vec![0u8; 1 << 16][..]).is_ok())) {
        Ok(true) => "ok",
        Ok(false) => "err",
        Err(_) => "panic",
    }
}

/// the same offers through serde in a binary (not human-readable) format: the text as a CBOR text string, and - what a format-aware
/// Serialize impl might write instead - the decoded body as a CBOR byte string, which carries no version or kind at all
fn offer_serde<B: Backend>(rec: &mut Recorder, items: &[Item]) -> u64 {
    let mut n = 0;
    for it in items {
        let body_txt = if it.kind.starts_with("token") { it.text.split('.').nth(2).unwrap_or("") } else { it.text.rsplit('.').next().unwrap_or("") };
        let mut forms: Vec<(&str, Vec<u8>)> = Vec::new();
        let mut doc = Vec::new();
        if ciborium::into_writer(&ciborium::Value::Text(it.text.clone()), &mut doc).is_ok() {
            forms.push(("text", doc));
        }
        if let Some(body) = crate::b64::dec(body_txt) {
            let mut doc = Vec::new();
            if ciborium::into_writer(&ciborium::Value::Bytes(body), &mut doc).is_ok() {
                forms.push(("bytes", doc));
            }
        }
        for (form, doc) in &forms {
            let mut emit = |dst_kind: &str, r: &str| {
                rec.emit(json!({"fn":"xserde","form":form,"src_be":it.be,"src_ver":it.ver,"src_kind":it.kind,"dst_be":B::NAME,"dst_ver":B::VER,"dst_kind":dst_kind,"result":r,"ok":r == "ok"}));
                n += 1;
            };
            emit("token.local", try_cbor::<SealedToken<B::V, Local, Raw, Vec<u8>>>(doc));
            emit("token.public", try_cbor::<SealedToken<B::V, Public, Raw, Vec<u8>>>(doc));
            emit("keytext.local", try_cbor::<KeyText<B::V, Local>>(doc));
            emit("keytext.public", try_cbor::<KeyText<B::V, Public>>(doc));
            emit("keytext.secret", try_cbor::<KeyText<B::V, Secret>>(doc));
            emit("id.lid", try_cbor::<KeyId<B::V, Local>>(doc));
            emit("id.pid", try_cbor::<KeyId<B::V, Public>>(doc));
            emit("id.sid", try_cbor::<KeyId<B::V, Secret>>(doc));
            emit("id.pkepid", try_cbor::<KeyId<B::V, PkePublic>>(doc));
            emit("id.pkesid", try_cbor::<KeyId<B::V, PkeSecret>>(doc));
            emit("pie.local", try_cbor::<PieWrappedKey<B::V, Local>>(doc));
            emit("pie.secret", try_cbor::<PieWrappedKey<B::V, Secret>>(doc));
            emit("pw.local", try_cbor::<PasswordWrappedKey<B::V, Local>>(doc));
            emit("pw.secret", try_cbor::<PasswordWrappedKey<B::V, Secret>>(doc));
            emit("seal", try_cbor::<SealedKey<B::V>>(doc));
        }
        // what this backend's own types write in the binary format: the text, header included
        if it.be == B::NAME {
            fn ser<T: FromStr + serde::Serialize>(text: &str) -> Option<bool> {
                let v = T::from_str(text).ok()?;
                let mut doc = Vec::new();
                ciborium::into_writer(&v, &mut doc).ok()?;
                let back: ciborium::Value = ciborium::from_reader(&doc[..]).ok()?;
                Some(back == ciborium::Value::Text(text.to_string()))
            }
            let same = match it.kind {
                "token.local" => ser::<SealedToken<B::V, Local, Raw, Vec<u8>>>(&it.text),
                "token.public" => ser::<SealedToken<B::V, Public, Raw, Vec<u8>>>(&it.text),
                "key.local" => ser::<KeyText<B::V, Local>>(&it.text),
                "key.public" | "key.pkepublic" => ser::<KeyText<B::V, Public>>(&it.text),
                "key.secret" | "key.pkesecret" => ser::<KeyText<B::V, Secret>>(&it.text),
                "id.lid" => ser::<KeyId<B::V, Local>>(&it.text),
                "id.pid" => ser::<KeyId<B::V, Public>>(&it.text),
                "id.sid" => ser::<KeyId<B::V, Secret>>(&it.text),
                "id.pkepid" => ser::<KeyId<B::V, PkePublic>>(&it.text),
                "id.pkesid" => ser::<KeyId<B::V, PkeSecret>>(&it.text),
                "pie.local" => ser::<PieWrappedKey<B::V, Local>>(&it.text),
                "pie.secret" => ser::<PieWrappedKey<B::V, Secret>>(&it.text),
                "pw.local" => ser::<PasswordWrappedKey<B::V, Local>>(&it.text),
                "pw.secret" => ser::<PasswordWrappedKey<B::V, Secret>>(&it.text),
                "seal" => ser::<SealedKey<B::V>>(&it.text),
                _ => None,
            };
            if let Some(same) = same {
                rec.emit(json!({"fn":"xser","be":B::NAME,"kind":it.kind,"binary_form_is_the_text":same}));
                n += 1;
            }
        }
    }
    n
}

/// Payload encodings (header suffixes) are kinds too: a token sealed as one encoding is parsed and opened only as that encoding.
fn offer_suffixes<B: Backend>(rec: &mut Recorder) -> u64 {
    use crate::payload::{RawC, RawCb, RawM};
    use paseto_core::tokens::UnsealedToken;
    use paseto_core::validation::NoValidation;
    let mut n = 0;
    let lk = LocalKey::<B>::random().unwrap();
    let Ok(sk) = SecretKey::<B>::random() else { return 0 };
    let pk = sk.public_key();
    macro_rules! sealed {
        ($M:ident, $sfx:literal) => {
            vec![($sfx, "local", UnsealedToken::<B::V, Local, $M>::new($M(b"m".to_vec())).seal(&lk, &[]).unwrap().to_string()),
                 ($sfx, "public", UnsealedToken::<B::V, Public, $M>::new($M(b"m".to_vec())).seal(&sk, &[]).unwrap().to_string())]
        };
    }
    let mut texts = sealed!(Raw, "");
    texts.extend(sealed!(RawC, "c"));
    texts.extend(sealed!(RawM, "m"));
    texts.extend(sealed!(RawCb, "cb"));
    for (src, purpose, text) in &texts {
        macro_rules! offer {
            ($M:ident, $dst:literal) => {{
                let r = catch_unwind(AssertUnwindSafe(|| {
                    if *purpose == "local" {
                        SealedToken::<B::V, Local, $M>::from_str(text).map(|t| t.unseal(&lk, &[], &NoValidation::dangerous_no_validation()).is_ok())
                    } else {
                        SealedToken::<B::V, Public, $M>::from_str(text).map(|t| t.unseal(&pk, &[], &NoValidation::dangerous_no_validation()).is_ok())
                    }
                }));
                let (parsed, opened, panic) = match r {
                    Ok(Ok(o)) => (true, o, false),
                    Ok(Err(_)) => (false, false, false),
                    Err(_) => (false, false, true),
                };
                rec.emit(json!({"fn":"xsuffix","be":B::NAME,"purpose":purpose,"src_suffix":src,"dst_suffix":$dst,"parsed":parsed,"opened":opened,"panic":panic}));
                n += 1;
            }};
        }
        offer!(Raw, "");
        offer!(RawC, "c");
        offer!(RawM, "m");
        offer!(RawCb, "cb");
    }
    n
}

fn offer_all<B: Backend>(rec: &mut Recorder, items: &[Item]) -> u64 {
    let mut n = offer_serde::<B>(rec, items) + offer_suffixes::<B>(rec);
    for it in items {
        let s = it.text.as_str();
        let mut emit = |dst_kind: &str, r: &str| {
            rec.emit(json!({"fn":"xparse","src_be":it.be,"src_ver":it.ver,"src_kind":it.kind,"dst_be":B::NAME,"dst_ver":B::VER,"dst_kind":dst_kind,
                "text":codes(s.as_bytes()),"result":r,"ok":r == "ok"}));
            n += 1;
        };
        emit("token.local", try_parse::<SealedToken<B::V, Local, Raw, Vec<u8>>>(s));
        emit("token.public", try_parse::<SealedToken<B::V, Public, Raw, Vec<u8>>>(s));
        emit("keytext.local", try_parse::<KeyText<B::V, Local>>(s));
        emit("keytext.public", try_parse::<KeyText<B::V, Public>>(s));
        emit("keytext.secret", try_parse::<KeyText<B::V, Secret>>(s));
        emit("key.local", try_parse::<Key<B::V, Local>>(s));
        emit("key.public", try_parse::<Key<B::V, Public>>(s));
        emit("key.secret", try_parse::<Key<B::V, Secret>>(s));
        emit("key.pkepublic", try_parse::<Key<B::V, PkePublic>>(s));
        emit("key.pkesecret", try_parse::<Key<B::V, PkeSecret>>(s));
        emit("id.lid", try_parse::<KeyId<B::V, Local>>(s));
        emit("id.pid", try_parse::<KeyId<B::V, Public>>(s));
        emit("id.sid", try_parse::<KeyId<B::V, Secret>>(s));
        emit("id.pkepid", try_parse::<KeyId<B::V, PkePublic>>(s));
        emit("id.pkesid", try_parse::<KeyId<B::V, PkeSecret>>(s));
        emit("pie.local", try_parse::<PieWrappedKey<B::V, Local>>(s));
        emit("pie.secret", try_parse::<PieWrappedKey<B::V, Secret>>(s));
        emit("pw.local", try_parse::<PasswordWrappedKey<B::V, Local>>(s));
        emit("pw.secret", try_parse::<PasswordWrappedKey<B::V, Secret>>(s));
        emit("seal", try_parse::<SealedKey<B::V>>(s));
    }
    // the decoded body of every value of the same version, relabelled with each key kind's header and offered to
    // the full key parser of that kind: a body of another kind's length must never pass for a key
    let k = <B::V as paseto_core::version::Version>::PASERK_HEADER;
    for it in items.iter().filter(|it| it.ver == B::VER) {
        let Some(dot) = it.text[3..].find('.').map(|i| i + 4) else { continue };
        // the base64 body (first segment after the header)
        let hdr_end = it.text.char_indices().filter(|(_, c)| *c == '.').map(|(i, _)| i + 1).take_while(|&i| {
            let rest = &it.text[i..];
            !rest.is_empty() && !rest.chars().next().map(|c| c.is_ascii_lowercase() && rest.contains('.')).unwrap_or(false) || true
        }).last().unwrap_or(dot);
        let _ = hdr_end;
        let body_txt = it.text.rsplit('.').next().unwrap_or("");
        let body_txt = if it.kind.starts_with("token") { it.text.split('.').nth(2).unwrap_or("") } else { body_txt };
        let Some(body) = crate::b64::dec(body_txt) else { continue };
        for (dst_kind, hdr) in [("key.local", ".local."), ("key.public", ".public."), ("key.secret", ".secret."), ("key.pkepublic", ".public."), ("key.pkesecret", ".secret."),
                                ("id.lid", ".lid."), ("id.pid", ".pid."), ("id.sid", ".sid."), ("id.pkepid", ".pid."), ("id.pkesid", ".sid.")] {
          // the body as it is, and with its first / last byte zeroed (a sign byte, a padding byte: bytes a lenient decoder strips)
          for variant in 0..3 {
            let mut vb = body.clone();
            match variant {
                1 if !vb.is_empty() => vb[0] = 0,
                2 if !vb.is_empty() => *vb.last_mut().unwrap() = 0,
                0 => {}
                _ => continue,
            }
            let body_txt = crate::b64::enc(&vb);
            let text = format!("{k}{hdr}{body_txt}");
            let r = match dst_kind {
                "key.local" => try_parse::<Key<B::V, Local>>(&text),
                "key.public" => try_parse::<Key<B::V, Public>>(&text),
                "key.secret" => try_parse::<Key<B::V, Secret>>(&text),
                "key.pkepublic" => try_parse::<Key<B::V, PkePublic>>(&text),
                "key.pkesecret" => try_parse::<Key<B::V, PkeSecret>>(&text),
                "id.lid" => try_parse::<KeyId<B::V, Local>>(&text),
                "id.pid" => try_parse::<KeyId<B::V, Public>>(&text),
                "id.sid" => try_parse::<KeyId<B::V, Secret>>(&text),
                "id.pkepid" => try_parse::<KeyId<B::V, PkePublic>>(&text),
                _ => try_parse::<KeyId<B::V, PkeSecret>>(&text),
            };
            rec.emit(json!({"fn":"xbody","src_be":it.be,"src_kind":it.kind,"dst_be":B::NAME,"dst_ver":B::VER,"dst_kind":dst_kind,"body_len":body.len(),"variant":variant,"result":r,"ok":r == "ok"}));
            n += 1;
          }
        }
    }
    n
}

pub fn run(rec: &mut Recorder, seed: u64) -> u64 {
    let mut rng = Prng::new(seed, "c10");
    let mut items = Vec::new();
    for be in ALL {
        crate::with_backend!(be, catalogue(&mut rng, &mut items));
    }
    let mut n = 0;
    for be in ALL {
        n += crate::with_backend!(be, offer_all(rec, &items));
    }
    n
}

/// Material produced by the FULL build for the reduced-feature probes of C19 (RustCrypto crates only).
pub fn feature_material(seed: u64) -> serde_json::Value {
    fn one<B: Backend>(rng: &mut Prng) -> serde_json::Value {
        let flip = |s: &str| {
            let mut b = s.as_bytes().to_vec();
            let i = b.len() - 5;
            b[i] = if b[i] == b'A' { b'B' } else { b'A' };
            String::from_utf8(b).unwrap()
        };
        let lk = LocalKey::<B>::random().unwrap();
        let pair = &keys::signing_pairs::<B>(rng, 1)[0];
        let sk: SecretKey<B> = key_from_bytes(&pair.secret).unwrap();
        let pk = sk.public_key();
        let rcp = &keys::pke_pairs::<B>(1)[0];
        let ppk: PkePub<B> = key_from_bytes(&rcp.public).unwrap();
        let aad: Vec<u8> = if B::VER >= 3 { b"implicit".to_vec() } else { vec![] };
        let claims = rng.bytes(70);
        let footer = rng.bytes(9);
        let nonce = rng.bytes(if B::VER == 2 { 24 } else { 32 });
        let tl = UnsealedToken::<B::V, Local, Raw>::new(Raw(claims.clone())).with_footer(footer.clone()).seal(&lk, &aad).unwrap().to_string();
        let tn = UnsealedToken::<B::V, Local, Raw>::new(Raw(claims.clone())).with_footer(footer.clone()).dangerous_seal_with_nonce(&lk, &aad, nonce.clone()).unwrap().to_string();
        let tp = UnsealedToken::<B::V, Public, Raw>::new(Raw(claims.clone())).with_footer(footer.clone()).seal(&sk, &aad).unwrap().to_string();
        let wrapped = rng.bytes(32);
        let wk: LocalKey<B> = key_from_bytes(&wrapped).unwrap();
        let cost = if B::VER == 1 || B::VER == 3 { (3u64, 0, 1) } else { (8 * 1024, 1, 1) };
        // byte strings offered as keys, with the FULL build's verdict: a reduced build must give the same verdicts
        let mut offers_pub: Vec<Vec<u8>> = vec![pair.public.clone()];
        let mut offers_sec: Vec<Vec<u8>> = vec![pair.secret.clone()];
        let mut offers_loc: Vec<Vec<u8>> = vec![rng.bytes(32), rng.bytes(31), rng.bytes(33), rng.bytes(64)];
        for _ in 0..40 {
            offers_pub.push(rng.bytes(pair.public.len().min(64)));
        }
        for l in [0usize, 1, 31, 32, 33, 48, 49, 64, 97] {
            offers_pub.push(rng.bytes(l));
            offers_sec.push(rng.bytes(l));
        }
        if B::VER == 2 || B::VER == 4 {
            // every non-canonical encoding of y (y >= p), with either sign bit, and x = 0 with the sign bit set
            for low in 0xedu8..=0xff {
                for top in [0x7fu8, 0xff] {
                    let mut e = vec![0xffu8; 32];
                    e[0] = low;
                    e[31] = top;
                    offers_pub.push(e);
                }
            }
            let mut e = vec![0u8; 32];
            e[0] = 1;
            e[31] = 0x80;
            offers_pub.push(e);
            let mut e = vec![0xffu8; 32];
            e[0] = 0xec;
            offers_pub.push(e);
            offers_pub.push(vec![0u8; 32]);
            let mut mixed = pair.secret[..32].to_vec();
            mixed.extend(rng.bytes(32));
            offers_sec.push(mixed);
        }
        if B::VER == 3 {
            use p384::elliptic_curve::sec1::ToEncodedPoint;
            let pkp = p384::PublicKey::from_sec1_bytes(&pair.public).unwrap();
            offers_pub.push(pkp.to_encoded_point(false).as_bytes().to_vec());
            offers_pub.push(vec![0]);
            let mut c = pair.public.clone();
            c[0] = 5;
            offers_pub.push(c);
            offers_sec.push(vec![0u8; 48]);
            offers_sec.push(vec![0xffu8; 48]);
        }
        let verdicts_pub: Vec<serde_json::Value> = offers_pub.iter().map(|b| json!({"hex": hex::encode(b), "ok": key_from_bytes::<B::V, Public>(b).is_ok()})).collect();
        let verdicts_sec: Vec<serde_json::Value> = offers_sec.iter().map(|b| json!({"hex": hex::encode(b), "ok": key_from_bytes::<B::V, Secret>(b).is_ok()})).collect();
        let verdicts_loc: Vec<serde_json::Value> = offers_loc.iter().map(|b| json!({"hex": hex::encode(b), "ok": key_from_bytes::<B::V, Local>(b).is_ok()})).collect();
        // token strings offered to the verifier / decrypter with the FULL build's verdict: the honest tokens, corrupted ones, and
        // second spellings of the signature (ECDSA (r, n - s); Ed25519 S + L)
        let nv = paseto_core::validation::NoValidation::<Raw>::dangerous_no_validation;
        let mut tok_pub: Vec<String> = vec![tp.clone(), flip(&tp)];
        {
            let hdr = crate::drive_tokens::header::<B, Public>();
            if let Some((mut body, foot)) = crate::drive_tokens::split_token(&tp, hdr.len()) {
                let n = body.len();
                if B::VER == 3 && n >= 96 {
                    // s := n - s
                    let mut borrow = 0i16;
                    for i in (0..48).rev() {
                        let v = keys::P384_N[i] as i16 - body[n - 48 + i] as i16 - borrow;
                        body[n - 48 + i] = v.rem_euclid(256) as u8;
                        borrow = if v < 0 { 1 } else { 0 };
                    }
                    tok_pub.push(crate::drive_tokens::token_string::<B, Public>(&body, &foot));
                }
                if (B::VER == 2 || B::VER == 4) && n >= 64 {
                    const L: [u8; 32] = [0xed, 0xd3, 0xf5, 0x5c, 0x1a, 0x63, 0x12, 0x58, 0xd6, 0x9c, 0xf7, 0xa2, 0xde, 0xf9, 0xde, 0x14,
                                         0, 0, 0, 0, 0, 0, 0, 0, 0, 0, 0, 0, 0, 0, 0, 0x10];
                    let mut carry = 0u16;
                    for i in 0..32 {
                        let v = body[n - 32 + i] as u16 + L[i] as u16 + carry;
                        body[n - 32 + i] = v as u8;
                        carry = v >> 8;
                    }
                    tok_pub.push(crate::drive_tokens::token_string::<B, Public>(&body, &foot));
                }
            }
        }
        let tok_loc: Vec<String> = vec![tl.clone(), flip(&tl), tn.clone()];
        let verdicts_tp: Vec<serde_json::Value> = tok_pub.iter().map(|t| json!({"text": t, "ok": SealedToken::<B::V, Public, Raw, Vec<u8>>::from_str(t).and_then(|x| x.unseal(&pk, &aad, &nv())).is_ok()})).collect();
        let verdicts_tl: Vec<serde_json::Value> = tok_loc.iter().map(|t| json!({"text": t, "ok": SealedToken::<B::V, Local, Raw, Vec<u8>>::from_str(t).and_then(|x| x.unseal(&lk, &aad, &nv())).is_ok()})).collect();
        json!({
            "offers_tokens_public": verdicts_tp, "offers_tokens_local": verdicts_tl,
            "offers_public": verdicts_pub, "offers_secret": verdicts_sec, "offers_local": verdicts_loc,
            "aad": hex::encode(&aad), "claims": hex::encode(&claims), "footer": hex::encode(&footer), "nonce": hex::encode(&nonce),
            "local_key": hex::encode(key_bytes(&lk)), "secret_key": hex::encode(&pair.secret), "public_key": hex::encode(&pair.public),
            "public_key_text": pk.to_string(),
            "token_local": tl, "token_local_bad": flip(&tl), "token_local_from_nonce": tn, "token_public": tp, "token_public_bad": flip(&tp),
            "sig_deterministic": B::VER != 1,
            "lid": lk.id().to_string(), "pid": pk.id().to_string(), "sid": sk.id().to_string(),
            "wrapped_key": hex::encode(&wrapped),
            "pie": wk.clone().wrap_pie(&lk).unwrap().to_string(),
            "pw": wk.clone().password_wrap_with_params(b"pass", &dp::pw_params::<B>(cost)).unwrap().to_string(), "pw_pass": hex::encode(b"pass"),
            "sealed": wk.clone().seal(&ppk).unwrap().to_string(), "pke_secret": hex::encode(&rcp.secret),
        })
    }
    let mut rng = Prng::new(seed, "c19-material");
    json!({"v1": one::<V1>(&mut rng), "v2": one::<V2>(&mut rng), "v3": one::<V3>(&mut rng), "v4": one::<V4>(&mut rng)})
}
