//! C17: one key shared by many threads, and operation histories mixing failing and succeeding calls.
//! Every result is recorded next to the result of the same call on a fresh copy of the key (parsed
//! from its bytes, used once, sequentially); Obs_Shared.tla demands equality for deterministic
//! operations and the sequential postcondition for randomized ones.
use crate::backends::*;
use crate::drive_paserk as dp;
use crate::keys;
use crate::payload::Raw;
use crate::prng::Prng;
use crate::rec::Recorder;
use paseto_core::paserk::{PasswordWrappedKey, PieWrappedKey, SealedKey};
use paseto_core::tokens::{SealedToken, UnsealedToken};
use paseto_core::validation::NoValidation;
use paseto_core::version::{Local, Public};
use serde_json::{Value, json};
use std::panic::{AssertUnwindSafe, catch_unwind};
use std::str::FromStr;
use std::sync::{Arc, Barrier};

pub const VARIANTS: [&str; 23] = [
    "sign", "verify-good", "verify-bad", "encrypt", "decrypt-good", "decrypt-bad", "decrypt-wrong-aad", "unwrap-good", "unwrap-bad",
    "pw-unwrap-wrong-password", "unseal-good", "unseal-bad", "id", "clone-drop", "public-key", "pw-unwrap-good", "pw-unwrap-rejected-params",
    "verify-zero-signature", "decrypt-zero-body", "verify-good-other", "seal-key", "wrap-key", "unseal-degenerate",
];

/// Progress heartbeat: an operation of the library that does not return is data, not a tool failure.  The watchdog
/// reports what was running and ends the process with code 7 (the check turns that into a violation).
pub mod watchdog {
    use std::sync::Mutex;
    use std::sync::atomic::{AtomicU64, Ordering};
    use std::time::{SystemTime, UNIX_EPOCH};
    static LAST: AtomicU64 = AtomicU64::new(0);
    static WHAT: Mutex<String> = Mutex::new(String::new());
    fn now() -> u64 {
        SystemTime::now().duration_since(UNIX_EPOCH).map(|d| d.as_secs()).unwrap_or(0)
    }
    pub fn beat(what: impl FnOnce() -> String) {
        LAST.store(now(), Ordering::Relaxed);
        if let Ok(mut w) = WHAT.try_lock() {
            *w = what();
        }
    }
    pub fn start(limit_secs: u64) {
        LAST.store(now(), Ordering::Relaxed);
        std::thread::spawn(move || loop {
            std::thread::sleep(std::time::Duration::from_secs(2));
            let idle = now().saturating_sub(LAST.load(Ordering::Relaxed));
            if idle > limit_secs {
                let what = WHAT.lock().map(|w| w.clone()).unwrap_or_default();
                println!("{}", serde_json::json!({"hang": true, "idle_secs": idle, "what": what}));
                std::process::exit(7);
            }
        });
    }
}

struct Keys<B: Backend> {
    local: LocalKey<B>,
    secret: SecretKey<B>,
    public: PublicKey<B>,
    pke_sec: PkeSec<B>,
    /// the recipient's public key as a long-lived object (parsing a key has side effects in some backends, e.g. on a library error queue)
    pke_pub: PkePub<B>,
}

struct Material {
    local: Vec<u8>,
    secret: Vec<u8>,
    pke_secret: Vec<u8>,
    pke_public: Vec<u8>,
    tok_local: String,
    tok_local_bad: String,
    tok_public: String,
    tok_public_bad: String,
    tok_public_zero: String,
    tok_public_other: String,
    tok_local_zero: String,
    pie: String,
    pie_bad: String,
    pw: String,
    pw_rejected_params: String,
    sealed: String,
    sealed_bad: String,
    sealed_degenerate: String,
    deterministic_sign: bool,
}

fn fresh<B: Backend>(m: &Material) -> Keys<B> {
    let secret: SecretKey<B> = key_from_bytes(&m.secret).unwrap();
    let public = secret.public_key();
    Keys { local: key_from_bytes(&m.local).unwrap(), public, secret, pke_sec: key_from_bytes(&m.pke_secret).unwrap(), pke_pub: key_from_bytes(&m.pke_public).unwrap() }
}

fn flip_mid(s: &str) -> String {
    let mut b = s.as_bytes().to_vec();
    let i = b.len() - 6;
    b[i] = if b[i] == b'A' { b'B' } else { b'A' };
    String::from_utf8(b).unwrap()
}

/// a message of 1.5 KiB that starts with `tag`
fn big(tag: &[u8]) -> Vec<u8> {
    let mut v = tag.to_vec();
    v.resize(1536, b'.');
    v
}

fn material<B: Backend>(rng: &mut Prng) -> Material {
    let local = rng.bytes(32);
    let pair = keys::signing_pairs::<B>(rng, 1).remove(0);
    let rcp = keys::pke_pairs::<B>(1).remove(0);
    let lk: LocalKey<B> = key_from_bytes(&local).unwrap();
    let sk: SecretKey<B> = key_from_bytes(&pair.secret).unwrap();
    let ppk: PkePub<B> = key_from_bytes(&rcp.public).unwrap();
    let aad: &[u8] = if B::VER >= 3 { b"ctx" } else { b"" };
    let tok_local = UnsealedToken::<B::V, Local, Raw>::new(Raw(b"claims-local".to_vec())).seal(&lk, aad).unwrap().to_string();
    let tok_public = UnsealedToken::<B::V, Public, Raw>::new(Raw(b"claims-public".to_vec())).seal(&sk, aad).unwrap().to_string();
    let other = rng.bytes(32);
    let pie = key_from_bytes::<B::V, Local>(&other).unwrap().wrap_pie(&lk).unwrap().to_string();
    let cost = if B::VER == 1 || B::VER == 3 { (2u64, 0, 1) } else { (8192, 1, 1) };
    let pw = lk.clone().password_wrap_with_params(b"right", &dp::pw_params::<B>(cost)).unwrap().to_string();
    let sealed = key_from_bytes::<B::V, Local>(&other).unwrap().seal(&ppk).unwrap().to_string();
    // the same blob with the KDF's work factor zeroed (iteration count / Argon2 passes): parameters the KDF itself refuses or that
    // cannot reproduce the tag - a failing operation either way
    let pw_rejected_params = {
        let hdr = dp::hdr_pw::<B, Local>();
        let mut body = crate::b64::dec(&pw[hdr.len()..]).unwrap();
        let at = if B::VER == 1 || B::VER == 3 { 32 } else { 24 };
        body[at..at + 4].fill(0);
        format!("{hdr}{}", crate::b64::enc(&body))
    };
    Material {
        pw_rejected_params,
        tok_local_bad: flip_mid(&tok_local),
        tok_public_bad: flip_mid(&tok_public),
        tok_public_other: UnsealedToken::<B::V, Public, Raw>::new(Raw(big(b"another message"))).seal(&sk, aad).unwrap().to_string(),
        // degenerate tokens: the signature (all of a public token's bytes after the message) and a whole local body of zero bytes
        tok_public_zero: {
            let hdr = crate::drive_tokens::header::<B, Public>();
            let (p, f) = crate::drive_tokens::split_token(&tok_public, hdr.len()).unwrap();
            let ml = b"claims-public".len();
            let mut z = p.clone();
            z[ml..].fill(0);
            crate::drive_tokens::token_string::<B, Public>(&z, &f)
        },
        tok_local_zero: {
            let hdr = crate::drive_tokens::header::<B, Local>();
            let (p, f) = crate::drive_tokens::split_token(&tok_local, hdr.len()).unwrap();
            crate::drive_tokens::token_string::<B, Local>(&vec![0u8; p.len()], &f)
        },
        pie_bad: flip_mid(&pie),
        sealed_bad: flip_mid(&sealed),
        // a sealed key of the right length whose every byte is 0xff: an RSA ciphertext above the modulus, a SEC1 point with an unknown
        // tag, an X25519 point of the twist - refused in the public-key step rather than by the tag
        sealed_degenerate: {
            let hdr = dp::hdr_seal::<B>();
            let n = crate::b64::dec(&sealed[hdr.len()..]).unwrap().len();
            format!("{hdr}{}", crate::b64::enc(&vec![0xff; n]))
        },
        local,
        secret: pair.secret,
        pke_public: rcp.public.clone(),
        pke_secret: rcp.secret,
        tok_local,
        tok_public,
        pie,
        pw,
        sealed,
        deterministic_sign: matches!(B::NAME, "v2" | "v3" | "v4" | "v4na"),
    }
}

#[derive(Clone, Debug, PartialEq)]
struct Outcome {
    ok: bool,
    res: Vec<u8>,
}

fn err_out(e: paseto_core::PasetoError) -> Outcome {
    Outcome { ok: false, res: errc(&e).as_bytes().to_vec() }
}

/// one operation on the given keys; for randomized operations also the postcondition, checked with `check`
fn apply<B: Backend>(v: &str, k: &Keys<B>, m: &Material, check: &Keys<B>) -> (Outcome, bool, bool) {
    let aad: &[u8] = if B::VER >= 3 { b"ctx" } else { b"" };
    let nv = NoValidation::<Raw>::dangerous_no_validation;
    let r = |x: Result<Vec<u8>, paseto_core::PasetoError>| match x {
        Ok(b) => Outcome { ok: true, res: b },
        Err(e) => err_out(e),
    };
    match v {
        "sign" => {
            // messages on both sides of a kibibyte take turns (buffers that only larger inputs reach)
            let msg = big(b"m");
            let t = UnsealedToken::<B::V, Public, Raw>::new(Raw(msg.clone())).seal(&k.secret, aad).map(|t| t.to_string());
            let post = t.as_ref().ok().map(|s| SealedToken::<B::V, Public, Raw>::from_str(s).and_then(|t| t.unseal(&check.public, aad, &nv())).map(|u| u.claims.0 == msg).unwrap_or(false)).unwrap_or(false);
            (r(t.map(|s| s.into_bytes())), m.deterministic_sign, post)
        }
        "encrypt" => {
            let msg = big(b"m");
            let t = UnsealedToken::<B::V, Local, Raw>::new(Raw(msg.clone())).seal(&k.local, aad).map(|t| t.to_string());
            let post = t.as_ref().ok().map(|s| SealedToken::<B::V, Local, Raw>::from_str(s).and_then(|t| t.unseal(&check.local, aad, &nv())).map(|u| u.claims.0 == msg).unwrap_or(false)).unwrap_or(false);
            (r(t.map(|s| s.into_bytes())), false, post)
        }
        // sealing / wrapping the shared local key (fresh randomness each time): the result opens to the same key with a fresh copy
        "seal-key" => {
            let t = k.local.clone().seal(&k.pke_pub).map(|x| x.to_string());
            let post = t.as_ref().ok().map(|s| SealedKey::<B::V>::from_str(s).and_then(|w| w.unseal(&check.pke_sec)).map(|x| key_bytes(&x) == m.local).unwrap_or(false)).unwrap_or(false);
            (r(t.map(|s| s.into_bytes())), false, post)
        }
        "wrap-key" => {
            let t = k.local.clone().wrap_pie(&k.local).map(|x| x.to_string());
            let post = t.as_ref().ok().map(|s| PieWrappedKey::<B::V, Local>::from_str(s).and_then(|w| w.unwrap(&check.local)).map(|x| key_bytes(&x) == m.local).unwrap_or(false)).unwrap_or(false);
            (r(t.map(|s| s.into_bytes())), false, post)
        }
        "verify-good" | "verify-bad" => {
            let s = if v == "verify-good" { &m.tok_public } else { &m.tok_public_bad };
            (r(SealedToken::<B::V, Public, Raw>::from_str(s).and_then(|t| t.unseal(&k.public, aad, &nv())).map(|u| u.claims.0)), true, true)
        }
        "verify-good-other" => (r(SealedToken::<B::V, Public, Raw>::from_str(&m.tok_public_other).and_then(|t| t.unseal(&k.public, aad, &nv())).map(|u| u.claims.0)), true, true),
        "verify-zero-signature" => (r(SealedToken::<B::V, Public, Raw>::from_str(&m.tok_public_zero).and_then(|t| t.unseal(&k.public, aad, &nv())).map(|u| u.claims.0)), true, true),
        "decrypt-zero-body" => (r(SealedToken::<B::V, Local, Raw>::from_str(&m.tok_local_zero).and_then(|t| t.unseal(&k.local, aad, &nv())).map(|u| u.claims.0)), true, true),
        "decrypt-good" | "decrypt-bad" | "decrypt-wrong-aad" => {
            let s = if v == "decrypt-bad" { &m.tok_local_bad } else { &m.tok_local };
            let a: &[u8] = if v == "decrypt-wrong-aad" { b"other" } else { aad };
            (r(SealedToken::<B::V, Local, Raw>::from_str(s).and_then(|t| t.unseal(&k.local, a, &nv())).map(|u| u.claims.0)), true, true)
        }
        "unwrap-good" | "unwrap-bad" => {
            let s = if v == "unwrap-good" { &m.pie } else { &m.pie_bad };
            (r(PieWrappedKey::<B::V, Local>::from_str(s).and_then(|w| w.unwrap(&k.local)).map(|x| key_bytes(&x))), true, true)
        }
        "pw-unwrap-good" => (r(PasswordWrappedKey::<B::V, Local>::from_str(&m.pw).and_then(|w| w.unwrap(b"right")).map(|x| key_bytes(&x))), true, true),
        "pw-unwrap-rejected-params" => (r(PasswordWrappedKey::<B::V, Local>::from_str(&m.pw_rejected_params).and_then(|w| w.unwrap(b"right")).map(|x| key_bytes(&x))), true, true),
        "pw-unwrap-wrong-password" => (r(PasswordWrappedKey::<B::V, Local>::from_str(&m.pw).and_then(|w| w.unwrap(b"wrong")).map(|x| key_bytes(&x))), true, true),
        "unseal-good" | "unseal-bad" | "unseal-degenerate" => {
            let s = if v == "unseal-good" { &m.sealed } else if v == "unseal-bad" { &m.sealed_bad } else { &m.sealed_degenerate };
            (r(SealedKey::<B::V>::from_str(s).and_then(|w| w.unseal(&k.pke_sec)).map(|x| key_bytes(&x))), true, true)
        }
        "id" => {
            let mut b = k.local.id().to_string().into_bytes();
            b.extend(k.secret.id().to_string().into_bytes());
            b.extend(k.public.id().to_string().into_bytes());
            (Outcome { ok: true, res: b }, true, true)
        }
        "clone-drop" => {
            let c1 = k.secret.clone();
            let c2 = k.public.clone();
            let c3 = k.local.clone();
            let mut b = key_bytes(&c1);
            b.extend(key_bytes(&c2));
            b.extend(key_bytes(&c3));
            drop(c2);
            drop(c1);
            (Outcome { ok: true, res: b }, true, true)
        }
        _ => (Outcome { ok: true, res: key_bytes(&k.secret.public_key()) }, true, true),
    }
}

struct Raw1 {
    mode: &'static str,
    t: usize,
    q: usize,
    op: String,
    det: bool,
    out: Option<Outcome>,
    post: bool,
    hist: usize,
}

fn emit_all(rec: &mut Recorder, be: &str, refs: &std::collections::HashMap<String, Outcome>, raws: Vec<Raw1>) -> u64 {
    let mut n = 0;
    for r in raws {
        let rf = &refs[&r.op];
        let (ok, res, panic) = match &r.out {
            Some(o) => (o.ok, rec.intern(&o.res), false),
            None => (false, 0, true),
        };
        let rid = rec.intern(&rf.res);
        rec.emit(json!({"fn":"shared","mode":r.mode,"be":be,"t":r.t,"q":r.q,"hist":r.hist,"op":r.op,"det":r.det,"ok":ok,"res":res,
            "ref_ok":rf.ok,"ref_res":rid,"post_ok":r.post,"panic":panic}));
        n += 1;
    }
    n
}

pub fn run_backend<B: Backend>(rec: &mut Recorder, histories: &[Vec<String>], thorough: bool, seed: u64) -> Value
where
    LocalKey<B>: Send + Sync,
    SecretKey<B>: Send + Sync,
    PublicKey<B>: Send + Sync,
    PkeSec<B>: Send + Sync,
{
    let mut rng = Prng::new(seed, &format!("c17-{}", B::NAME));
    let m = Arc::new(material::<B>(&mut rng));
    // sequential reference: each variant once on a fresh copy of the key
    let mut refs = std::collections::HashMap::new();
    for v in VARIANTS {
        let k = fresh::<B>(&m);
        let (o, _, _) = apply::<B>(v, &k, &m, &fresh::<B>(&m));
        refs.insert(v.to_string(), o);
    }
    let mut total = 0;
    // ---- histories on ONE key, single-threaded
    let shared = fresh::<B>(&m);
    let checker = fresh::<B>(&m);
    let mut raws = Vec::new();
    for (hi, h) in histories.iter().enumerate() {
        if B::VER == 1 && !thorough && hi % 4 != 0 {
            continue; // RSA signing dominates
        }
        for (q, v) in h.iter().enumerate() {
            watchdog::beat(|| format!("{} history {:?} step {} ({})", B::NAME, h, q, v));
            let r = catch_unwind(AssertUnwindSafe(|| apply::<B>(v, &shared, &m, &checker)));
            match r {
                Ok((o, det, post)) => raws.push(Raw1 { mode: "history", t: 0, q, op: v.clone(), det, out: Some(o), post, hist: hi }),
                Err(_) => raws.push(Raw1 { mode: "history", t: 0, q, op: v.clone(), det: true, out: None, post: false, hist: hi }),
            }
        }
    }
    total += emit_all(rec, B::NAME, &refs, raws);
    // ---- free-running threads on one Arc'd key
    let nthreads = if thorough { 16 } else { 8 };
    let nops = if B::VER == 1 { if thorough { 400 } else { 60 } } else if thorough { 5000 } else { 400 };
    let shared = Arc::new(fresh::<B>(&m));
    let barrier = Arc::new(Barrier::new(nthreads));
    let mut joins = Vec::new();
    for t in 0..nthreads {
        let (shared, m, barrier) = (shared.clone(), m.clone(), barrier.clone());
        let mut trng = Prng::new(seed ^ (t as u64 * 7919), &format!("c17-thread-{}", B::NAME));
        joins.push(std::thread::spawn(move || {
            let checker = fresh::<B>(&m);
            let mut out = Vec::new();
            barrier.wait();
            for q in 0..nops {
                let v = *trng.pick(&VARIANTS);
                watchdog::beat(|| format!("{} thread {} op {} ({})", B::NAME, t, q, v));
                // some clones are handed to a short-lived thread and dropped there (last owner drops elsewhere)
                if q % 97 == 13 {
                    let c = shared.secret.clone();
                    let p = shared.public.clone();
                    std::thread::spawn(move || {
                        drop(c);
                        drop(p);
                    });
                }
                let r = catch_unwind(AssertUnwindSafe(|| apply::<B>(v, &shared, &m, &checker)));
                match r {
                    Ok((o, det, post)) => out.push(Raw1 { mode: "threads", t, q, op: v.to_string(), det, out: Some(o), post, hist: 0 }),
                    Err(_) => out.push(Raw1 { mode: "threads", t, q, op: v.to_string(), det: true, out: None, post: false, hist: 0 }),
                }
            }
            out
        }));
    }
    // ---- first use of a FRESH key object, simultaneously from several threads (lazily initialised state, if any,
    // is initialised under contention), many rounds
    let rounds = if B::VER == 1 { if thorough { 60 } else { 10 } } else if thorough { 1500 } else { 150 };
    let first_ops = ["sign", "verify-good", "public-key", "id", "unseal-good", "decrypt-good", "clone-drop"];
    for round in 0..rounds {
        let shared = Arc::new(fresh::<B>(&m));
        let nt = 6;
        let barrier = Arc::new(Barrier::new(nt));
        let hs: Vec<_> = (0..nt)
            .map(|t| {
                let (shared, m, barrier) = (shared.clone(), m.clone(), barrier.clone());
                let v = first_ops[(t + round) % first_ops.len()];
                std::thread::spawn(move || {
                    let checker = fresh::<B>(&m);
                    barrier.wait();
                    let r = catch_unwind(AssertUnwindSafe(|| apply::<B>(v, &shared, &m, &checker)));
                    match r {
                        Ok((o, det, post)) => Raw1 { mode: "first-use", t, q: round, op: v.to_string(), det, out: Some(o), post, hist: 0 },
                        Err(_) => Raw1 { mode: "first-use", t, q: round, op: v.to_string(), det: true, out: None, post: false, hist: 0 },
                    }
                })
            })
            .collect();
        let mut v = Vec::new();
        for h in hs {
            if let Ok(r) = h.join() {
                v.push(r);
            }
        }
        total += emit_all(rec, B::NAME, &refs, v);
    }
    let mut died = 0;
    for j in joins {
        match j.join() {
            Ok(v) => total += emit_all(rec, B::NAME, &refs, v),
            Err(_) => died += 1,
        }
    }
    // ---- clone storm: many threads clone and drop handles of ONE key as fast as they can (the window of a lost
    // reference-count update is a few instructions wide), handing some clones to other threads; afterwards the key, and
    // a clone that survived the storm, must still behave like a fresh copy
    let storm_ms: u64 = if thorough { 3000 } else if B::VER == 1 { 300 } else { 700 };
    let shared = Arc::new(fresh::<B>(&m));
    let survivors: Arc<std::sync::Mutex<Vec<Keys<B>>>> = Arc::new(std::sync::Mutex::new(Vec::new()));
    let barrier = Arc::new(Barrier::new(nthreads));
    let storms: Vec<_> = (0..nthreads)
        .map(|t| {
            let (shared, barrier, survivors) = (shared.clone(), barrier.clone(), survivors.clone());
            std::thread::spawn(move || {
                barrier.wait();
                let t0 = std::time::Instant::now();
                let mut n = 0u64;
                let mut held: Vec<(SecretKey<B>, PublicKey<B>)> = Vec::new();
                while t0.elapsed().as_millis() < storm_ms as u128 {
                    watchdog::beat(|| format!("{} thread {} clone storm", B::NAME, t));
                    for _ in 0..64 {
                        let c = shared.secret.clone();
                        let p = shared.public.clone();
                        let l = shared.local.clone();
                        n += 1;
                        if n % 7 == 0 {
                            held.push((c, p));
                            if held.len() > 5 {
                                held.swap_remove((n % 5) as usize);
                            }
                        }
                        drop(l);
                    }
                }
                if t == 0 {
                    if let Some((c, p)) = held.pop() {
                        survivors.lock().unwrap().push(Keys { local: shared.local.clone(), public: p, secret: c, pke_sec: shared.pke_sec.clone(), pke_pub: shared.pke_pub.clone() });
                    }
                }
                n
            })
        })
        .collect();
    let mut clones = 0u64;
    for j in storms {
        match j.join() {
            Ok(n) => clones += n,
            Err(_) => died += 1,
        }
    }
    let checker = fresh::<B>(&m);
    let mut after = Vec::new();
    let survivor = survivors.lock().unwrap().pop();
    for (t, k) in [Some(&*shared), survivor.as_ref()].into_iter().flatten().enumerate() {
        for (q, v) in VARIANTS.iter().enumerate() {
            if *v == "pw-unwrap-rejected-params" {
                continue;
            }
            watchdog::beat(|| format!("{} after clone storm ({})", B::NAME, v));
            match catch_unwind(AssertUnwindSafe(|| apply::<B>(v, k, &m, &checker))) {
                Ok((o, det, post)) => after.push(Raw1 { mode: "after-clone-storm", t, q, op: v.to_string(), det, out: Some(o), post, hist: 0 }),
                Err(_) => after.push(Raw1 { mode: "after-clone-storm", t, q, op: v.to_string(), det: true, out: None, post: false, hist: 0 }),
            }
        }
    }
    total += emit_all(rec, B::NAME, &refs, after);
    json!({"be":B::NAME,"records":total,"threads":nthreads,"ops_per_thread":nops,"threads_died":died,"storm_clones":clones})
}

pub fn run(rec: &mut Recorder, cases: &str, thorough: bool, seed: u64) -> Vec<Value> {
    watchdog::start(120);
    let histories: Vec<Vec<String>> = serde_json::from_str(&std::fs::read_to_string(cases).expect("histories file")).expect("histories json");
    let mut v = Vec::new();
    for be in ALL {
        v.push(crate::with_backend!(be, run_backend(rec, &histories, thorough, seed)));
    }
    v
}
