//! Custom getrandom-0.3 backend (selected with --cfg getrandom_backend="custom" in
//! .cargo/config.toml).  Every draw made by paseto-v1/v2/v3/v4 through getrandom 0.3 goes
//! through here, so the harness can record, script and fail draws without touching /repo.
use std::sync::Mutex;

#[derive(Clone, Debug)]
pub struct DrawLog {
    pub len: usize,
    pub ok: bool,
    pub val: Vec<u8>,
}

pub enum Source {
    /// the operating system (library randomness as in production)
    Os,
    /// deterministic stream: draw i is produced by f(i, len)
    Script(Box<dyn FnMut(usize, usize) -> Vec<u8> + Send>),
}

pub struct State {
    pub source: Source,
    pub record: bool,
    pub log: Vec<DrawLog>,
    /// fail the draw with this index (counted since the last reset)
    pub fail_at: Option<usize>,
    /// when failing, first scribble over half of the buffer (a "partially filled" failure)
    pub partial: bool,
    /// an outage rather than a glitch: every draw from `fail_at` on fails (set with `outage`, cleared by the next `reset`)
    pub lasting: bool,
    pub counter: usize,
}

pub static STATE: Mutex<State> = Mutex::new(State {
    source: Source::Os,
    record: false,
    log: Vec::new(),
    fail_at: None,
    partial: false,
    lasting: false,
    counter: 0,
});

/// fill from the operating system; false if the OS source reports failure (as under the syscall-level shim)
pub fn os_fill(buf: &mut [u8]) -> bool {
    let mut off = 0;
    while off < buf.len() {
        let r = unsafe { libc::getrandom(buf[off..].as_mut_ptr().cast(), buf.len() - off, 0) };
        if r < 0 {
            return false;
        }
        off += r as usize;
    }
    true
}

pub fn reset(source: Source, record: bool, fail_at: Option<usize>, partial: bool) {
    let mut s = STATE.lock().unwrap_or_else(|e| e.into_inner());
    s.source = source;
    s.record = record;
    s.log.clear();
    s.fail_at = fail_at;
    s.partial = partial;
    s.lasting = std::mem::take(&mut *NEXT_LASTING.lock().unwrap_or_else(|e| e.into_inner()));
    s.counter = 0;
}

static NEXT_LASTING: Mutex<bool> = Mutex::new(false);
/// the next `reset` with a `fail_at` arms an outage: that draw and every later one fail
pub fn outage_next() {
    *NEXT_LASTING.lock().unwrap_or_else(|e| e.into_inner()) = true;
}

pub fn passthrough() {
    reset(Source::Os, false, None, false);
}

pub fn take_log() -> Vec<DrawLog> {
    let mut s = STATE.lock().unwrap_or_else(|e| e.into_inner());
    std::mem::take(&mut s.log)
}

#[unsafe(no_mangle)]
unsafe extern "Rust" fn __getrandom_v03_custom(dest: *mut u8, len: usize) -> Result<(), getrandom::Error> {
    let buf = unsafe { std::slice::from_raw_parts_mut(dest, len) };
    let mut s = STATE.lock().unwrap_or_else(|e| e.into_inner());
    let idx = s.counter;
    s.counter += 1;
    if s.fail_at == Some(idx) || (s.lasting && s.fail_at.is_some_and(|f| idx >= f)) {
        if s.partial {
            let h = len / 2;
            for b in buf[..h].iter_mut() {
                *b = 0xA5;
            }
        }
        if s.record {
            s.log.push(DrawLog { len, ok: false, val: Vec::new() });
            crate::payload::log(crate::payload::Spy::Draw { len, ok: false, val: Vec::new() });
        }
        return Err(getrandom::Error::new_custom(0x5eed));
    }
    match &mut s.source {
        Source::Os => {
            if !os_fill(buf) {
                if s.record {
                    s.log.push(DrawLog { len, ok: false, val: Vec::new() });
                }
                return Err(getrandom::Error::new_custom(0x05));
            }
        }
        Source::Script(f) => {
            let v = f(idx, len);
            assert_eq!(v.len(), len, "scripted draw has the wrong length");
            buf.copy_from_slice(&v);
        }
    }
    if s.record {
        let val = buf.to_vec();
        crate::payload::log(crate::payload::Spy::Draw { len, ok: true, val: val.clone() });
        s.log.push(DrawLog { len, ok: true, val });
    }
    Ok(())
}
