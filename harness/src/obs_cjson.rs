//! C14: RegisteredClaims wire form and the Json<T> wrappers.
use crate::prng::Prng;
use crate::rec::Recorder;
use paseto_core::encodings::{Footer, Payload};
use paseto_json::{Json, RegisteredClaims};
use serde_json::{Value, json};

// unknown member names include near misses of the registered ones: longer, shorter, same prefix, same suffix, other case
const KEYS: [&str; 14] = ["iss", "sub", "aud", "exp", "nbf", "iat", "jti", "zz", "issx", "isp", "su", "ISS", "exq", "ubs"];
const STRS: [&str; 2] = ["alice", "bob"];
const TSS: [&str; 2] = ["2024-01-01T00:00:00Z", "2039-12-31T23:59:59.999999999Z"];
/// the same two instants written with a numeric UTC offset, as issuers in other time zones write them
const TSS_OFFSET: [&str; 2] = ["2024-01-01T02:00:00+02:00", "2039-12-31T18:29:59.999999999-05:30"];
thread_local! {
    static OFFSET_FORM: std::cell::Cell<bool> = const { std::cell::Cell::new(false) };
}

#[derive(Clone, Copy, PartialEq)]
struct Member(usize, &'static str, usize);

fn all_members(keys: &[usize]) -> Vec<Member> {
    let mut v = Vec::new();
    for &k in keys {
        for a in 1..=2 {
            v.push(Member(k, "str", a));
            v.push(Member(k, "ts", a));
        }
        for vc in ["null", "num", "bool", "arr", "obj"] {
            v.push(Member(k, vc, 0));
        }
    }
    v
}

fn render(ms: &[Member]) -> String {
    let mut s = String::from("{");
    for (i, m) in ms.iter().enumerate() {
        if i > 0 {
            s.push(',');
        }
        s.push_str(&format!("\"{}\":", KEYS[m.0]));
        match m.1 {
            "str" => s.push_str(&format!("\"{}\"", STRS[m.2 - 1])),
            // (a time claim may be written with an offset; a string claim that happens to look like a timestamp keeps the Z form, since
            // its value is the string itself)
            "ts" if OFFSET_FORM.with(|c| c.get()) && (3..6).contains(&m.0) => s.push_str(&format!("\"{}\"", TSS_OFFSET[m.2 - 1])),
            "ts" => s.push_str(&format!("\"{}\"", TSS[m.2 - 1])),
            "null" => s.push_str("null"),
            "num" => s.push_str("17"),
            "bool" => s.push_str("true"),
            "arr" => s.push_str("[1,\"x\"]"),
            _ => s.push_str("{\"iss\":\"nested\"}"),
        }
    }
    s.push('}');
    s
}

fn atom_of_str(s: &Option<String>) -> Value {
    match s.as_deref() {
        None => json!([]),
        Some(x) if x == STRS[0] => json!(["str", 1]),
        Some(x) if x == STRS[1] => json!(["str", 2]),
        Some(x) if x == TSS[0] => json!(["ts", 1]),
        Some(x) if x == TSS[1] => json!(["ts", 2]),
        Some(x) => json!(["other", x.len()]),
    }
}
fn atom_of_ts(t: &Option<jiff::Timestamp>) -> Value {
    match t {
        None => json!([]),
        Some(x) if *x == TSS[0].parse::<jiff::Timestamp>().unwrap() => json!(["ts", 1]),
        Some(x) if *x == TSS[1].parse::<jiff::Timestamp>().unwrap() => json!(["ts", 2]),
        Some(_) => json!(["other", 0]),
    }
}

fn observe_decode(rec: &mut Recorder, ms: &[Member]) {
    let text = render(ms);
    let r = <RegisteredClaims as Payload>::decode(text.as_bytes());
    let generic_ok = serde_json::from_str::<Value>(&text).is_ok();
    let mj: Vec<Value> = ms.iter().map(|m| json!([KEYS[m.0], m.1, m.2])).collect();
    match r {
        Ok(c) => rec.emit(json!({"fn":"decode","members":mj,"ok":true,"generic_ok":generic_ok,"slots":{
            "iss":atom_of_str(&c.iss),"sub":atom_of_str(&c.sub),"aud":atom_of_str(&c.aud),"jti":atom_of_str(&c.jti),
            "exp":atom_of_ts(&c.exp),"nbf":atom_of_ts(&c.nbf),"iat":atom_of_ts(&c.iat)}})),
        Err(_) => rec.emit(json!({"fn":"decode","members":mj,"ok":false,"generic_ok":generic_ok,"slots":{
            "iss":[],"sub":[],"aud":[],"jti":[],"exp":[],"nbf":[],"iat":[]}})),
    }
}

fn rand_string(rng: &mut Prng) -> String {
    let pool: [&str; 16] = ["a", "Z", " ", "\"", "\\", "/", "\u{0}", "\n", "\t", "\u{7f}", "é", "\u{2028}", "😀", "\u{10FFFF}", "\u{1}", "}"];
    // mostly short, escape-heavy strings; sometimes long runs that need no escaping (buffer boundaries of any writer)
    match rng.below(10) {
        0 => {
            let n = *rng.pick(&[127usize, 128, 129, 255, 256, 257, 511, 512, 1000, 4096, 70000]);
            let c = *rng.pick(&["x", "Z", "é"]);
            c.repeat(n)
        }
        1 => {
            let n = *rng.pick(&[255usize, 256, 300, 1024]);
            (0..n).map(|_| *rng.pick(&pool)).collect()
        }
        _ => {
            let n = rng.below(12);
            (0..n).map(|_| *rng.pick(&pool)).collect()
        }
    }
}

fn rand_ts(rng: &mut Prng) -> jiff::Timestamp {
    let min = jiff::Timestamp::MIN.as_nanosecond();
    let max = jiff::Timestamp::MAX.as_nanosecond();
    let choice = rng.below(8);
    let n: i128 = match choice {
        0 => min,
        1 => max,
        2 => 0,
        3 => -1,
        4 => 999_999_999,
        5 => min + (rng.next_u64() as i128 % 1_000_000_000_000),
        6 => max - (rng.next_u64() as i128 % 1_000_000_000_000),
        _ => {
            let span = (max - min) as u128;
            min + ((((rng.next_u64() as u128) << 64) | rng.next_u64() as u128) % span) as i128
        }
    };
    jiff::Timestamp::from_nanosecond(n).unwrap()
}

/// independent RFC 3339 reader: "YYYY-MM-DDTHH:MM:SS[.fffffffff]Z" with a possibly negative / >4-digit year -> unix nanoseconds
fn rfc3339_ns(s: &str) -> Option<i128> {
    let s = s.strip_suffix('Z')?;
    let (date, time) = s.split_once('T')?;
    let (neg, date) = if let Some(d) = date.strip_prefix('-') { (true, d) } else { (false, date.strip_prefix('+').unwrap_or(date)) };
    let mut dp = date.rsplitn(3, '-');
    let day: i64 = dp.next()?.parse().ok()?;
    let month: i64 = dp.next()?.parse().ok()?;
    let mut year: i64 = dp.next()?.parse().ok()?;
    if neg {
        year = -year;
    }
    let (hms, frac) = match time.split_once('.') {
        Some((a, b)) => (a, b),
        None => (time, ""),
    };
    let mut tp = hms.split(':');
    let h: i64 = tp.next()?.parse().ok()?;
    let mi: i64 = tp.next()?.parse().ok()?;
    let sec: i64 = tp.next()?.parse().ok()?;
    let mut ns: i64 = 0;
    if !frac.is_empty() {
        if frac.len() > 9 || !frac.bytes().all(|b| b.is_ascii_digit()) {
            return None;
        }
        ns = frac.parse::<i64>().ok()? * 10i64.pow(9 - frac.len() as u32);
    }
    // days from civil (proleptic Gregorian)
    let y = if month <= 2 { year - 1 } else { year };
    let era = if y >= 0 { y } else { y - 399 } / 400;
    let yoe = y - era * 400;
    let mp = (month + 9) % 12;
    let doy = (153 * mp + 2) / 5 + day - 1;
    let doe = yoe * 365 + yoe / 4 - yoe / 100 + doy;
    let days = era * 146097 + doe - 719468;
    Some((((days * 24 + h) * 60 + mi) * 60 + sec) as i128 * 1_000_000_000 + ns as i128)
}

fn observe_roundtrip(rec: &mut Recorder, rng: &mut Prng, mask: usize) {
    let s = |rng: &mut Prng, bit: usize| if mask & (1 << bit) != 0 { Some(rand_string(rng)) } else { None };
    let t = |rng: &mut Prng, bit: usize| if mask & (1 << bit) != 0 { Some(rand_ts(rng)) } else { None };
    let c = RegisteredClaims { iss: s(rng, 0), sub: s(rng, 1), aud: s(rng, 2), exp: t(rng, 3), nbf: t(rng, 4), iat: t(rng, 5), jti: s(rng, 6) };
    let mut wire = Vec::new();
    let enc = c.clone().encode(&mut wire);
    let present = json!({"iss":c.iss.is_some(),"sub":c.sub.is_some(),"aud":c.aud.is_some(),"exp":c.exp.is_some(),"nbf":c.nbf.is_some(),"iat":c.iat.is_some(),"jti":c.jti.is_some()});
    if enc.is_err() {
        rec.emit(json!({"fn":"roundtrip","present":present,"encode_ok":false,"names":[],"types":[],"same":false,"ts_rfc3339":false,"strings_same":false}));
        return;
    }
    // structural projection of the wire form with a generic parser that keeps member order
    let text = String::from_utf8_lossy(&wire).into_owned();
    let (names, types, vals) = project_object(&text);
    let ts_ok = ["exp", "nbf", "iat"].iter().all(|k| {
        let want = match *k {
            "exp" => c.exp,
            "nbf" => c.nbf,
            _ => c.iat,
        };
        match (want, names.iter().position(|n| n == k)) {
            (None, None) => true,
            (Some(w), Some(i)) => vals[i].as_str().and_then(rfc3339_ns) == Some(w.as_nanosecond()),
            _ => false,
        }
    });
    let strings_same = ["iss", "sub", "aud", "jti"].iter().all(|k| {
        let want = match *k {
            "iss" => &c.iss,
            "sub" => &c.sub,
            "aud" => &c.aud,
            _ => &c.jti,
        };
        match (want, names.iter().position(|n| n == k)) {
            (None, None) => true,
            (Some(w), Some(i)) => vals[i].as_str() == Some(w.as_str()),
            _ => false,
        }
    });
    let back = <RegisteredClaims as Payload>::decode(&wire);
    let same = match &back {
        Ok(b) => b.iss == c.iss && b.sub == c.sub && b.aud == c.aud && b.jti == c.jti && b.exp == c.exp && b.nbf == c.nbf && b.iat == c.iat,
        Err(_) => false,
    };
    rec.emit(json!({"fn":"roundtrip","present":present,"encode_ok":true,"names":names,"types":types,"same":same,"decode_ok":back.is_ok(),
        "ts_rfc3339":ts_ok,"strings_same":strings_same,"wire":text}));
}

/// member names (in document order), JSON types and values of a JSON object text
fn project_object(text: &str) -> (Vec<String>, Vec<String>, Vec<Value>) {
    // serde_json's Map is sorted without preserve_order; recover the order from the text positions of the keys
    let v: Value = match serde_json::from_str(text) {
        Ok(v) => v,
        Err(_) => return (vec!["<not json>".into()], vec![], vec![]),
    };
    let Some(o) = v.as_object() else { return (vec!["<not an object>".into()], vec![], vec![]) };
    let mut items: Vec<(usize, String, Value)> = o
        .iter()
        .map(|(k, val)| {
            let needle = format!("{}:", serde_json::to_string(k).unwrap());
            (text.find(&needle).unwrap_or(usize::MAX), k.clone(), val.clone())
        })
        .collect();
    items.sort_by_key(|x| x.0);
    let ty = |v: &Value| match v {
        Value::String(_) => "string",
        Value::Null => "null",
        Value::Number(_) => "number",
        Value::Bool(_) => "bool",
        Value::Array(_) => "array",
        Value::Object(_) => "object",
    };
    (items.iter().map(|x| x.1.clone()).collect(), items.iter().map(|x| ty(&x.2).to_string()).collect(), items.into_iter().map(|x| x.2).collect())
}

/// a value whose serialisation fails half-way (a map key that is not a string, after one good member)
struct FailsMidway;
impl serde::Serialize for FailsMidway {
    fn serialize<S: serde::Serializer>(&self, s: S) -> Result<S::Ok, S::Error> {
        use serde::ser::SerializeMap;
        let mut m = s.serialize_map(None)?;
        m.serialize_entry("user", "alice")?;
        m.serialize_entry(&(1, 2), "tuple keys are not JSON")?;
        m.end()
    }
}
impl<'de> serde::Deserialize<'de> for FailsMidway {
    fn deserialize<D: serde::Deserializer<'de>>(_: D) -> Result<Self, D::Error> {
        Ok(FailsMidway)
    }
}

/// RegisteredClaims embedded in an application struct with #[serde(flatten)], carried by Json<T>
#[derive(Clone, Debug, serde::Serialize, serde::Deserialize)]
struct Embedded {
    #[serde(flatten)]
    registered: RegisteredClaims,
    role: String,
    level: u8,
}

fn observe_embedded(rec: &mut Recorder, rng: &mut Prng) {
    let mask = rng.below(128);
    let s = |k: usize, rng: &mut Prng| if mask >> k & 1 == 1 { Some(rand_string(rng)) } else { None };
    let t = |k: usize, rng: &mut Prng| if mask >> k & 1 == 1 { Some(rand_ts(rng)) } else { None };
    let v = Embedded {
        registered: RegisteredClaims { iss: s(0, rng), sub: s(1, rng), aud: s(2, rng), jti: s(3, rng), exp: t(4, rng), nbf: t(5, rng), iat: t(6, rng) },
        role: rand_string(rng),
        level: rng.below(256) as u8,
    };
    let mut p = Vec::new();
    let pe = Json(v.clone()).encode(&mut p).is_ok();
    let direct = serde_json::to_vec(&v).ok();
    let back = <Json<Embedded> as Payload>::decode(&p).ok().map(|x| format!("{:?}", x.0) == format!("{v:?}")).unwrap_or(false);
    let fback = <Json<Embedded> as Footer>::decode(&p).ok().map(|x| format!("{:?}", x.0) == format!("{v:?}")).unwrap_or(false);
    rec.emit(json!({"fn":"json","payload_encode_ok":pe,"payload_bytes_equal":Some(&p) == direct.as_ref(),"footer_encode_ok":true,"footer_bytes_equal":true,
        "payload_decode_equal":back,"footer_decode_equal":fback,"bad_agrees":true,"framed_agree":true,"what":"registered claims flattened into an application struct","mask":mask}));
}

fn observe_json_wrappers(rec: &mut Recorder, rng: &mut Prng) {
    observe_embedded(rec, rng);
    // every few observations an encode that fails comes first, through both wrappers: what it wrote so far must not show up later
    if rng.below(3) == 0 {
        let mut sink = Vec::new();
        let a = Json(FailsMidway).encode(&mut sink).is_err();
        let mut sink2 = Vec::new();
        let b = Footer::encode(&Json(FailsMidway), &mut sink2).is_err();
        rec.emit(json!({"fn":"json","payload_encode_ok":true,"payload_bytes_equal":a,"footer_encode_ok":true,"footer_bytes_equal":b,
            "payload_decode_equal":true,"footer_decode_equal":true,"bad_agrees":true,"framed_agree":true,"what":"an unserialisable value is refused by both encoders"}));
    }
    let v: Value = match rng.below(13) {
        // brackets and braces inside strings (balanced or not), as JSONPath / regular expressions / templates have them
        6 => {
            let n = 1 + rng.below(40);
            let opens: String = (0..n).map(|i| if i % 3 == 0 { '{' } else { '[' }).collect();
            json!({"kid": format!("a{opens}?(@.b"), "re": format!("{}x{}", "[".repeat(n), "]".repeat(n / 2)), "t": "}}]]"})
        }
        // genuinely nested values, 1..100 levels (serde_json's own limit is 128)
        7 => {
            let depth = 1 + rng.below(100);
            let mut v = json!("leaf");
            for i in 0..depth {
                v = if i % 2 == 0 { json!([v]) } else { json!({"k": v}) };
            }
            v
        }
        // long escape-free runs around plausible buffer sizes, as value and as member name
        8 => {
            let n = *rng.pick(&[255usize, 256, 257, 300, 511, 512, 513, 1024, 4095, 4096, 4097, 10000]);
            json!({"jti": "j".repeat(n), "k".repeat(n / 2 + 1): 1})
        }
        // numbers at the edges of what serde_json represents exactly
        9 => json!([u64::MAX, i64::MIN, 0, -0.0, 1.5e300, 5e-324, 9007199254740993u64]),
        // member names that need escapes, empty names, duplicates are impossible in Value
        10 => json!({"": 1, "\"": 2, "\\": 3, "\u{0}": 4, "\n": 5, "é": 6, "😀": 7}),
        11 => json!([[], {}, [[]], [{}], {"a": []}, "", 0, false]),
        12 => json!({"exp": "2039-01-01T00:00:00Z", "sub": rand_string(rng), "iat": 17, "nbf": null, "x": {"iss": "nested"}}),
        0 => json!({"a": rand_string(rng), "b": [1, 2.5, null, true], "c": {"d": rand_string(rng)}}),
        1 => json!(rand_string(rng)),
        2 => json!([rand_string(rng), rng.next_u64(), -(rng.below(1000) as i64)]),
        3 => json!({}),
        4 => json!(null),
        _ => json!({"kid": rand_string(rng)}),
    };
    let direct = serde_json::to_vec(&v).unwrap();
    let mut p = Vec::new();
    let pe = Json(v.clone()).encode(&mut p).is_ok();
    let mut f = Vec::new();
    let fe = Footer::encode(&Json(v.clone()), &mut f).is_ok();
    let pd = <Json<Value> as Payload>::decode(&direct).map(|x| x.0 == v).unwrap_or(false);
    let fd = <Json<Value> as Footer>::decode(&direct).map(|x| x.0 == v).unwrap_or(false);
    // malformed input must be refused by both, exactly when serde_json refuses it
    let mut bad = direct.clone();
    bad.push(b'}');
    let bad_generic = serde_json::from_slice::<Value>(&bad).is_ok();
    let bad_p = <Json<Value> as Payload>::decode(&bad).is_ok();
    let bad_f = <Json<Value> as Footer>::decode(&bad).is_ok();
    // the same document in other framings (byte order mark, surrounding white space, control bytes, trailing data, comments): the
    // wrappers accept exactly what serde_json accepts, with the same value
    let mut framed_agree = true;
    let frames: [(&[u8], &[u8]); 12] = [(b"\xEF\xBB\xBF", b""), (b" \t\r\n", b""), (b"", b" \n\t\r "), (b"\0", b""), (b"", b"\0"), (b"\x0c", b""), (b"", b","),
        (b"/**/", b""), (b"", b"//x"), (b"\xFE\xFF", b""), (b"\xC2\xA0", b""), (b"", b"\xEF\xBB\xBF")];
    for (pre, post) in frames {
        let doc = [pre, &direct[..], post].concat();
        let g = serde_json::from_slice::<Value>(&doc).ok();
        let wp = <Json<Value> as Payload>::decode(&doc).ok().map(|x| x.0);
        let wf = <Json<Value> as Footer>::decode(&doc).ok().map(|x| x.0);
        framed_agree &= g == wp && g == wf;
    }
    rec.emit(json!({"fn":"json","payload_encode_ok":pe,"payload_bytes_equal":p == direct,"footer_encode_ok":fe,"footer_bytes_equal":f == direct,
        "payload_decode_equal":pd,"footer_decode_equal":fd,"bad_agrees": bad_p == bad_generic && bad_f == bad_generic, "framed_agree": framed_agree}));
    let empty_footer_ok = <Json<Value> as Footer>::decode(&[]).is_ok();
    let unit_footer_empty = <() as Footer>::decode(&[]).is_ok();
    let unit_footer_nonempty = <() as Footer>::decode(b"x").is_ok();
    rec.emit(json!({"fn":"footer-empty","json_accepts_empty":empty_footer_ok,"unit_accepts_empty":unit_footer_empty,"unit_accepts_nonempty":unit_footer_nonempty}));
}

pub fn run(rec: &mut Recorder, thorough: bool, seed: u64) {
    let mut rng = Prng::new(seed, "c14");
    let all: Vec<usize> = (0..KEYS.len()).collect();
    let ms = all_members(&all);
    observe_decode(rec, &[]);
    for a in &ms {
        observe_decode(rec, &[*a]);
    }
    for a in &ms {
        for b in &ms {
            observe_decode(rec, &[*a, *b]);
        }
    }
    // length 3: exhaustive over a reduced key set in thorough, sampled in quick; plus longer random ones
    let small = all_members(&[0, 3, 6, 7]);
    if thorough {
        for a in &small {
            for b in &small {
                for c in &small {
                    observe_decode(rec, &[*a, *b, *c]);
                }
            }
        }
    }
    let n3 = if thorough { 20000 } else { 6000 };
    for i in 0..n3 {
        let len = 3 + (i % 4);
        let pool = if i % 2 == 0 { &small } else { &ms };
        let seq: Vec<Member> = (0..len).map(|_| *rng.pick(pool)).collect();
        observe_decode(rec, &seq);
    }
    // all seven registered claims present (random order, valid values) with one or two further members before, between or after
    // them: an object as an issuer with private claims writes it
    {
        let reg: Vec<Member> = (0..7).map(|k| Member(k, if (3..6).contains(&k) { "ts" } else { "str" }, 1 + k % 2)).collect();
        let extras: Vec<Member> = ms.iter().filter(|m| m.0 >= 7).copied().collect();
        for i in 0..(if thorough { 3000 } else { 400 }) {
            let mut seq = reg.clone();
            for j in (1..seq.len()).rev() {
                seq.swap(j, rng.below(j + 1));
            }
            for _ in 0..(1 + i % 2) {
                let at = if i % 3 == 0 { seq.len() } else { rng.below(seq.len() + 1) };
                seq.insert(at, *rng.pick(&extras));
            }
            observe_decode(rec, &seq);
        }
    }
    // the time claims written with numeric UTC offsets: the instants are the same, so are the demanded slot values
    OFFSET_FORM.with(|c| c.set(true));
    for a in &ms {
        if a.1 == "ts" && (3..6).contains(&a.0) {
            observe_decode(rec, &[*a]);
            for b in &ms {
                if b.0 < 7 && (b.1 == "ts" || b.1 == "str") {
                    observe_decode(rec, &[*a, *b]);
                }
            }
        }
    }
    OFFSET_FORM.with(|c| c.set(false));
    // round trips of random claims: every presence mask, several values each
    let reps = if thorough { 40 } else { 6 };
    for mask in 0..128usize {
        for _ in 0..reps {
            observe_roundtrip(rec, &mut rng, mask);
        }
    }
    for _ in 0..(if thorough { 2000 } else { 300 }) {
        observe_json_wrappers(rec, &mut rng);
    }
}
