//! C04: spec-guided input classes for every parser of every backend, and every follow-up operation on
//! what they accept, each under catch_unwind.  A panic is data ("panic" step result); the specification
//! (Obs_Safety.tla) admits only ok / err.  The driver prints the class it is about to run to a progress
//! file so that a fatal signal can be attributed by the orchestrator.
use crate::backends::*;
use crate::drive_paserk as dp;
use crate::keys;
use crate::obs_cross;
use crate::payload::Raw;
use crate::prng::Prng;
use crate::rec::{Recorder, codes};
use paseto_core::key::{HasKey, Key, KeyType};
use paseto_core::paserk::{KeyId, KeyText, PasswordWrappedKey, PieWrappedKey, SealedKey};
use paseto_core::tokens::{SealedToken, UnsealedToken};
use paseto_core::validation::NoValidation;
use paseto_core::version::{Local, PkePublic, PkeSecret, Public, Secret, Version};
use serde_json::{Value, json};
use std::io::Write;
use std::panic::{AssertUnwindSafe, catch_unwind};
use std::str::FromStr;

struct Steps(Vec<Value>);
impl Steps {
    fn run<T>(&mut self, op: &str, f: impl FnOnce() -> Result<T, paseto_core::PasetoError>) -> Option<T> {
        match catch_unwind(AssertUnwindSafe(f)) {
            Ok(Ok(v)) => {
                self.0.push(json!({"op":op,"result":"ok"}));
                Some(v)
            }
            Ok(Err(e)) => {
                self.0.push(json!({"op":op,"result":"err","errc":errc(&e)}));
                None
            }
            Err(p) => {
                let msg = p.downcast_ref::<String>().cloned().or_else(|| p.downcast_ref::<&str>().map(|s| s.to_string())).unwrap_or_default();
                self.0.push(json!({"op":op,"result":"panic","payload":msg.chars().take(120).collect::<String>()}));
                None
            }
        }
    }
    fn run_inf<T>(&mut self, op: &str, f: impl FnOnce() -> T) -> Option<T> {
        self.run(op, || Ok(f()))
    }
}

struct World<B: Backend> {
    local: LocalKey<B>,
    secret: SecretKey<B>,
    public: PublicKey<B>,
    pke_pub: PkePub<B>,
    pke_sec: PkeSec<B>,
    token_local: String,
    token_public: String,
    sealed: String,
    pie: String,
}

fn world<B: Backend>(rng: &mut Prng) -> World<B> {
    let local = LocalKey::<B>::random().unwrap();
    let pair = &keys::signing_pairs::<B>(rng, 1)[0];
    let secret: SecretKey<B> = key_from_bytes(&pair.secret).unwrap();
    let public = secret.public_key();
    let r = &keys::pke_pairs::<B>(1)[0];
    let pke_pub: PkePub<B> = key_from_bytes(&r.public).unwrap();
    let pke_sec: PkeSec<B> = key_from_bytes(&r.secret).unwrap();
    let token_local = UnsealedToken::<B::V, Local, Raw>::new(Raw(b"{}".to_vec())).seal(&local, &[]).unwrap().to_string();
    let token_public = UnsealedToken::<B::V, Public, Raw>::new(Raw(b"{}".to_vec())).seal(&secret, &[]).unwrap().to_string();
    let sealed = local.clone().seal(&pke_pub).unwrap().to_string();
    let pie = local.clone().wrap_pie(&local).unwrap().to_string();
    World { local, secret, public, pke_pub, pke_sec, token_local, token_public, sealed, pie }
}

fn use_key<B: Backend, K: KeyType>(s: &mut Steps, w: &World<B>, kind: &str, k: Key<B::V, K>)
where
    B::V: HasKey<K>,
    <B::V as HasKey<K>>::Key: Clone,
{
    let kb = s.run_inf("expose_key", || k.expose_key().as_raw_bytes().to_vec()).unwrap_or_default();
    s.run_inf("expose_key.to_string", || k.expose_key().to_string());
    s.run_inf("clone+drop", || drop(k.clone()));
    // every kind-specific use, through a reparse at the concrete kind
    match kind {
        "local" => {
            if let Some(lk) = s.run("reparse", || key_from_bytes::<B::V, Local>(&kb)) {
                s.run_inf("id", || lk.id().to_string());
                let t = s.run("encrypt", || UnsealedToken::<B::V, Local, Raw>::new(Raw(b"x".to_vec())).seal(&lk, &[]).map(|t| t.to_string()));
                if let Some(t) = t {
                    s.run("decrypt-own", || SealedToken::<B::V, Local, Raw>::from_str(&t)?.unseal(&lk, &[], &NoValidation::dangerous_no_validation()).map(|_| ()));
                }
                s.run("decrypt-foreign", || SealedToken::<B::V, Local, Raw>::from_str(&w.token_local)?.unseal(&lk, &[], &NoValidation::dangerous_no_validation()).map(|_| ()));
                s.run("wrap_pie(with)", || w.local.clone().wrap_pie(&lk).map(|x| x.to_string()));
                s.run("unwrap_pie(with)", || PieWrappedKey::<B::V, Local>::from_str(&w.pie)?.unwrap(&lk).map(|_| ()));
                s.run("seal(to pke)", || lk.clone().seal(&w.pke_pub).map(|x| x.to_string()));
                s.run("password_wrap", || {
                    let c = if B::VER == 1 || B::VER == 3 { (1u64, 0, 1) } else { (8192, 1, 1) };
                    lk.clone().password_wrap_with_params(b"p", &dp::pw_params::<B>(c)).map(|x| x.to_string())
                });
            }
        }
        "public" => {
            if let Some(pk) = s.run("reparse", || key_from_bytes::<B::V, Public>(&kb)) {
                s.run_inf("to_string", || pk.to_string());
                s.run_inf("id", || pk.id().to_string());
                s.run("verify-foreign", || SealedToken::<B::V, Public, Raw>::from_str(&w.token_public)?.unseal(&pk, &[], &NoValidation::dangerous_no_validation()).map(|_| ()));
            }
        }
        "secret" => {
            if let Some(sk) = s.run("reparse", || key_from_bytes::<B::V, Secret>(&kb)) {
                s.run_inf("id", || sk.id().to_string());
                let pk = s.run_inf("public_key", || sk.public_key());
                let t = s.run("sign", || UnsealedToken::<B::V, Public, Raw>::new(Raw(b"x".to_vec())).seal(&sk, &[]).map(|t| t.to_string()));
                if let (Some(pk), Some(t)) = (pk, t) {
                    s.run_inf("public_key.to_string", || pk.to_string());
                    s.run("verify-own", || SealedToken::<B::V, Public, Raw>::from_str(&t)?.unseal(&pk, &[], &NoValidation::dangerous_no_validation()).map(|_| ()));
                }
                s.run("wrap_pie(secret)", || sk.clone().wrap_pie(&w.local).map(|x| x.to_string()));
            }
        }
        "pkepublic" => {
            if let Some(pk) = s.run("reparse", || key_from_bytes::<B::V, PkePublic>(&kb)) {
                s.run("seal(local -> this)", || w.local.clone().seal(&pk).map(|x| x.to_string()));
            }
        }
        _ => {
            if let Some(sk) = s.run("reparse", || key_from_bytes::<B::V, PkeSecret>(&kb)) {
                s.run("unseal-foreign", || SealedKey::<B::V>::from_str(&w.sealed)?.unseal(&sk).map(|_| ()));
            }
        }
    }
}

/// run every applicable operation on `text` offered to parser `parser` of backend B
fn exercise<B: Backend>(w: &World<B>, parser: &str, text: &str) -> Vec<Value> {
    let mut s = Steps(Vec::new());
    match parser {
        "token.local" => {
            if let Some(t) = s.run("parse", || SealedToken::<B::V, Local, Raw, Vec<u8>>::from_str(text)) {
                s.run_inf("to_string", || t.to_string());
                s.run_inf("unverified_footer", || t.unverified_footer().len());
                s.run("decrypt", || t.unseal(&w.local, &[], &NoValidation::dangerous_no_validation()).map(|_| ()));
            }
            if let Some(t) = s.run("parse(aad)", || SealedToken::<B::V, Local, Raw, Vec<u8>>::from_str(text)) {
                s.run("decrypt(aad)", || t.unseal(&w.local, b"assertion", &NoValidation::dangerous_no_validation()).map(|_| ()));
            }
            // the same string for the other footer and payload types: no footer allowed, JSON footer + JSON payload, registered claims
            s.run("parse(unit footer)", || SealedToken::<B::V, Local, Raw, ()>::from_str(text).map(|_| ()));
            if let Some(t) = s.run("parse(json)", || SealedToken::<B::V, Local, paseto_json::Json<Value>, paseto_json::Json<Value>>::from_str(text)) {
                s.run_inf("to_string(json)", || t.to_string());
                s.run("decrypt(json)", || t.unseal(&w.local, &[], &NoValidation::dangerous_no_validation()).map(|_| ()));
            }
            if let Some(t) = s.run("parse(claims)", || SealedToken::<B::V, Local, paseto_json::RegisteredClaims, Vec<u8>>::from_str(text)) {
                s.run("decrypt(claims)", || t.unseal(&w.local, &[], &NoValidation::dangerous_no_validation()).map(|_| ()));
            }
        }
        "token.public" => {
            if let Some(t) = s.run("parse", || SealedToken::<B::V, Public, Raw, Vec<u8>>::from_str(text)) {
                s.run_inf("to_string", || t.to_string());
                s.run("verify", || t.unseal(&w.public, &[], &NoValidation::dangerous_no_validation()).map(|_| ()));
            }
            s.run("parse(unit footer)", || SealedToken::<B::V, Public, Raw, ()>::from_str(text).map(|_| ()));
            if let Some(t) = s.run("parse(json)", || SealedToken::<B::V, Public, paseto_json::Json<Value>, paseto_json::Json<Value>>::from_str(text)) {
                s.run_inf("to_string(json)", || t.to_string());
                s.run("verify(json)", || t.unseal(&w.public, &[], &NoValidation::dangerous_no_validation()).map(|_| ()));
            }
            if let Some(t) = s.run("parse(claims)", || SealedToken::<B::V, Public, paseto_json::RegisteredClaims, Vec<u8>>::from_str(text)) {
                s.run("verify(claims)", || t.unseal(&w.public, &[], &NoValidation::dangerous_no_validation()).map(|_| ()));
            }
        }
        "key.local" | "key.public" | "key.secret" => {
            macro_rules! kt {
                ($K:ty, $($kinds:literal => $KK:ty),*) => {{
                    if let Some(t) = s.run("parse", || KeyText::<B::V, $K>::from_str(text)) {
                        s.run_inf("to_string", || t.to_string());
                        let raw = t.as_raw_bytes().to_vec();
                        // the parsed text against texts of other lengths, both ways round: equality, order, hash
                        s.run_inf("compare", || {
                            use std::hash::{Hash, Hasher};
                            let mut n = 0;
                            for len in [0usize, 1, 32, 33, 64, 300] {
                                let o = KeyText::<B::V, $K>::from_raw_bytes(&vec![raw.first().copied().unwrap_or(7); len]);
                                let mut h = std::collections::hash_map::DefaultHasher::new();
                                o.hash(&mut h);
                                n += (t == o) as u64 + (o == t) as u64 + (t < o) as u64 + (o.cmp(&t) as i8 as u64 & 1) + (h.finish() & 1);
                            }
                            n
                        });
                        $(
                            if let Some(k) = s.run(concat!("try_into:", $kinds), || key_from_bytes::<B::V, $KK>(&raw)) {
                                use_key::<B, $KK>(&mut s, w, $kinds, k);
                            }
                        )*
                    }
                }};
            }
            match parser {
                "key.local" => kt!(Local, "local" => Local),
                "key.public" => kt!(Public, "public" => Public, "pkepublic" => PkePublic),
                _ => kt!(Secret, "secret" => Secret, "pkesecret" => PkeSecret),
            }
        }
        "id.lid" | "id.pid" | "id.sid" => {
            macro_rules! id {
                ($K:ty) => {{
                    if let Some(t) = s.run("parse", || KeyId::<B::V, $K>::from_str(text)) {
                        s.run_inf("to_string", || t.to_string());
                        s.run_inf("cmp", || t == t.clone() && t <= t);
                    }
                }};
            }
            match parser {
                "id.lid" => id!(Local),
                "id.pid" => id!(Public),
                _ => id!(Secret),
            }
        }
        "pie.local" => {
            if let Some(t) = s.run("parse", || PieWrappedKey::<B::V, Local>::from_str(text)) {
                s.run_inf("to_string", || t.to_string());
                if let Some(k) = s.run("unwrap", || t.unwrap(&w.local)) {
                    use_key::<B, Local>(&mut s, w, "local", k);
                }
            }
        }
        "pie.secret" => {
            if let Some(t) = s.run("parse", || PieWrappedKey::<B::V, Secret>::from_str(text)) {
                s.run_inf("to_string", || t.to_string());
                if let Some(k) = s.run("unwrap", || t.unwrap(&w.local)) {
                    use_key::<B, Secret>(&mut s, w, "secret", k);
                }
            }
        }
        "pw.local" | "pw.secret" => {
            // cost parameters beyond the stated budget are parsed (params() included) but not executed
            let hdr = if parser == "pw.local" { dp::hdr_pw::<B, Local>() } else { dp::hdr_pw::<B, Secret>() };
            let within = text.strip_prefix(&hdr).and_then(crate::b64::dec).and_then(|b| dp::pw_cost_of(B::VER, &b)).map(|c| dp::within_budget(B::VER, c)).unwrap_or(true);
            macro_rules! pw {
                ($K:ty, $kind:literal) => {{
                    if let Some(t) = s.run("parse", || PasswordWrappedKey::<B::V, $K>::from_str(text)) {
                        s.run_inf("to_string", || t.to_string());
                        s.run("params", || t.params().map(|_| ()));
                        if within {
                            if let Some(k) = s.run("unwrap", || t.unwrap(b"password")) {
                                use_key::<B, $K>(&mut s, w, $kind, k);
                            }
                        } else {
                            s.0.push(json!({"op":"unwrap","result":"skipped-over-budget"}));
                        }
                    }
                }};
            }
            if parser == "pw.local" { pw!(Local, "local") } else { pw!(Secret, "secret") }
        }
        _ => {
            if let Some(t) = s.run("parse", || SealedKey::<B::V>::from_str(text)) {
                s.run_inf("to_string", || t.to_string());
                s.run_inf("clone", || drop(t.clone()));
                if let Some(k) = s.run("unseal", || t.unseal(&w.pke_sec)) {
                    use_key::<B, Local>(&mut s, w, "local", k);
                }
            }
        }
    }
    s.0
}

const PARSERS: [(&str, &str); 13] = [
    ("token.local", "token.local"), ("token.public", "token.public"), ("key.local", "key.local"), ("key.public", "key.public"),
    ("key.secret", "key.secret"), ("id.lid", "id.lid"), ("id.pid", "id.pid"), ("id.sid", "id.sid"), ("pie.local", "pie.local"),
    ("pie.secret", "pie.secret"), ("pw.local", "pw.local"), ("pw.secret", "pw.secret"), ("seal", "seal"),
];

fn header_of<B: Backend>(parser: &str) -> String {
    let v = <B::V as Version>::HEADER;
    let k = <B::V as Version>::PASERK_HEADER;
    match parser {
        "token.local" => format!("{v}.local."),
        "token.public" => format!("{v}.public."),
        "key.local" => format!("{k}.local."),
        "key.public" => format!("{k}.public."),
        "key.secret" => format!("{k}.secret."),
        "id.lid" => format!("{k}.lid."),
        "id.pid" => format!("{k}.pid."),
        "id.sid" => format!("{k}.sid."),
        "pie.local" => format!("{k}.local-wrap.pie."),
        "pie.secret" => format!("{k}.secret-wrap.pie."),
        "pw.local" => format!("{k}.local-pw."),
        "pw.secret" => format!("{k}.secret-pw."),
        _ => format!("{k}.seal."),
    }
}

fn content(rng: &mut Prng, cls: &str, len: usize) -> Vec<u8> {
    let mut v = match cls {
        "zero" => vec![0u8; len],
        "ones" => vec![0xffu8; len],
        _ => rng.bytes(len),
    };
    if let Some(t) = cls.strip_prefix("tag") {
        if len > 0 {
            v[0] = u8::from_str_radix(t, 16).unwrap();
        }
    }
    v
}

pub fn run_backend<B: Backend>(rec: &mut Recorder, progress: &mut std::fs::File, thorough: bool, seed: u64, valid: &[obs_cross::Item]) -> u64 {
    let mut rng = Prng::new(seed, &format!("c04-{}", B::NAME));
    let w = world::<B>(&mut rng);
    let mut n = 0u64;
    let mut go = |rec: &mut Recorder, parser: &str, text: String, cls: Value| {
        let _ = writeln!(progress, "{} {} {}", B::NAME, parser, hex::encode(text.as_bytes()));
        let steps = exercise::<B>(&w, parser, &text);
        let short = text.len() <= 120;
        rec.emit(json!({"fn":"safety","be":B::NAME,"ver":B::VER,"parser":parser,"cls":cls,"len":text.len(),
            "text": if short { codes(text.as_bytes()) } else { json!([]) }, "has_text": short, "steps":steps}));
        n += 1;
    };
    let lens: Vec<usize> = if thorough { (0..=700).collect() } else { (0..=140).chain((147..=700).step_by(7)).chain([591, 592, 593, 1190, 1191, 1192, 1193]).collect() };
    let classes: &[&str] = if thorough { &["random", "zero", "ones", "tag00", "tag02", "tag03", "tag04", "tag06", "tag30"] } else { &["random", "zero", "ones", "tag02", "tag04"] };
    for (parser, _) in PARSERS {
        let hdr = header_of::<B>(parser);
        // header classes
        for (hc, h) in [("empty", String::new()), ("truncated", hdr[..hdr.len() - 1].to_string()), ("other-version", hdr.replacen(&B::VER.to_string(), "9", 1)),
                        ("upper", hdr.to_uppercase()), ("doubled", format!("{hdr}{hdr}"))] {
            go(rec, parser, format!("{h}{}", crate::b64::enc(&rng.bytes(48))), json!({"header":hc}));
        }
        // multi-byte characters straddling every byte offset around the end of the header
        for cut in 0..=4usize.min(hdr.len()) {
            for ch in ["\u{e9}", "\u{20ac}", "\u{1f600}"] {
                let t = format!("{}{}{}", &hdr[..hdr.len() - cut], ch, crate::b64::enc(&rng.bytes(33)));
                go(rec, parser, t, json!({"header":"multibyte-straddle","cut":cut}));
                let t = format!("{}{}", &hdr[..hdr.len() - cut], ch);
                go(rec, parser, t, json!({"header":"multibyte-straddle-end","cut":cut}));
            }
        }
        // base64 classes
        for (bc, body) in [("padding", "QUJD=".to_string()), ("std-alphabet", "ab+/".to_string()), ("whitespace", "QUJD QUJD".to_string()), ("len1mod4", "QUJDQ".to_string()),
                           ("noncanonical", "QUJDQR".to_string()), ("nul", "QU\0D".to_string()), ("unicode", "QUJDé".to_string()), ("dots", "QUJD.QUJD.QUJD".to_string())] {
            go(rec, parser, format!("{hdr}{body}"), json!({"base64":bc}));
        }
        // raw bodies of 1..7 characters (valid alphabet, any count: including the counts no byte string encodes to), also as a footer
        for n in 1..=7usize {
            for fill in ["A", "Q", "_", "-", "9"] {
                let body = fill.repeat(n);
                go(rec, parser, format!("{hdr}{body}"), json!({"raw_chars":n,"fill":fill}));
                if parser.starts_with("token") {
                    go(rec, parser, format!("{hdr}{}.{body}", crate::b64::enc(&rng.bytes(70))), json!({"raw_chars":n,"fill":fill,"where":"footer"}));
                }
            }
        }
        // authentic tokens (sealed with this world's keys, so the typed decoders do run) whose payload or footer is damaged JSON text:
        // documents that end after a line feed, lone surrogates, deep nesting, multi-byte characters at every offset near 64, ...
        if parser.starts_with("token") {
            let mut docs: Vec<Vec<u8>> = ["", "\n", "{\n", "{\"kid\":\"x\",\n", "[1,\n2,\n", "\r\n", " ", "nul", "{\"a\":1}\n\n", "{\"a\":1}}", "\"\\ud800\"", "{\"exp\":\"\n", "{\"exp\":1}",
                "{\"exp\":\"2039-01-01T00:00:00Z\",\n", "\u{feff}{}", "1e999", "-", "[", "{\"\":"].iter().map(|d| d.as_bytes().to_vec()).collect();
            docs.push([b"[".repeat(200), b"]".repeat(200)].concat());
            docs.push(vec![0xff; 40]);
            docs.push(vec![0xc3]);
            for at in 56..=70usize {
                docs.push(format!("{{\"k\":\"{}\u{e9}\u{20ac}\u{1f600}\"}}", "a".repeat(at.saturating_sub(6))).into_bytes());
                docs.push(["\u{4e2d}".repeat(at / 3).as_bytes(), &vec![b'x'; at % 3][..], "\u{e9}".as_bytes()].concat());
            }
            for d in &docs {
                for (what, claims, footer) in [("payload", d.clone(), Vec::new()), ("footer", b"{}".to_vec(), d.clone()), ("both", d.clone(), d.clone())] {
                    let t = if parser == "token.local" {
                        UnsealedToken::<B::V, Local, Raw>::new(Raw(claims)).with_footer(footer).seal(&w.local, &[]).map(|t| t.to_string())
                    } else {
                        UnsealedToken::<B::V, Public, Raw>::new(Raw(claims)).with_footer(footer).seal(&w.secret, &[]).map(|t| t.to_string())
                    };
                    if let Ok(t) = t {
                        go(rec, parser, t, json!({"damaged_json":what,"doc_len":d.len()}));
                    }
                }
            }
        }
        // every decoded length x content class
        for &len in &lens {
            for cls in classes {
                if len > 140 && !thorough && *cls != "random" && *cls != "zero" {
                    continue;
                }
                let body = content(&mut rng, cls, len);
                go(rec, parser, format!("{hdr}{}", crate::b64::enc(&body)), json!({"len":len,"content":cls}));
                if parser.starts_with("token") && len % 9 == 0 {
                    let f = content(&mut rng, cls, len % 40);
                    go(rec, parser, format!("{hdr}{}.{}", crate::b64::enc(&body), crate::b64::enc(&f)), json!({"len":len,"content":cls,"footer":f.len()}));
                }
            }
        }
        // password-wrapped keys: every single bit of the cost parameter block flipped (what the budget allows is executed)
        if parser.starts_with("pw.") {
            for it in valid.iter().filter(|it| it.ver == B::VER && it.kind == parser) {
                let Some(body) = it.text.strip_prefix(&hdr).and_then(crate::b64::dec) else { continue };
                let (at, len) = if B::VER == 1 || B::VER == 3 { (32, 4) } else { (16, 16) };
                for bit in 0..len * 8 {
                    let mut b = body.clone();
                    if at + len > b.len() {
                        break;
                    }
                    b[at + bit / 8] ^= 0x80 >> (bit % 8);
                    go(rec, parser, format!("{hdr}{}", crate::b64::enc(&b)), json!({"valid_from":it.be,"mutation":"parameter-bit","bit":bit}));
                }
            }
        }
        // valid values of this kind (of every backend of the same version) with one mutation of the decoded body
        for it in valid.iter().filter(|it| it.ver == B::VER && (it.kind == parser || (it.kind == "key.pkepublic" && parser == "key.public") || (it.kind == "key.pkesecret" && parser == "key.secret"))) {
            go(rec, parser, it.text.clone(), json!({"valid_from":it.be}));
            let Some(rest) = it.text.strip_prefix(&hdr) else { continue };
            let (p, f) = rest.split_once('.').unwrap_or((rest, ""));
            let Some(body) = crate::b64::dec(p) else { continue };
            let reps = if thorough { 200 } else { 40 };
            for k in 0..reps {
                let mut b = body.clone();
                let what = match k % 5 {
                    0 if !b.is_empty() => {
                        let i = rng.below(b.len());
                        b[i] ^= 1 << rng.below(8);
                        "bitflip"
                    }
                    1 if !b.is_empty() => {
                        let i = rng.below(b.len());
                        b[i] = *rng.pick(&[0u8, 0xff, 0x80, 0x7f, 2, 4]);
                        "byte-set"
                    }
                    2 if !b.is_empty() => {
                        b.truncate(rng.below(b.len()));
                        "truncate"
                    }
                    3 => {
                        let extra = 1 + rng.below(4);
                        b.extend(rng.bytes(extra));
                        "extend"
                    }
                    _ => {
                        let i = rng.below(b.len() + 1);
                        let j = i + rng.below(b.len() + 1 - i);
                        for x in b[i..j].iter_mut() {
                            *x = 0;
                        }
                        "zero-range"
                    }
                };
                let t = if f.is_empty() { format!("{hdr}{}", crate::b64::enc(&b)) } else { format!("{hdr}{}.{f}", crate::b64::enc(&b)) };
                go(rec, parser, t, json!({"valid_from":it.be,"mutation":what}));
            }
        }
    }
    n
}

pub fn run(rec: &mut Recorder, progress_path: &str, thorough: bool, seed: u64, backends: &[String]) -> u64 {
    let mut progress = std::fs::File::create(progress_path).expect("progress file");
    let mut rng = Prng::new(seed, "c04-valid");
    let mut valid = Vec::new();
    for be in ALL {
        crate::with_backend!(be, catalogue_into(&mut rng, &mut valid));
    }
    let mut n = 0;
    for be in backends {
        n += crate::with_backend!(be.as_str(), run_backend(rec, &mut progress, thorough, seed, &valid));
    }
    n
}

fn catalogue_into<B: Backend>(rng: &mut Prng, out: &mut Vec<obs_cross::Item>) {
    obs_cross::catalogue_pub::<B>(rng, out)
}
