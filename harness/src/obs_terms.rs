//! C03 / C07 / C13: the real code against the L1 terms printed by Gen_Terms.tla, evaluated with the
//! primitive family the backend under test does not use.
//!
//! Directions (DESIGN.md 3.4):
//!   forward    caller-chosen / scripted randomness: real output == evaluated term, byte for byte
//!   backward   library randomness: cut the random fields out of the real output by the spec's layout,
//!              re-evaluate the term with them: must equal the real output
//!   verify     randomized signatures: valid under the independent verifier over the spec-computed bytes
//!   reference  evaluator-built token/blob for any embedded nonce: the backend must accept it and
//!              return the same claims / key
use crate::backends::*;
use crate::eval::{self, Env, Fam, prim};
use crate::payload::Raw;
use crate::prng::Prng;
use crate::rec::Recorder;
use crate::{drive_paserk as dp, drive_tokens as dt, keys, rng};
use paseto_core::key::Key;
use paseto_core::paserk::{PasswordWrappedKey, PieWrappedKey, SealedKey};
use paseto_core::tokens::{SealedToken, UnsealedToken};
use paseto_core::validation::NoValidation;
use paseto_core::version::{Local, PkeSecret, Public, Secret};
use serde_json::{Value, json};
use std::collections::HashMap;
use std::panic::{AssertUnwindSafe, catch_unwind};
use std::str::FromStr;

type Inputs = HashMap<String, Vec<u8>>;

fn ev(fam: Fam, t: &Value, inputs: &Inputs) -> Result<Vec<u8>, String> {
    catch_unwind(AssertUnwindSafe(|| eval::eval(t, &Env { fam, inputs }))).map_err(|p| {
        p.downcast_ref::<String>().cloned().or_else(|| p.downcast_ref::<&str>().map(|s| s.to_string())).unwrap_or_else(|| "evaluator panic".into())
    })
}

fn hexs(b: &[u8]) -> String {
    if b.len() <= 48 { hex::encode(b) } else { format!("{}..({} bytes)", hex::encode(&b[..24]), b.len()) }
}

struct Ctx<'a> {
    rec: &'a mut Recorder,
    case: &'a Value,
    be: &'static str,
    n: u64,
}

impl Ctx<'_> {
    fn emit(&mut self, dir: &str, rel: &str, holds: bool, extra: Value) {
        let c = self.case;
        let mut o = json!({"fn":"term","kind":c["kind"],"ver":c["ver"],"be":self.be,"dir":dir,"rel":rel,"holds":holds});
        for k in ["mlen", "flen", "ilen", "ktype", "klen", "cost"] {
            if !c[k].is_null() {
                o[k] = c[k].clone();
            }
        }
        if let Some(m) = extra.as_object() {
            for (k, v) in m {
                o[k] = v.clone();
            }
        }
        self.rec.emit(o);
        self.n += 1;
    }
    fn equal(&mut self, dir: &str, real: &[u8], want: &Result<Vec<u8>, String>, extra: Value) {
        let mut x = extra;
        match want {
            Ok(w) => {
                if real != w.as_slice() {
                    let at = real.iter().zip(w.iter()).position(|(a, b)| a != b).unwrap_or(real.len().min(w.len()));
                    x["first_difference_at"] = json!(at);
                    x["real"] = json!(hexs(real));
                    x["spec"] = json!(hexs(w));
                }
                x["real_len"] = json!(real.len());
                x["spec_len"] = json!(w.len());
                self.emit(dir, "equal", real == w.as_slice(), x)
            }
            Err(e) => {
                x["evaluator_error"] = json!(e);
                self.emit(dir, "equal", false, x)
            }
        }
    }
}

fn special_nonces(len: usize, rng: &mut Prng) -> Vec<(&'static str, Vec<u8>)> {
    let mut v = vec![("random", rng.bytes(len)), ("zero", vec![0u8; len]), ("ones", vec![0xff; len])];
    let mut w = vec![0xffu8; len];
    w[len - 1] = 0xfe;
    v.push(("ones-minus-1", w));
    // low 64 bits of the trailing 16 bytes all ones, upper bits random: the low counter word wraps on the first increment
    let mut x = rng.bytes(len);
    for b in x[len - 8..].iter_mut() {
        *b = 0xff;
    }
    v.push(("low64-ones", x));
    v
}

// ------------------------------------------------------------------------------------------- local
fn local_case<B: Backend>(cx: &mut Ctx, rng: &mut Prng, thorough: bool) {
    let c = cx.case;
    let fam = eval::fam_against(B::NAME);
    let (ml, fl, il) = (c["mlen"].as_u64().unwrap() as usize, c["flen"].as_u64().unwrap() as usize, c["ilen"].as_u64().unwrap() as usize);
    let rlen = if B::VER == 2 { 24 } else { 32 };
    let keyb = if ml % 7 == 3 { vec![0u8; 32] } else { rng.bytes(32) };
    let key: LocalKey<B> = key_from_bytes(&keyb).unwrap();
    let (m, f, i) = (rng.bytes(ml), rng.bytes(fl), rng.bytes(il));
    let hdr = dt::header::<B, Local>();
    let mut base: Inputs = HashMap::new();
    base.insert("key".into(), keyb.clone());
    base.insert("m".into(), m.clone());
    base.insert("f".into(), f.clone());
    base.insert("i".into(), i.clone());
    // forward: dangerous_seal_with_nonce with caller randomness; each call is followed by the same call under a
    // neighbouring key (same nonce, message, footer, assertion), so that nothing remembered from one call can leak into the next
    let keyb2 = { let mut k = keyb.clone(); k[31] ^= 1; k };
    let key2: LocalKey<B> = key_from_bytes(&keyb2).unwrap();
    let rnds = special_nonces(rlen, rng);
    for (name, r) in rnds.iter().take(if thorough { 5 } else { 3 }) {
        for (which, kb, k) in [("", &keyb, &key), ("neighbour-key", &keyb2, &key2)] {
            let tok = UnsealedToken::<B::V, Local, Raw>::new(Raw(m.clone())).with_footer(f.clone()).dangerous_seal_with_nonce(k, &i, r.clone());
            let mut inp = base.clone();
            inp.insert("key".into(), kb.clone());
            inp.insert("rnd".into(), r.clone());
            match tok {
                Ok(t) => {
                    let (p, _) = dt::split_token(&t.to_string(), hdr.len()).unwrap_or_default();
                    cx.equal("forward", &p, &ev(fam, &c["payload"], &inp), json!({"nonce": name, "after": which}));
                }
                Err(e) => cx.emit("forward", "equal", false, json!({"nonce": name, "after": which, "real_error": errname(&e)})),
            }
        }
    }
    // the encoding suffix is part of the authenticated header: the same forward comparison for a payload type that declares "c"
    if let Some((name, r)) = rnds.first() {
        let tok = UnsealedToken::<B::V, Local, crate::payload::RawC>::new(crate::payload::RawC(m.clone())).with_footer(f.clone()).dangerous_seal_with_nonce(&key, &i, r.clone());
        let mut inp = base.clone();
        inp.insert("rnd".into(), r.clone());
        match tok {
            Ok(t) => {
                let text = t.to_string();
                let hc = dt::header_c::<B, Local, true>();
                let p = if text.starts_with(&hc) { dt::split_token(&text, hc.len()).unwrap_or_default().0 } else { Vec::new() };
                cx.equal("forward", &p, &ev(fam, &c["payload_sfx"], &inp), json!({"nonce": name, "encoding": "c"}));
            }
            Err(e) => cx.emit("forward", "equal", false, json!({"nonce": name, "encoding": "c", "real_error": errname(&e)})),
        }
    }
    // backward with a key OBJECT that came out of LocalKey::random(): the token is the specification's token for its bytes
    if let Ok(gk) = LocalKey::<B>::random() {
        let gkb = key_bytes(&gk);
        if let Ok(t) = UnsealedToken::<B::V, Local, Raw>::new(Raw(m.clone())).with_footer(f.clone()).seal(&gk, &i) {
            let (p, _) = dt::split_token(&t.to_string(), hdr.len()).unwrap_or_default();
            let nl = c["nonce_len"].as_u64().unwrap() as usize;
            let mut inp = base.clone();
            inp.insert("key".into(), gkb);
            inp.insert("nonce".into(), p.get(..nl).unwrap_or(&[]).to_vec());
            if p.len() >= nl {
                cx.equal("backward", &p, &ev(fam, &c["payload_from_nonce"], &inp), json!({"key": "generated object"}));
            } else {
                cx.emit("backward", "equal", false, json!({"real_len": p.len(), "key": "generated object"}));
            }
        } else {
            cx.emit("backward", "equal", false, json!({"real_error": "seal with a generated key failed"}));
        }
    }
    // backward: library randomness, nonce cut out by the spec's layout
    if let Ok(t) = UnsealedToken::<B::V, Local, Raw>::new(Raw(m.clone())).with_footer(f.clone()).seal(&key, &i) {
        let (p, _) = dt::split_token(&t.to_string(), hdr.len()).unwrap_or_default();
        let nl = c["nonce_len"].as_u64().unwrap() as usize;
        let mut inp = base.clone();
        inp.insert("nonce".into(), p.get(..nl).unwrap_or(&[]).to_vec());
        if p.len() >= nl {
            cx.equal("backward", &p, &ev(fam, &c["payload_from_nonce"], &inp), json!({}));
        } else {
            cx.emit("backward", "equal", false, json!({"real_len": p.len()}));
        }
    } else {
        cx.emit("backward", "equal", false, json!({"real_error": "seal failed"}));
    }
    // reference: spec-built tokens for chosen embedded nonces must decrypt to m (again under both keys in turn); the list ends with
    // pairs of nonces that share their first / their second half (whatever is remembered from one token under one part of the nonce)
    let mut refs = special_nonces(rlen, rng);
    {
        let (a, b, c) = (rng.bytes(rlen / 2), rng.bytes(rlen - rlen / 2), rng.bytes(rlen - rlen / 2));
        refs.push(("shared-first-half-1", [a.clone(), b.clone()].concat()));
        refs.push(("shared-first-half-2", [a.clone(), c.clone()].concat()));
        let d = rng.bytes(rlen / 2);
        refs.push(("shared-second-half-1", [a, b.clone()].concat()));
        refs.push(("shared-second-half-2", [d, b].concat()));
    }
    for (name, n) in refs {
        for (which, kb, k) in [("", &keyb, &key), ("neighbour-key", &keyb2, &key2)] {
            // the half-sharing pairs are presented one directly after the other under ONE key
            if name.starts_with("shared-") && !which.is_empty() {
                continue;
            }
            let mut inp = base.clone();
            inp.insert("key".into(), kb.clone());
            inp.insert("nonce".into(), n.clone());
            match ev(fam, &c["payload_from_nonce"], &inp) {
                Ok(p) => {
                    let text = dt::token_string::<B, Local>(&p, &f);
                    {
                        // the same key object refuses a corrupted copy first
                        let mut bad = p.clone();
                        let n = bad.len();
                        bad[n - 1] ^= 0x80;
                        let bt = dt::token_string::<B, Local>(&bad, &f);
                        let _ = catch_unwind(AssertUnwindSafe(|| {
                            SealedToken::<B::V, Local, Raw, Vec<u8>>::from_str(&bt).and_then(|t| t.unseal(k, &i, &NoValidation::dangerous_no_validation())).is_ok()
                        }));
                    }
                    let r = catch_unwind(AssertUnwindSafe(|| {
                        SealedToken::<B::V, Local, Raw, Vec<u8>>::from_str(&text).and_then(|t| t.unseal(k, &i, &NoValidation::dangerous_no_validation()))
                    }));
                    match r {
                        Ok(Ok(u)) => cx.emit("reference", "accepted-same", u.claims.0 == m && u.footer == f, json!({"nonce": name, "after": which, "accepted": true, "claims_len": u.claims.0.len()})),
                        Ok(Err(e)) => cx.emit("reference", "accepted-same", false, json!({"nonce": name, "after": which, "accepted": false, "real_error": errname(&e)})),
                        Err(_) => cx.emit("reference", "accepted-same", false, json!({"nonce": name, "after": which, "panic": true})),
                    }
                }
                Err(e) => cx.emit("reference", "accepted-same", false, json!({"evaluator_error": e})),
            }
        }
    }
    typed_footer_reference::<B>(cx, rng, fam, &keyb, &m, &i);
}

/// A conforming token whose footer bytes are not what the receiver's typed footer would write itself (insignificant trailing spaces
/// for the harness' NormFooter, as whitespace is for a JSON footer): the WIRE bytes are what is authenticated, so it is accepted.
fn typed_footer_reference<B: Backend>(cx: &mut Ctx, rng: &mut Prng, fam: Fam, keyb: &[u8], m: &[u8], i: &[u8]) {
    let c = cx.case;
    let Ok(key) = key_from_bytes::<B::V, Local>(keyb) else { return };
    let mut f = rng.bytes(6);
    for b in f.iter_mut() {
        if *b == b' ' {
            *b = b'x';
        }
    }
    f.extend_from_slice(b"   ");
    let mut inp: Inputs = HashMap::new();
    inp.insert("key".into(), keyb.to_vec());
    inp.insert("m".into(), m.to_vec());
    inp.insert("f".into(), f.clone());
    inp.insert("i".into(), i.to_vec());
    inp.insert("nonce".into(), rng.bytes(if B::VER == 2 { 24 } else { 32 }));
    // the term was generated for this case's footer length; only cases whose footer length is the one used here are evaluated
    if c["flen"].as_u64() != Some(f.len() as u64) {
        return;
    }
    if let Ok(p) = ev(fam, &c["payload_from_nonce"], &inp) {
        let text = dt::token_string::<B, Local>(&p, &f);
        let r = catch_unwind(AssertUnwindSafe(|| {
            SealedToken::<B::V, Local, Raw, crate::payload::NormFooter>::from_str(&text).and_then(|t| t.unseal(&key, i, &NoValidation::dangerous_no_validation()))
        }));
        match r {
            Ok(Ok(u)) => cx.emit("reference", "accepted-same", u.claims.0 == m, json!({"accepted": true, "footer": "typed, wire bytes not canonical for the type"})),
            Ok(Err(e)) => cx.emit("reference", "accepted-same", false, json!({"accepted": false, "footer": "typed, wire bytes not canonical for the type", "real_error": errname(&e)})),
            Err(_) => cx.emit("reference", "accepted-same", false, json!({"panic": true})),
        }
    }
}

/// v3.local with the derived counter block substituted through the verification hook (both backends)
fn local_iv_case<B: Backend>(cx: &mut Ctx, rng: &mut Prng) {
    let c = cx.case;
    if B::VER != 3 {
        return;
    }
    let fam = eval::fam_against(B::NAME);
    let (ml, fl, il) = (c["mlen"].as_u64().unwrap() as usize, c["flen"].as_u64().unwrap() as usize, c["ilen"].as_u64().unwrap() as usize);
    if ml < 17 || ml > 300 {
        return; // the counter only matters from the second block on
    }
    let keyb = rng.bytes(32);
    let key: LocalKey<B> = key_from_bytes(&keyb).unwrap();
    let (m, f, i) = (rng.bytes(ml), rng.bytes(fl), rng.bytes(il));
    let hdr = dt::header::<B, Local>();
    for (name, iv) in special_nonces(16, rng) {
        let n = rng.bytes(32);
        let mut inp: Inputs = HashMap::new();
        inp.insert("key".into(), keyb.clone());
        inp.insert("m".into(), m.clone());
        inp.insert("f".into(), f.clone());
        inp.insert("i".into(), i.clone());
        inp.insert("nonce".into(), n.clone());
        inp.insert("iv".into(), iv.clone());
        let want = ev(fam, &c["payload_iv"], &inp);
        paseto_core::verif::set_iv_override(Some(iv.clone().try_into().unwrap()));
        let tok = UnsealedToken::<B::V, Local, Raw>::new(Raw(m.clone())).with_footer(f.clone()).dangerous_seal_with_nonce(&key, &i, n.clone());
        let back = want.as_ref().ok().map(|p| {
            let text = dt::token_string::<B, Local>(p, &f);
            catch_unwind(AssertUnwindSafe(|| SealedToken::<B::V, Local, Raw, Vec<u8>>::from_str(&text).and_then(|t| t.unseal(&key, &i, &NoValidation::dangerous_no_validation()))))
        });
        paseto_core::verif::set_iv_override(None);
        match tok {
            Ok(t) => {
                let (p, _) = dt::split_token(&t.to_string(), hdr.len()).unwrap_or_default();
                cx.equal("forward", &p, &want, json!({"nonce": name, "hook": "derived-iv"}));
            }
            Err(e) => cx.emit("forward", "equal", false, json!({"nonce": name, "hook": "derived-iv", "real_error": errname(&e)})),
        }
        match back {
            Some(Ok(Ok(u))) => cx.emit("reference", "accepted-same", u.claims.0 == m, json!({"nonce": name, "hook": "derived-iv", "accepted": true})),
            Some(Ok(Err(e))) => cx.emit("reference", "accepted-same", false, json!({"nonce": name, "hook": "derived-iv", "accepted": false, "real_error": errname(&e)})),
            _ => cx.emit("reference", "accepted-same", false, json!({"nonce": name, "hook": "derived-iv", "panic_or_evaluator_error": true})),
        }
    }
}

// ------------------------------------------------------------------------------------------- public
fn sig_verify(fam: Fam, ver: u32, pk: &[u8], msg: &[u8], sig: &[u8]) -> bool {
    match ver {
        1 => prim::rsa_pss_verify(fam, pk, msg, sig),
        3 => prim::ecdsa_p384_verify(fam, pk, msg, sig),
        _ => prim::ed25519_verify(fam, pk, msg, sig),
    }
}
fn sig_sign(fam: Fam, ver: u32, sk: &[u8], msg: &[u8]) -> Vec<u8> {
    match ver {
        1 => prim::rsa_pss_sign(fam, sk, msg),
        3 => prim::ecdsa_p384_sign(fam, sk, msg),
        _ => prim::ed25519_sign(fam, &sk[..32], msg),
    }
}

fn public_case<B: Backend>(cx: &mut Ctx, rng: &mut Prng, pairs: &[keys::Pair]) {
    let c = cx.case;
    let fam = eval::fam_against(B::NAME);
    let (ml, fl, il) = (c["mlen"].as_u64().unwrap() as usize, c["flen"].as_u64().unwrap() as usize, c["ilen"].as_u64().unwrap() as usize);
    let kp = &pairs[(ml + fl) % pairs.len()];
    let sk: SecretKey<B> = key_from_bytes(&kp.secret).unwrap();
    let pk: PublicKey<B> = key_from_bytes(&kp.public).unwrap();
    let (m, f, i) = (rng.bytes(ml), rng.bytes(fl), rng.bytes(il));
    let mut inp: Inputs = HashMap::new();
    inp.insert("m".into(), m.clone());
    inp.insert("f".into(), f.clone());
    inp.insert("i".into(), i.clone());
    inp.insert("pk".into(), kp.public.clone());
    let tbs = ev(fam, &c["tbs"], &inp);
    let sl = c["sig_len"].as_u64().unwrap() as usize;
    let hdr = dt::header::<B, Public>();
    // the library signs; the independent verifier checks the signature over the spec-computed bytes
    match UnsealedToken::<B::V, Public, Raw>::new(Raw(m.clone())).with_footer(f.clone()).seal(&sk, &i) {
        Ok(t) => {
            let (p, _) = dt::split_token(&t.to_string(), hdr.len()).unwrap_or_default();
            if p.len() == ml + sl {
                let sig = &p[ml..];
                match &tbs {
                    Ok(b) => {
                        cx.emit("verify", "valid", p[..ml] == m[..] && sig_verify(fam, B::VER, &kp.public, b, sig), json!({"leading_zero": sig[0] == 0 || sig[sl / 2] == 0}));
                        if B::VER == 2 || B::VER == 4 {
                            let want = Ok(sig_sign(fam, B::VER, &kp.secret, b));
                            cx.equal("forward", sig, &want, json!({"what": "deterministic signature"}));
                        }
                    }
                    Err(e) => cx.emit("verify", "valid", false, json!({"evaluator_error": e})),
                }
            } else {
                cx.emit("verify", "valid", false, json!({"real_len": p.len(), "spec_len": ml + sl}));
            }
        }
        Err(e) => cx.emit("verify", "valid", false, json!({"real_error": errname(&e)})),
    }
    // a clone of the signing key signs like the original: valid, and for deterministic schemes byte-identical
    if let Ok(b) = &tbs {
        let skc = sk.clone();
        match UnsealedToken::<B::V, Public, Raw>::new(Raw(m.clone())).with_footer(f.clone()).seal(&skc, &i) {
            Ok(t) => {
                let (p, _) = dt::split_token(&t.to_string(), hdr.len()).unwrap_or_default();
                let good = p.len() == ml + sl && p[..ml] == m[..] && sig_verify(fam, B::VER, &kp.public, b, &p[ml..]);
                cx.emit("verify", "valid", good, json!({"signer": "clone"}));
                if (B::VER == 2 || B::VER == 4) && p.len() == ml + sl {
                    cx.equal("forward", &p[ml..], &Ok(sig_sign(fam, B::VER, &kp.secret, b)), json!({"what": "deterministic signature", "signer": "clone"}));
                }
            }
            Err(e) => cx.emit("verify", "valid", false, json!({"signer": "clone", "real_error": errname(&e)})),
        }
    }
    // the encoding suffix is part of the signed header
    {
        let tbs_c = ev(fam, &c["tbs_sfx"], &inp);
        let hc = dt::header_c::<B, Public, true>();
        match (UnsealedToken::<B::V, Public, crate::payload::RawC>::new(crate::payload::RawC(m.clone())).with_footer(f.clone()).seal(&sk, &i), &tbs_c) {
            (Ok(t), Ok(b)) => {
                let text = t.to_string();
                let p = if text.starts_with(&hc) { dt::split_token(&text, hc.len()).unwrap_or_default().0 } else { Vec::new() };
                let good = p.len() == ml + sl && p[..ml] == m[..] && sig_verify(fam, B::VER, &kp.public, b, &p[ml..]);
                cx.emit("verify", "valid", good, json!({"encoding": "c"}));
                // and the independent signer's token for that header is accepted by the parser of that encoding only
                let sig = sig_sign(fam, B::VER, &kp.secret, b);
                let mut p2 = m.clone();
                p2.extend_from_slice(&sig);
                let body = dt::token_string::<B, Public>(&p2, &f);
                let text_c = format!("{}{}", hc, &body[hdr.len()..]);
                let r = catch_unwind(AssertUnwindSafe(|| {
                    SealedToken::<B::V, Public, crate::payload::RawC, Vec<u8>>::from_str(&text_c).and_then(|t| t.unseal(&pk, &i, &NoValidation::dangerous_no_validation()))
                }));
                match r {
                    Ok(Ok(u)) => cx.emit("reference", "accepted-same", u.claims.0 == m && u.footer == f, json!({"accepted": true, "encoding": "c"})),
                    Ok(Err(e)) => cx.emit("reference", "accepted-same", false, json!({"accepted": false, "encoding": "c", "real_error": errname(&e)})),
                    Err(_) => cx.emit("reference", "accepted-same", false, json!({"panic": true, "encoding": "c"})),
                }
            }
            (Err(e), _) => cx.emit("verify", "valid", false, json!({"encoding": "c", "real_error": errname(&e)})),
            (_, Err(e)) => cx.emit("verify", "valid", false, json!({"encoding": "c", "evaluator_error": e})),
        }
    }
    // reference: the independent signer signs the spec-computed bytes; the library must accept
    if let Ok(b) = &tbs {
        let sig = sig_sign(fam, B::VER, &kp.secret, b);
        let mut p = m.clone();
        p.extend_from_slice(&sig);
        let text = dt::token_string::<B, Public>(&p, &f);
        // a forged token is refused by the same long-lived key object first: nothing that refusal leaves behind (in the key, in a
        // thread-local, in a library error queue) may change the verdict on the conforming token that follows
        {
            let mut forged = p.clone();
            let n = forged.len();
            forged[n - 1] ^= 0x01;
            let ft = dt::token_string::<B, Public>(&forged, &f);
            let _ = catch_unwind(AssertUnwindSafe(|| {
                SealedToken::<B::V, Public, Raw, Vec<u8>>::from_str(&ft).and_then(|t| t.unseal(&pk, &i, &NoValidation::dangerous_no_validation())).is_ok()
            }));
        }
        let r = catch_unwind(AssertUnwindSafe(|| {
            SealedToken::<B::V, Public, Raw, Vec<u8>>::from_str(&text).and_then(|t| t.unseal(&pk, &i, &NoValidation::dangerous_no_validation()))
        }));
        match r {
            Ok(Ok(u)) => cx.emit("reference", "accepted-same", u.claims.0 == m && u.footer == f, json!({"accepted": true, "after": "rejected-forgery"})),
            Ok(Err(e)) => cx.emit("reference", "accepted-same", false, json!({"accepted": false, "real_error": errname(&e)})),
            Err(_) => cx.emit("reference", "accepted-same", false, json!({"panic": true})),
        }
    }
}

// ------------------------------------------------------------------------------------------- PIE / PBKW
fn wrapped_key_bytes<B: Backend>(rng: &mut Prng, ktype: &str, klen: usize, pairs: &[keys::Pair]) -> Option<Vec<u8>> {
    if ktype == "local" {
        return Some(rng.bytes(32));
    }
    pairs.iter().map(|p| p.secret.clone()).find(|s| s.len() == klen)
}

fn unwrap_generic<B: Backend>(kind: &str, ktype: &str, text: &str, with: &[u8]) -> Result<Vec<u8>, String> {
    let r = catch_unwind(AssertUnwindSafe(|| -> Result<Vec<u8>, paseto_core::PasetoError> {
        match (kind, ktype) {
            ("pie", "local") => PieWrappedKey::<B::V, Local>::from_str(text)?.unwrap(&key_from_bytes::<B::V, Local>(with)?).map(|k| key_bytes(&k)),
            ("pie", _) => PieWrappedKey::<B::V, Secret>::from_str(text)?.unwrap(&key_from_bytes::<B::V, Local>(with)?).map(|k| key_bytes(&k)),
            ("pw", "local") => PasswordWrappedKey::<B::V, Local>::from_str(text)?.unwrap(with).map(|k| key_bytes(&k)),
            _ => PasswordWrappedKey::<B::V, Secret>::from_str(text)?.unwrap(with).map(|k| key_bytes(&k)),
        }
    }));
    match r {
        Ok(Ok(k)) => Ok(k),
        Ok(Err(e)) => Err(errname(&e).to_string()),
        Err(_) => Err("panic".into()),
    }
}

fn wrap_generic<B: Backend>(kind: &str, ktype: &str, key: &[u8], with: &[u8], cost: Option<(u64, u32, u32)>) -> Result<String, String> {
    let r = catch_unwind(AssertUnwindSafe(|| -> Result<String, paseto_core::PasetoError> {
        match (kind, ktype) {
            ("pie", "local") => key_from_bytes::<B::V, Local>(key)?.wrap_pie(&key_from_bytes::<B::V, Local>(with)?).map(|w| w.to_string()),
            ("pie", _) => key_from_bytes::<B::V, Secret>(key)?.wrap_pie(&key_from_bytes::<B::V, Local>(with)?).map(|w| w.to_string()),
            ("pw", "local") => key_from_bytes::<B::V, Local>(key)?.password_wrap_with_params(with, &dp::pw_params::<B>(cost.unwrap())).map(|w| w.to_string()),
            _ => key_from_bytes::<B::V, Secret>(key)?.password_wrap_with_params(with, &dp::pw_params::<B>(cost.unwrap())).map(|w| w.to_string()),
        }
    }));
    match r {
        Ok(Ok(k)) => Ok(k),
        Ok(Err(e)) => Err(errname(&e).to_string()),
        Err(_) => Err("panic".into()),
    }
}

fn wrap_case<B: Backend>(cx: &mut Ctx, rng: &mut Prng, pairs: &[keys::Pair]) {
    let c = cx.case;
    let fam = eval::fam_against(B::NAME);
    let kind = c["kind"].as_str().unwrap();
    let ktype = c["ktype"].as_str().unwrap();
    let klen = c["klen"].as_u64().unwrap() as usize;
    let Some(ptk) = wrapped_key_bytes::<B>(rng, ktype, klen, pairs) else { return };
    let hdr = if kind == "pie" {
        if ktype == "local" { dp::hdr_pie::<B, Local>() } else { dp::hdr_pie::<B, Secret>() }
    } else if ktype == "local" {
        dp::hdr_pw::<B, Local>()
    } else {
        dp::hdr_pw::<B, Secret>()
    };
    // secrets and layout
    let (with, cost): (Vec<u8>, Option<(u64, u32, u32)>) = if kind == "pie" {
        (rng.bytes(32), None)
    } else {
        let cv = c["cost"].as_array().unwrap();
        let raw = (cv[0].as_u64().unwrap(), cv[1].as_u64().unwrap() as u32, cv[2].as_u64().unwrap() as u32);
        // the term carries (iterations | mem KiB, time, para); the library's Params carry mem in bytes
        let cost = if B::VER == 1 || B::VER == 3 { raw } else { (raw.0 * 1024, raw.1, raw.2) };
        (vec![b"".to_vec(), b"hunter2".to_vec(), rng.bytes(40)][klen % 3].clone(), Some(cost))
    };
    // several Argon2 lanes: libsodium has no such parameter, so only the RustCrypto evaluator can follow the specification
    // there, and paseto-v4-sodium may legitimately refuse to wrap with it (then nothing is produced and nothing is recorded)
    let lanes = cost.map(|c| (B::VER == 2 || B::VER == 4) && c.2 != 1).unwrap_or(false);
    if lanes && fam == Fam::Native {
        return;
    }
    let mut base: Inputs = HashMap::new();
    base.insert(if kind == "pie" { "wk" } else { "pw" }.into(), with.clone());
    base.insert("ptk".into(), ptk.clone());
    let fields = |blob: &[u8]| -> Option<Inputs> {
        let mut i = base.clone();
        if kind == "pie" {
            let at = c["nonce_at"].as_u64().unwrap() as usize;
            i.insert("n".into(), blob.get(at..at + 32)?.to_vec());
        } else {
            let (sl, pl, nl) = (c["salt_len"].as_u64().unwrap() as usize, c["param_len"].as_u64().unwrap() as usize, c["nonce_len"].as_u64().unwrap() as usize);
            i.insert("s".into(), blob.get(..sl)?.to_vec());
            i.insert("n".into(), blob.get(sl + pl..sl + pl + nl)?.to_vec());
        }
        Some(i)
    };
    // backward
    match wrap_generic::<B>(kind, ktype, &ptk, &with, cost) {
        Ok(text) => {
            let blob = text.strip_prefix(&hdr).and_then(crate::b64::dec).unwrap_or_default();
            match fields(&blob) {
                Some(inp) => cx.equal("backward", &blob, &ev(fam, &c["data"], &inp), json!({})),
                None => cx.emit("backward", "equal", false, json!({"real_len": blob.len()})),
            }
        }
        Err(e) => {
            if !lanes {
                cx.emit("backward", "equal", false, json!({"real_error": e}))
            }
        }
    }
    if lanes {
        return;
    }
    // backward again with a wrapping key OBJECT that came out of LocalKey::random() (not parsed from bytes): whatever the object
    // holds besides its 32 bytes, the blob is the specification's blob for those bytes
    if kind == "pie" && ktype == "local" {
        if let Ok(wk) = LocalKey::<B>::random() {
            let wkb = key_bytes(&wk);
            let r = catch_unwind(AssertUnwindSafe(|| key_from_bytes::<B::V, Local>(&ptk).and_then(|k| k.wrap_pie(&wk)).map(|w| w.to_string())));
            if let Ok(Ok(text)) = r {
                let blob = text.strip_prefix(&hdr).and_then(crate::b64::dec).unwrap_or_default();
                match fields(&blob) {
                    Some(mut inp) => {
                        inp.insert("wk".into(), wkb.clone());
                        cx.equal("backward", &blob, &ev(fam, &c["data"], &inp), json!({"wrapping_key": "generated object"}));
                    }
                    None => cx.emit("backward", "equal", false, json!({"real_len": blob.len(), "wrapping_key": "generated object"})),
                }
                // and the generated object opens the specification's blob for its bytes
                let mut inp = base.clone();
                inp.insert("wk".into(), wkb);
                inp.insert("n".into(), rng.bytes(32));
                if let Ok(b2) = ev(fam, &c["data"], &inp) {
                    let t2 = format!("{hdr}{}", crate::b64::enc(&b2));
                    let u = catch_unwind(AssertUnwindSafe(|| PieWrappedKey::<B::V, Local>::from_str(&t2).and_then(|w| w.unwrap(&wk)).map(|k| key_bytes(&k))));
                    cx.emit("reference", "accepted-same", matches!(&u, Ok(Ok(k)) if *k == ptk), json!({"wrapping_key": "generated object", "accepted": matches!(&u, Ok(Ok(_)))}));
                }
            } else {
                cx.emit("backward", "equal", false, json!({"real_error": "wrap with a generated key failed"}));
            }
        }
    }
    // a key wrapped under itself (wk = ptk): unusual, legitimate, and what the sibling backend and the specification produce for it
    if kind == "pie" && ktype == "local" {
        let mut inp: Inputs = HashMap::new();
        inp.insert("wk".into(), ptk.clone());
        inp.insert("ptk".into(), ptk.clone());
        match wrap_generic::<B>(kind, ktype, &ptk, &ptk, None) {
            Ok(text) => {
                let blob = text.strip_prefix(&hdr).and_then(crate::b64::dec).unwrap_or_default();
                let at = c["nonce_at"].as_u64().unwrap() as usize;
                match blob.get(at..at + 32) {
                    Some(n) => {
                        inp.insert("n".into(), n.to_vec());
                        cx.equal("backward", &blob, &ev(fam, &c["data"], &inp), json!({"self_wrap": true}));
                    }
                    None => cx.emit("backward", "equal", false, json!({"real_len": blob.len(), "self_wrap": true})),
                }
            }
            Err(e) => cx.emit("backward", "equal", false, json!({"real_error": e, "self_wrap": true})),
        }
        inp.insert("n".into(), rng.bytes(32));
        if let Ok(b2) = ev(fam, &c["data"], &inp) {
            let t2 = format!("{hdr}{}", crate::b64::enc(&b2));
            let u = catch_unwind(AssertUnwindSafe(|| PieWrappedKey::<B::V, Local>::from_str(&t2).and_then(|w| w.unwrap(&key_from_bytes::<B::V, Local>(&ptk)?)).map(|k| key_bytes(&k))));
            cx.emit("reference", "accepted-same", matches!(&u, Ok(Ok(k)) if *k == ptk), json!({"self_wrap": true, "accepted": matches!(&u, Ok(Ok(_)))}));
        }
    }
    // forward with scripted randomness (getrandom-0.3 backends): the drawn bytes are the embedded fields
    if B::GETRANDOM03 {
        let script = rng.bytes(64);
        let s2 = script.clone();
        rng::reset(rng::Source::Script(Box::new(move |idx, len| s2[(idx * 29) % 16..][..len].to_vec())), true, None, false);
        let r = wrap_generic::<B>(kind, ktype, &ptk, &with, cost);
        let draws = rng::take_log();
        rng::passthrough();
        crate::payload::spy_take();
        if let Ok(text) = r {
            let blob = text.strip_prefix(&hdr).and_then(crate::b64::dec).unwrap_or_default();
            let mut inp = base.clone();
            if kind == "pie" && draws.len() == 1 {
                inp.insert("n".into(), draws[0].val.clone());
            } else if kind == "pw" && draws.len() == 2 {
                inp.insert("s".into(), draws[0].val.clone());
                inp.insert("n".into(), draws[1].val.clone());
            }
            if inp.contains_key("n") {
                cx.equal("forward", &blob, &ev(fam, &c["data"], &inp), json!({"draws": draws.len()}));
            } else {
                cx.emit("forward", "equal", false, json!({"unexpected_draw_count": draws.len()}));
            }
        }
    }
    // PIE k1/k3: the derived counter block substituted through the verification hook
    if kind == "pie" && (B::VER == 1 || B::VER == 3) {
        for (name, iv) in special_nonces(16, rng) {
            let mut inp = base.clone();
            inp.insert("iv".into(), iv.clone());
            paseto_core::verif::set_iv_override(Some(iv.clone().try_into().unwrap()));
            let r = wrap_generic::<B>(kind, ktype, &ptk, &with, cost);
            // and a spec-built blob for a fresh nonce must unwrap to the key under the same override
            let n2 = rng.bytes(32);
            let mut inp2 = inp.clone();
            inp2.insert("n".into(), n2);
            let refblob = ev(fam, &c["data_iv"], &inp2);
            let back = refblob.as_ref().ok().map(|b| unwrap_generic::<B>(kind, ktype, &format!("{hdr}{}", crate::b64::enc(b)), &with));
            paseto_core::verif::set_iv_override(None);
            match r {
                Ok(text) => {
                    let blob = text.strip_prefix(&hdr).and_then(crate::b64::dec).unwrap_or_default();
                    let at = c["nonce_at"].as_u64().unwrap() as usize;
                    if let Some(n) = blob.get(at..at + 32) {
                        inp.insert("n".into(), n.to_vec());
                        cx.equal("backward", &blob, &ev(fam, &c["data_iv"], &inp), json!({"nonce": name, "hook": "derived-iv"}));
                    }
                }
                Err(e) => cx.emit("backward", "equal", false, json!({"nonce": name, "hook": "derived-iv", "real_error": e})),
            }
            match back {
                Some(Ok(k)) => cx.emit("reference", "accepted-same", k == ptk, json!({"nonce": name, "hook": "derived-iv", "accepted": true})),
                Some(Err(e)) => cx.emit("reference", "accepted-same", false, json!({"nonce": name, "hook": "derived-iv", "accepted": false, "real_error": e})),
                None => cx.emit("reference", "accepted-same", false, json!({"nonce": name, "hook": "derived-iv", "evaluator_error": true})),
            }
        }
    }
    // reference blobs for chosen embedded nonces (incl. counters that carry past 64 bits)
    let nl = if kind == "pie" { 32 } else { c["nonce_len"].as_u64().unwrap() as usize };
    for (name, n) in special_nonces(nl, rng) {
        let mut inp = base.clone();
        inp.insert("n".into(), n);
        if kind == "pw" {
            inp.insert("s".into(), rng.bytes(c["salt_len"].as_u64().unwrap() as usize));
        }
        match ev(fam, &c["data"], &inp) {
            Ok(blob) => {
                let text = format!("{hdr}{}", crate::b64::enc(&blob));
                match unwrap_generic::<B>(kind, ktype, &text, &with) {
                    Ok(k) => cx.emit("reference", "accepted-same", k == ptk, json!({"nonce": name, "accepted": true,
                        "first_difference_at": k.iter().zip(ptk.iter()).position(|(a, b)| a != b).map(|x| x as i64).unwrap_or(-1)})),
                    Err(e) => cx.emit("reference", "accepted-same", false, json!({"nonce": name, "accepted": false, "real_error": e})),
                }
            }
            Err(e) => cx.emit("reference", "accepted-same", false, json!({"evaluator_error": e})),
        }
    }
    // PBKW: one reference blob per case under the SAME password and the SAME salt for every case of the backend; consecutive cases
    // differ in their cost parameters only, so a derived key remembered under (password, salt) would be the wrong one
    if kind == "pw" {
        // (longer than the 128-byte block of HMAC-SHA-384: PBKDF2 hashes such a password first, it does not truncate it)
        let pw = b"same password for every cost ".repeat(6);
        let mut inp = base.clone();
        inp.insert("pw".into(), pw.clone());
        inp.insert("s".into(), vec![0x5a; c["salt_len"].as_u64().unwrap() as usize]);
        inp.insert("n".into(), rng.bytes(nl));
        match ev(fam, &c["data"], &inp) {
            Ok(blob) => {
                let text = format!("{hdr}{}", crate::b64::enc(&blob));
                // the previous case's blob (same password, same salt, other cost) is opened immediately before this one
                {
                    use std::sync::Mutex;
                    static PREV: Mutex<Vec<(String, String, String, Vec<u8>)>> = Mutex::new(Vec::new());
                    let mut prev = PREV.lock().unwrap_or_else(|e| e.into_inner());
                    if let Some(pos) = prev.iter().position(|p| p.0 == B::NAME) {
                        let (_, pkt, ptext, pptk) = prev.remove(pos);
                        match unwrap_generic::<B>(kind, &pkt, &ptext, &pw) {
                            Ok(k) => cx.emit("reference", "accepted-same", k == pptk, json!({"same_password_and_salt": true, "accepted": true, "order": "previous cost first"})),
                            Err(e) => cx.emit("reference", "accepted-same", false, json!({"same_password_and_salt": true, "accepted": false, "order": "previous cost first", "real_error": e})),
                        }
                    }
                    prev.push((B::NAME.to_string(), ktype.to_string(), text.clone(), ptk.clone()));
                }
                match unwrap_generic::<B>(kind, ktype, &text, &pw) {
                    Ok(k) => cx.emit("reference", "accepted-same", k == ptk, json!({"same_password_and_salt": true, "accepted": true})),
                    Err(e) => cx.emit("reference", "accepted-same", false, json!({"same_password_and_salt": true, "accepted": false, "real_error": e})),
                }
            }
            Err(e) => cx.emit("reference", "accepted-same", false, json!({"evaluator_error": e})),
        }
    }
}

// ------------------------------------------------------------------------------------------- PKE
fn pke_case<B: Backend>(cx: &mut Ctx, rng: &mut Prng, recipients: &[keys::Pair]) {
    let c = cx.case;
    let fam = eval::fam_against(B::NAME);
    let dir = c["dir"].as_str().unwrap();
    let hdr = dp::hdr_seal::<B>();
    for (ri, r) in recipients.iter().enumerate() {
        let pdk = if ri == 0 { rng.bytes(32) } else { vec![0xffu8; 32] };
        let mut inp: Inputs = HashMap::new();
        inp.insert("pdk".into(), pdk.clone());
        inp.insert("pk".into(), r.public.clone());
        inp.insert("pk_der".into(), r.public.clone());
        inp.insert("sk_der".into(), r.secret.clone());
        inp.insert("sk".into(), r.secret.clone());
        inp.insert("sk_seed".into(), r.secret.get(..32).unwrap_or(&[]).to_vec());
        if dir == "recv" {
            // the library seals; the receiver-side term, fed with the ephemeral value cut from the blob, must reproduce it
            let lk: LocalKey<B> = key_from_bytes(&pdk).unwrap();
            let pk: PkePub<B> = key_from_bytes(&r.public).unwrap();
            match catch_unwind(AssertUnwindSafe(|| lk.clone().seal(&pk).map(|s| s.to_string()))) {
                Ok(Ok(text)) => {
                    let blob = text.strip_prefix(&hdr).and_then(crate::b64::dec).unwrap_or_default();
                    let want_len = c["len"].as_u64().unwrap() as usize;
                    if blob.len() != want_len {
                        cx.emit("backward", "equal", false, json!({"real_len": blob.len(), "spec_len": want_len}));
                        continue;
                    }
                    match B::VER {
                        1 => inp.insert("c".into(), blob[80..].to_vec()),
                        3 => inp.insert("epk".into(), blob[48..97].to_vec()),
                        _ => inp.insert("epk".into(), blob[32..64].to_vec()),
                    };
                    cx.equal("backward", &blob, &ev(fam, &c["data"], &inp), json!({}));
                }
                Ok(Err(e)) => cx.emit("backward", "equal", false, json!({"real_error": errname(&e)})),
                Err(_) => cx.emit("backward", "equal", false, json!({"panic": true})),
            }
            // k1/k3: the derived counter block substituted through the verification hook (seal, then unseal)
            if B::VER == 1 || B::VER == 3 {
                for (name, iv) in special_nonces(16, rng).into_iter().take(if B::VER == 1 { 2 } else { 5 }) {
                    paseto_core::verif::set_iv_override(Some(iv.clone().try_into().unwrap()));
                    let sealed = catch_unwind(AssertUnwindSafe(|| lk.clone().seal(&pk).map(|s| s.to_string())));
                    let un = match &sealed {
                        Ok(Ok(text)) => {
                            let sk: Key<B::V, PkeSecret> = key_from_bytes(&r.secret).unwrap();
                            catch_unwind(AssertUnwindSafe(|| SealedKey::<B::V>::from_str(text).and_then(|s| s.unseal(&sk)).map(|k| key_bytes(&k)))).ok().and_then(|x| x.ok())
                        }
                        _ => None,
                    };
                    paseto_core::verif::set_iv_override(None);
                    if let Ok(Ok(text)) = sealed {
                        let blob = text.strip_prefix(&hdr).and_then(crate::b64::dec).unwrap_or_default();
                        let mut i3 = inp.clone();
                        i3.insert("iv".into(), iv.clone());
                        match B::VER {
                            1 => i3.insert("c".into(), blob.get(80..).unwrap_or(&[]).to_vec()),
                            _ => i3.insert("epk".into(), blob.get(48..97).unwrap_or(&[]).to_vec()),
                        };
                        cx.equal("backward", &blob, &ev(fam, &c["data_iv"], &i3), json!({"nonce": name, "hook": "derived-iv"}));
                        cx.emit("reference", "accepted-same", un.as_deref() == Some(&pdk[..]), json!({"nonce": name, "hook": "derived-iv", "what": "unseal under the same counter block"}));
                    } else {
                        cx.emit("backward", "equal", false, json!({"nonce": name, "hook": "derived-iv", "real_error": "seal failed"}));
                    }
                }
            }
        } else {
            // the evaluator seals with its own ephemeral secret; the library must unseal to the same key
            for k in 0..3 {
                let mut i2 = inp.clone();
                match B::VER {
                    1 => {
                        let mut rr = rng.bytes(512);
                        rr[0] &= 0x7f;
                        rr[0] |= 0x40;
                        if k == 1 {
                            // an r whose RSA ciphertext has a leading zero byte is found by search over a few candidates
                            for _ in 0..600 {
                                let cand = {
                                    let mut x = rng.bytes(512);
                                    x[0] &= 0x7f;
                                    x[0] |= 0x40;
                                    x
                                };
                                if prim::rsa_ep(fam, &r.public, &cand, 512)[0] == 0 {
                                    rr = cand;
                                    break;
                                }
                            }
                        }
                        i2.insert("r".into(), rr);
                    }
                    3 => {
                        let mut e = rng.bytes(48);
                        e[0] &= 0x7f;
                        if k == 1 {
                            e = vec![0u8; 48];
                            e[47] = 2;
                        }
                        if k == 2 {
                            // an ephemeral secret whose ECDH shared x-coordinate has a leading zero byte (1 in 256), by search
                            for _ in 0..1500 {
                                let mut cand = rng.bytes(48);
                                cand[0] &= 0x7f;
                                if prim::p384_ecdh(fam, &cand, &r.public).first() == Some(&0) {
                                    e = cand;
                                    break;
                                }
                            }
                        }
                        i2.insert("esk".into(), e);
                    }
                    _ => {
                        i2.insert("esk".into(), if k == 1 { vec![0xffu8; 32] } else { rng.bytes(32) });
                    }
                }
                match ev(fam, &c["data"], &i2) {
                    Ok(blob) => {
                        let text = format!("{hdr}{}", crate::b64::enc(&blob));
                        let sk: Key<B::V, PkeSecret> = key_from_bytes(&r.secret).unwrap();
                        {
                            // the same key object refuses a corrupted copy first
                            let mut bad = blob.clone();
                            let n = bad.len();
                            bad[n - 1] ^= 0x01;
                            let bt = format!("{hdr}{}", crate::b64::enc(&bad));
                            let _ = catch_unwind(AssertUnwindSafe(|| SealedKey::<B::V>::from_str(&bt).and_then(|s| s.unseal(&sk)).is_ok()));
                        }
                        let rr = catch_unwind(AssertUnwindSafe(|| SealedKey::<B::V>::from_str(&text).and_then(|s| s.unseal(&sk)).map(|k| key_bytes(&k))));
                        match rr {
                            Ok(Ok(kb)) => cx.emit("reference", "accepted-same", kb == pdk, json!({"accepted": true, "variant": k, "c_leading_zero": B::VER == 1 && blob[80] == 0,
                                "xk_leading_zero": B::VER == 3 && i2.get("esk").map(|e| prim::p384_ecdh(fam, e, &r.public).first() == Some(&0)).unwrap_or(false)})),
                            Ok(Err(e)) => cx.emit("reference", "accepted-same", false, json!({"accepted": false, "variant": k, "real_error": errname(&e)})),
                            Err(_) => cx.emit("reference", "accepted-same", false, json!({"panic": true})),
                        }
                    }
                    Err(e) => cx.emit("reference", "accepted-same", false, json!({"evaluator_error": e})),
                }
            }
        }
    }
}

// ------------------------------------------------------------------------------------------- key ids
fn keyid_case<B: Backend>(cx: &mut Ctx, rng: &mut Prng, pairs: &[keys::Pair]) {
    let c = cx.case;
    let fam = eval::fam_against(B::NAME);
    let kind = c["ktype"].as_str().unwrap();
    let klen = c["klen"].as_u64().unwrap() as usize;
    let mut cands: Vec<(Vec<u8>, bool)> = match kind {
        "local" => vec![(rng.bytes(32), false), (vec![0u8; 32], false), (vec![0xff; 32], false)],
        "public" => pairs.iter().map(|p| (p.public.clone(), false)).filter(|k| k.0.len() == klen).collect(),
        _ => pairs.iter().map(|p| (p.secret.clone(), false)).filter(|k| k.0.len() == klen).collect(),
    };
    let mut pke_cands: Vec<Vec<u8>> = Vec::new();
    if B::VER == 1 && kind != "local" {
        // RSA keys exactly as an outside tool wrote them (DER from the fixture files, not bytes the library re-encoded itself; also a
        // public exponent of 3 and a 4096-bit key-sealing pair): a canonical DER key is kept as given (C08), so its text and id are
        // those of the bytes given
        for name in ["rsa2048-0", "rsa2048-1", "rsa2048e3-0", "rsa4096-0"] {
            let f = format!("{}/fixtures/{name}.{}.pem", env!("CARGO_MANIFEST_DIR"), if kind == "public" { "pub" } else { "sec" });
            if let Some(der) = std::fs::read(&f).ok().and_then(|pem| crate::obs_keys::pem_body(&pem)).filter(|d| d.len() == klen) {
                if name.starts_with("rsa4096") { pke_cands.push(der) } else { cands.push((der, false)) }
            }
        }
    }
    if kind == "public" && (B::VER == 2 || B::VER == 4) {
        // non-reduced encodings of curve points (y >= p): a backend may refuse them, but one that accepts them keeps the
        // bytes it was given (C08), so the id is the digest of the text it was given - on both backends of the version
        for low in 0xedu8..=0xff {
            for top in [0x7fu8, 0xff] {
                let mut e = vec![0xffu8; 32];
                e[0] = low;
                e[31] = top;
                if crate::obs_keys::ed_on_curve(&e).0 {
                    cands.push((e, true));
                }
            }
        }
    }
    for (kb, lenient) in cands {
        let mut inp: Inputs = HashMap::new();
        inp.insert("keybytes".into(), kb.clone());
        macro_rules! go {
            ($K:ty) => {{
                match key_from_bytes::<B::V, $K>(&kb) {
                    Ok(k) => {
                        let Ok(id) = catch_unwind(AssertUnwindSafe(|| k.id())) else {
                            cx.emit("forward", "equal", false, json!({"what": "id bytes", "panic": true}));
                            continue;
                        };
                        cx.equal("forward", id.as_bytes(), &ev(fam, &c["id"], &inp), json!({"what": "id bytes"}));
                        cx.equal("forward", id.to_string().as_bytes(), &ev(fam, &c["id_text"], &inp), json!({"what": "id text"}));
                        cx.equal("forward", k.expose_key().to_string().as_bytes(), &ev(fam, &c["key_text"], &inp), json!({"what": "key text"}));
                        // stable across clone and across serialise / parse
                        let again: Key<B::V, $K> = k.expose_key().to_string().parse().unwrap();
                        cx.emit("stable", "equal", again.id() == id && k.clone().id() == id, json!({"what": "clone / reparse"}));
                    }
                    Err(_) if lenient => {}
                    Err(_) => cx.emit("forward", "equal", false, json!({"real_error": "key does not parse"})),
                }
            }};
        }
        match kind {
            "local" => go!(Local),
            "public" => go!(Public),
            _ => go!(Secret),
        }
    }
    // key-sealing keys have ids too (pid / sid of their PASERK text)
    for kb in pke_cands {
        let mut inp: Inputs = HashMap::new();
        inp.insert("keybytes".into(), kb.clone());
        macro_rules! gop {
            ($K:ty) => {{
                match key_from_bytes::<B::V, $K>(&kb) {
                    Ok(k) => {
                        let Ok(id) = catch_unwind(AssertUnwindSafe(|| k.id())) else {
                            cx.emit("forward", "equal", false, json!({"what": "id bytes", "role": "key-sealing", "panic": true}));
                            continue;
                        };
                        cx.equal("forward", id.as_bytes(), &ev(fam, &c["id"], &inp), json!({"what": "id bytes", "role": "key-sealing"}));
                        cx.equal("forward", id.to_string().as_bytes(), &ev(fam, &c["id_text"], &inp), json!({"what": "id text", "role": "key-sealing"}));
                        cx.equal("forward", k.expose_key().to_string().as_bytes(), &ev(fam, &c["key_text"], &inp), json!({"what": "key text", "role": "key-sealing"}));
                    }
                    Err(_) => cx.emit("forward", "equal", false, json!({"real_error": "key-sealing key does not parse"})),
                }
            }};
        }
        if kind == "public" { gop!(paseto_core::version::PkePublic) } else { gop!(PkeSecret) }
    }
}

// ------------------------------------------------------------------------------------------- official vectors
/// L1 itself against the official test vectors (no backend involved): every positive vector must equal the evaluated
/// term under BOTH primitive families, so that a later disagreement between code and L1 is attributable.
fn vectors(rec: &mut Recorder, cases: &[Value], dir: &str, kinds: &[String], thorough: bool) -> u64 {
    let hexv = |v: &Value| hex::decode(v.as_str().unwrap_or("")).unwrap_or_default();
    let der = |b: Vec<u8>| if b.first() == Some(&0x2d) { crate::obs_keys::pem_body(&b).unwrap_or(b) } else { b };
    let find = |pred: &dyn Fn(&Value) -> bool| cases.iter().find(|c| pred(c));
    let mut n = 0u64;
    let mut emit = |rec: &mut Recorder, kind: &str, ver: u64, name: &str, fam: Fam, holds: bool, extra: Value| {
        let mut o = json!({"fn":"term","kind":kind,"ver":ver,"be":format!("L1/{fam:?}"),"dir":"vector","rel":"equal","holds":holds,"vector":name});
        if let Some(m) = extra.as_object() {
            for (k, v) in m {
                o[k] = v.clone();
            }
        }
        rec.emit(o);
        n += 1;
    };
    let read = |f: &str| -> Vec<Value> {
        std::fs::read_to_string(format!("{dir}/{f}")).ok().and_then(|s| serde_json::from_str::<Value>(&s).ok()).map(|v| v["tests"].as_array().cloned().unwrap_or_default()).unwrap_or_default()
    };
    for ver in 1..=4u64 {
        // ---- tokens
        if kinds.iter().any(|k| k == "local" || k == "public") {
            for t in read(&format!("v{ver}.json")) {
                if t["expect-fail"].as_bool().unwrap_or(true) {
                    continue;
                }
                let name = t["name"].as_str().unwrap_or("");
                let token = t["token"].as_str().unwrap_or("");
                let m = t["payload"].as_str().unwrap_or("").as_bytes().to_vec();
                let f = t["footer"].as_str().unwrap_or("").as_bytes().to_vec();
                let i = t["implicit-assertion"].as_str().unwrap_or("").as_bytes().to_vec();
                let local = !t["nonce"].is_null();
                let hdr = format!("v{ver}.{}.", if local { "local" } else { "public" });
                let Some((payload, _)) = crate::drive_tokens::split_token(token, hdr.len()) else { continue };
                let kind = if local { "local" } else { "public" };
                let Some(case) = find(&|c| c["kind"] == kind && c["ver"] == ver && c["mlen"] == m.len() && c["flen"] == f.len() && c["ilen"] == i.len()) else {
                    emit(rec, kind, ver, name, Fam::Rc, false, json!({"missing_case": [m.len(), f.len(), i.len()]}));
                    continue;
                };
                for fam in [Fam::Rc, Fam::Native] {
                    let mut inp: Inputs = HashMap::new();
                    inp.insert("m".into(), m.clone());
                    inp.insert("f".into(), f.clone());
                    inp.insert("i".into(), i.clone());
                    if local {
                        inp.insert("key".into(), hexv(&t["key"]));
                        inp.insert("rnd".into(), hexv(&t["nonce"]));
                        let w = ev(fam, &case["payload"], &inp);
                        emit(rec, kind, ver, name, fam, w.as_ref().map(|w| *w == payload).unwrap_or(false), json!({}));
                    } else {
                        let pk = der(hexv(&t["public-key"]));
                        let sk = der(hexv(&t["secret-key"]));
                        inp.insert("pk".into(), pk.clone());
                        let sl = case["sig_len"].as_u64().unwrap() as usize;
                        if payload.len() != m.len() + sl {
                            emit(rec, kind, ver, name, fam, false, json!({"payload_len": payload.len()}));
                            continue;
                        }
                        let sig = &payload[m.len()..];
                        let ok = match ev(fam, &case["tbs"], &inp) {
                            Ok(tbs) => {
                                payload[..m.len()] == m[..]
                                    && sig_verify(fam, ver as u32, &pk, &tbs, sig)
                                    && (ver == 1 || ver == 3 || sig_sign(fam, ver as u32, &sk, &tbs) == sig)
                            }
                            Err(_) => false,
                        };
                        emit(rec, kind, ver, name, fam, ok, json!({}));
                    }
                }
            }
        }
        // ---- PIE and PBKW
        for (kt, kind, file) in [("local", "pie", "local-wrap.pie"), ("secret", "pie", "secret-wrap.pie"), ("local", "pw", "local-pw"), ("secret", "pw", "secret-pw")] {
            if !kinds.iter().any(|k| k == kind) {
                continue;
            }
            for t in read(&format!("k{ver}.{file}.json")) {
                if t["expect-fail"].as_bool().unwrap_or(true) || t["paserk"].is_null() {
                    continue;
                }
                let name = t["name"].as_str().unwrap_or("");
                let hdr = format!("k{ver}.{file}.");
                let Some(blob) = t["paserk"].as_str().and_then(|s| s.strip_prefix(&hdr)).and_then(crate::b64::dec) else { continue };
                let ptk = der(hexv(&t["unwrapped"]));
                // the cost parameters are read from the blob itself (the parameter block is part of the format)
                let cost: Option<Vec<u64>> = if kind == "pw" {
                    dp::pw_cost_of(ver as u32, &blob).map(|c| if ver == 1 || ver == 3 { vec![c.0, 0, 0] } else { vec![c.0 / 1024, c.1 as u64, c.2 as u64] })
                } else {
                    None
                };
                // k1 secret keys are wrapped as PEM text in some vectors while `unwrapped` gives DER: those cannot be rebuilt from the file
                let overhead = if kind == "pie" { if ver == 1 || ver == 3 { 80 } else { 64 } } else if ver == 1 || ver == 3 { 100 } else { 88 };
                if blob.len() != ptk.len() + overhead {
                    continue;
                }
                // the 256 MiB Argon2id vectors cost seconds each: thorough tier only
                if !thorough && cost.as_ref().map(|c| ver % 2 == 0 && c[0] > 65536).unwrap_or(false) {
                    continue;
                }
                let Some(case) = find(&|c| {
                    c["kind"] == kind && c["ver"] == ver && c["ktype"] == kt && c["klen"] == ptk.len()
                        && cost.as_ref().map(|cv| c["cost"].as_array().map(|a| a.iter().map(|x| x.as_u64().unwrap_or(0)).collect::<Vec<_>>() == *cv).unwrap_or(false)).unwrap_or(true)
                }) else {
                    emit(rec, kind, ver, name, Fam::Rc, false, json!({"missing_case": [ptk.len()], "cost": cost}));
                    continue;
                };
                for fam in [Fam::Rc, Fam::Native] {
                    let mut inp: Inputs = HashMap::new();
                    inp.insert("ptk".into(), ptk.clone());
                    if kind == "pie" {
                        inp.insert("wk".into(), hexv(&t["wrapping-key"]));
                        let at = case["nonce_at"].as_u64().unwrap() as usize;
                        inp.insert("n".into(), blob.get(at..at + 32).unwrap_or(&[]).to_vec());
                    } else {
                        inp.insert("pw".into(), t["password"].as_str().unwrap_or("").as_bytes().to_vec()); // the vector files give the password as text
                        let (sl, pl, nl) = (case["salt_len"].as_u64().unwrap() as usize, case["param_len"].as_u64().unwrap() as usize, case["nonce_len"].as_u64().unwrap() as usize);
                        inp.insert("s".into(), blob.get(..sl).unwrap_or(&[]).to_vec());
                        inp.insert("n".into(), blob.get(sl + pl..sl + pl + nl).unwrap_or(&[]).to_vec());
                    }
                    let w = ev(fam, &case["data"], &inp);
                    let at = w.as_ref().ok().map(|w| w.iter().zip(blob.iter()).position(|(a, b)| a != b).map(|x| x as i64).unwrap_or(-1));
                    emit(rec, kind, ver, name, fam, w.as_ref().map(|w| *w == blob).unwrap_or(false),
                        json!({"first_difference_at": at, "spec_len": w.as_ref().map(|w| w.len()).unwrap_or(0), "vector_len": blob.len(), "evaluator_error": w.as_ref().err().cloned().unwrap_or_default()}));
                }
            }
        }
        // ---- key sealing
        if kinds.iter().any(|k| k == "pke") {
            for t in read(&format!("k{ver}.seal.json")) {
                if t["expect-fail"].as_bool().unwrap_or(true) || t["paserk"].is_null() {
                    continue;
                }
                let name = t["name"].as_str().unwrap_or("");
                let hdr = format!("k{ver}.seal.");
                let Some(blob) = t["paserk"].as_str().and_then(|s| s.strip_prefix(&hdr)).and_then(crate::b64::dec) else { continue };
                let Some(case) = find(&|c| c["kind"] == "pke" && c["ver"] == ver && c["dir"] == "recv") else { continue };
                let raw = |v: &Value| {
                    // hex of raw bytes, or a PEM text (v1)
                    let s = v.as_str().unwrap_or("");
                    if s.starts_with("-----") { s.as_bytes().to_vec() } else { hex::decode(s).unwrap_or_default() }
                };
                let sk = der(raw(&t["sealing-secret-key"]));
                let pk = der(raw(&t["sealing-public-key"]));
                for fam in [Fam::Rc, Fam::Native] {
                    let mut inp: Inputs = HashMap::new();
                    inp.insert("pdk".into(), hexv(&t["unsealed"]));
                    inp.insert("pk".into(), pk.clone());
                    inp.insert("pk_der".into(), pk.clone());
                    inp.insert("sk".into(), sk.clone());
                    inp.insert("sk_der".into(), sk.clone());
                    inp.insert("sk_seed".into(), sk.get(..32).unwrap_or(&[]).to_vec());
                    match ver {
                        1 => inp.insert("c".into(), blob.get(80..).unwrap_or(&[]).to_vec()),
                        3 => inp.insert("epk".into(), blob.get(48..97).unwrap_or(&[]).to_vec()),
                        _ => inp.insert("epk".into(), blob.get(32..64).unwrap_or(&[]).to_vec()),
                    };
                    let w = ev(fam, &case["data"], &inp);
                    emit(rec, "pke", ver, name, fam, w.as_ref().map(|w| *w == blob).unwrap_or(false), json!({}));
                }
            }
        }
        // ---- key ids (fixed-width key kinds; v1 keys are given as PEM in the vectors and are canonicalised by the library)
        if kinds.iter().any(|k| k == "keyid") && ver != 1 {
            for (kind, file) in [("local", "lid"), ("public", "pid"), ("secret", "sid")] {
                for t in read(&format!("k{ver}.{file}.json")) {
                    if t["expect-fail"].as_bool().unwrap_or(true) || t["paserk"].is_null() {
                        continue;
                    }
                    let name = t["name"].as_str().unwrap_or("");
                    let kb = hexv(&t["key"]);
                    let Some(case) = find(&|c| c["kind"] == "keyid" && c["ver"] == ver && c["ktype"] == kind && c["klen"] == kb.len()) else { continue };
                    for fam in [Fam::Rc, Fam::Native] {
                        let mut inp: Inputs = HashMap::new();
                        inp.insert("keybytes".into(), kb.clone());
                        let w = ev(fam, &case["id_text"], &inp);
                        emit(rec, "keyid", ver, name, fam, w.as_ref().map(|w| w.as_slice() == t["paserk"].as_str().unwrap_or("").as_bytes()).unwrap_or(false), json!({}));
                    }
                }
            }
        }
    }
    n
}

pub fn run(rec: &mut Recorder, cases_path: &str, thorough: bool, seed: u64, kinds: &[String], vector_dir: Option<&str>) -> u64 {
    let cases: Vec<Value> = serde_json::from_str(&std::fs::read_to_string(cases_path).expect("cases file")).expect("cases json");
    let mut total = 0;
    if let Some(d) = vector_dir {
        total += vectors(rec, &cases, d, kinds, thorough);
    }
    fn for_backend<B: Backend>(rec: &mut Recorder, cases: &[Value], thorough: bool, seed: u64, kinds: &[String]) -> u64 {
        let mut rng = Prng::new(seed, &format!("terms-{}", B::NAME));
        let pairs = keys::signing_pairs::<B>(&mut rng, 2);
        let recipients = keys::pke_pairs::<B>(2);
        let mut n = 0;
        for case in cases {
            if case["ver"].as_u64().unwrap() as u32 != B::VER {
                continue;
            }
            let kind = case["kind"].as_str().unwrap();
            if !kinds.iter().any(|k| k == kind) {
                continue;
            }
            let mut cx = Ctx { rec, case, be: B::NAME, n: 0 };
            match kind {
                "local" => {
                    local_case::<B>(&mut cx, &mut rng, thorough);
                    local_iv_case::<B>(&mut cx, &mut rng);
                }
                "public" => {
                    // RSA signing is slow: a third of the v1 cases in quick
                    if B::VER != 1 || thorough || (case["mlen"].as_u64().unwrap() + case["flen"].as_u64().unwrap()) % 3 == 0 {
                        public_case::<B>(&mut cx, &mut rng, &pairs)
                    }
                }
                "pie" | "pw" => {
                    // the cost parameters of the official vectors (64 / 256 MiB, 10000 iterations) are evaluated once by the
                    // vector pass; the per-backend campaign uses the cheap ones
                    let cheap = case["cost"].as_array().map(|c| c[0].as_u64().unwrap_or(0) <= 1000).unwrap_or(true);
                    if cheap {
                        wrap_case::<B>(&mut cx, &mut rng, &pairs)
                    }
                }
                "pke" => pke_case::<B>(&mut cx, &mut rng, &recipients),
                "keyid" => keyid_case::<B>(&mut cx, &mut rng, &pairs),
                _ => {}
            }
            n += cx.n;
        }
        n
    }
    for be in ALL {
        total += crate::with_backend!(be, for_backend(rec, &cases, thorough, seed, kinds));
    }
    // key ids as values: equality, ordering and hashing must agree with their 33 bytes
    if kinds.iter().any(|k| k == "keyid") {
        use paseto_core::paserk::KeyId;
        use std::hash::{Hash, Hasher};
        let mut rng = Prng::new(seed, "idcmp");
        let mk = |b: &[u8]| -> KeyId<paseto_v4::core::V4, Local> { format!("k4.lid.{}", crate::b64::enc(b)).parse().expect("33-byte id parses") };
        let hash = |k: &KeyId<paseto_v4::core::V4, Local>| {
            let mut h = std::collections::hash_map::DefaultHasher::new();
            k.hash(&mut h);
            h.finish()
        };
        let mut pairs: Vec<(Vec<u8>, Vec<u8>)> = Vec::new();
        for pos in 0..33usize {
            // equal up to `pos`, then differing in one byte (both directions), and fully equal
            let a = rng.bytes(33);
            let mut b = a.clone();
            b[pos] = b[pos].wrapping_add(1 + rng.below(254) as u8);
            pairs.push((a.clone(), b.clone()));
            pairs.push((b, a.clone()));
            pairs.push((a.clone(), a));
        }
        for _ in 0..300 {
            pairs.push((rng.bytes(33), rng.bytes(33)));
        }
        // differences that cancel under XOR / sum folds: the same mask at two positions, swapped bytes
        for k in 0..120usize {
            let a = rng.bytes(33);
            let (i, j) = (k % 33, (k * 7 + 5) % 33);
            if i == j {
                continue;
            }
            let mut b = a.clone();
            let mask = 1u8 << (k % 8);
            b[i] ^= mask;
            b[j] ^= mask;
            pairs.push((a.clone(), b));
            let mut c = a.clone();
            c.swap(i, j);
            pairs.push((a, c));
        }
        for (a, b) in pairs {
            let (ka, kb) = (mk(&a), mk(&b));
            let c = match ka.cmp(&kb) {
                std::cmp::Ordering::Less => -1,
                std::cmp::Ordering::Equal => 0,
                std::cmp::Ordering::Greater => 1,
            };
            let pc = ka.partial_cmp(&kb).map(|o| o as i32).unwrap_or(9);
            rec.emit(json!({"fn":"idcmp","a":crate::rec::codes(&a),"b":crate::rec::codes(&b),"cmp":c,"partial_cmp":pc,"eq":ka == kb,"hash_eq":hash(&ka) == hash(&kb),
                "bytes_back": ka.as_bytes()[..] == a[..] && kb.as_bytes()[..] == b[..]}));
            total += 1;
        }
    }
    // C13 "must decode to exactly 33 bytes", "round-trip through their text form": every backend x id kind x body length 0..40
    if kinds.iter().any(|k| k == "keyid") {
        fn offer<B: Backend>(rec: &mut Recorder, rng: &mut Prng, total: &mut u64) {
            use paseto_core::paserk::KeyId;
            use paseto_core::version::{PkePublic, PkeSecret, Secret};
            fn one<B: Backend, K: paseto_core::key::KeyType>(rec: &mut Recorder, label: &str, kind: &str, body: &[u8], total: &mut u64) {
                let exact = format!("k{}.{}.", B::VER, label);
                with_header::<B, K>(rec, &exact, true, kind, body, total);
                if body.len() == 33 {
                    // the type header must be there in full: truncated, doubled-dot, missing and re-cased headers
                    let v = B::VER;
                    let mut hs = vec![format!("k{v}."), format!("k{v}.."), format!("k{v}"), format!("k{v}.{label}"), format!("k{v}.{label}.."), format!("k{v}..{label}."),
                                      format!("K{v}.{label}."), format!("k{v}.{}.", label.to_uppercase()), format!(".{label}."), format!("{label}."), String::new()];
                    for cut in 1..label.len() {
                        hs.push(format!("k{v}.{}.", &label[..cut]));
                        hs.push(format!("k{v}.{}", &label[..cut]));
                    }
                    for h in hs {
                        with_header::<B, K>(rec, &h, false, kind, body, total);
                    }
                }
            }
            fn with_header<B: Backend, K: paseto_core::key::KeyType>(rec: &mut Recorder, header: &str, exact: bool, kind: &str, body: &[u8], total: &mut u64) {
                let text = format!("{header}{}", crate::b64::enc(body));
                with_text::<B, K>(rec, &text, header, exact, kind, body, total);
                if exact && body.len() == 33 {
                    // the same id text inside white space, and with a two-byte character whose bytes, top bits dropped, are alphabet
                    // characters (in place of two characters of a group): not id strings, through FromStr and through serde alike
                    for framed in [format!("{text}\n"), format!(" {text}"), format!("{text} "), format!("\t{text}\r\n")] {
                        with_text::<B, K>(rec, &framed, "framed", false, kind, body, total);
                    }
                    for at in [header.len(), header.len() + 6, text.len() - 2] {
                        let folded = format!("{}\u{571}{}", &text[..at], &text[at + 2..]);
                        with_text::<B, K>(rec, &folded, "folded", false, kind, body, total);
                    }
                }
            }
            fn with_text<B: Backend, K: paseto_core::key::KeyType>(rec: &mut Recorder, text: &str, header: &str, exact: bool, kind: &str, body: &[u8], total: &mut u64) {
                let r = catch_unwind(AssertUnwindSafe(|| {
                    let parsed = text.parse::<KeyId<B::V, K>>().map(|k| (k.to_string(), k.as_bytes().to_vec(), serde_json::to_value(&k).ok()));
                    // serde is a second way in and out: it accepts exactly the strings FromStr accepts, with the same value, and writes the text
                    let de = serde_json::from_value::<KeyId<B::V, K>>(serde_json::Value::String(text.to_string())).map(|k| k.as_bytes().to_vec());
                    (parsed, de)
                }));
                let (ok, back, bytes_back, de_ok, serde_same, panic) = match r {
                    Ok((Ok((t, b, ser)), de)) => (true, t == text, b[..] == body[..], de.is_ok(), de.map(|d| d == b).unwrap_or(false) && ser == Some(serde_json::Value::String(t.clone())), false),
                    Ok((Err(_), de)) => (false, false, false, de.is_ok(), true, false),
                    Err(_) => (false, false, false, false, false, true),
                };
                rec.emit(json!({"fn":"idparse","be":B::NAME,"id_kind":kind,"len":body.len(),"header_exact":exact,"header":header,"ok":ok,"text_back":back,"bytes_back":bytes_back,
                    "de_ok":de_ok,"serde_same":serde_same,"panic":panic}));
                *total += 1;
            }
            for len in 0..=40usize {
                for fill in 0..2 {
                    let body = if fill == 0 { rng.bytes(len) } else { vec![0u8; len] };
                    one::<B, Local>(rec, "lid", "lid", &body, total);
                    one::<B, Public>(rec, "pid", "pid", &body, total);
                    one::<B, Secret>(rec, "sid", "sid", &body, total);
                    one::<B, PkePublic>(rec, "pid", "pkepid", &body, total);
                    one::<B, PkeSecret>(rec, "sid", "pkesid", &body, total);
                }
            }
        }
        let mut rng = Prng::new(seed, "idparse");
        for be in ALL {
            match be {
                "v1" => offer::<V1>(rec, &mut rng, &mut total),
                "v2" => offer::<V2>(rec, &mut rng, &mut total),
                "v3" => offer::<V3>(rec, &mut rng, &mut total),
                "v3lc" => offer::<V3Lc>(rec, &mut rng, &mut total),
                "v4" => offer::<V4>(rec, &mut rng, &mut total),
                "v4na" => offer::<V4Na>(rec, &mut rng, &mut total),
                _ => {}
            }
        }
    }
    // the evaluator's own non-cryptographic primitive, held to Ctr.tla
    let mut rng = Prng::new(seed, "inc128");
    for k in 0..400u64 {
        let mut x = rng.bytes(16);
        match k % 5 {
            0 => x = vec![0xff; 16],
            1 => x[8..].fill(0xff),
            2 => x[15] = 0xff,
            3 => x[1..].fill(0xff),
            _ => {}
        }
        let j = if k % 3 == 0 { k % 7 } else { rng.below(70000) as u64 };
        rec.emit(json!({"fn":"inc128","x":crate::rec::codes(&x),"j":j,"out":crate::rec::codes(&eval::inc128(&x, j))}));
        total += 1;
    }
    total
}
