//! C09: observations of the text encodings (base64 segments and whole-string grammar).
use crate::backends::*;
use crate::payload::Raw;
use crate::prng::Prng;
use crate::rec::{Recorder, codes};
use paseto_core::paserk::{KeyId, KeyText, PasswordWrappedKey, PieWrappedKey, SealedKey};
use paseto_core::tokens::SealedToken;
use paseto_core::version::{Local, Public, Secret, Version};
use serde_json::json;
use std::str::FromStr;

pub struct Cfg {
    pub thorough: bool,
    pub seed: u64,
}

fn dec_keytext<B: Backend>(s: &str) -> Option<Vec<u8>> {
    let full = format!("{}.local.{}", <B::V as Version>::PASERK_HEADER, s);
    KeyText::<B::V, Local>::from_str(&full).ok().map(|k| k.as_raw_bytes().to_vec())
}

fn enc_keytext<B: Backend>(b: &[u8]) -> String {
    let s = KeyText::<B::V, Local>::from_raw_bytes(b).to_string();
    s[<B::V as Version>::PASERK_HEADER.len() + ".local.".len()..].to_string()
}

/// strings over `alphabet` of exactly length n, all of them
fn all_strings(alphabet: &[u8], n: usize, f: &mut dyn FnMut(&[u8])) {
    let mut idx = vec![0usize; n];
    let mut cur: Vec<u8> = idx.iter().map(|&i| alphabet[i]).collect();
    loop {
        f(&cur);
        let mut k = n;
        loop {
            if k == 0 {
                return;
            }
            k -= 1;
            idx[k] += 1;
            if idx[k] < alphabet.len() {
                cur[k] = alphabet[idx[k]];
                break;
            }
            idx[k] = 0;
            cur[k] = alphabet[0];
        }
    }
}

const B64: &[u8; 64] = b"ABCDEFGHIJKLMNOPQRSTUVWXYZabcdefghijklmnopqrstuvwxyz0123456789-_";
const ADV_ASCII: &[u8] = b"=+/ \n.\0\x7f";

pub fn run(rec: &mut Recorder, cfg: &Cfg) {
    let mut rng = Prng::new(cfg.seed, "c09");
    // --- decoder observations through KeyText::from_str (the public face of base64::decode_vec)
    let mut emit_dec = |rec: &mut Recorder, be: &str, s: &[u8]| {
        let st = match std::str::from_utf8(s) {
            Ok(x) => x,
            Err(_) => return,
        };
        let r = match be {
            "v4" => dec_keytext::<V4>(st),
            "v3lc" => dec_keytext::<V3Lc>(st),
            "v1" => dec_keytext::<V1>(st),
            _ => dec_keytext::<V2>(st),
        };
        rec.emit(json!({"fn":"dec","via":"keytext","be":be,"in":codes(s),"ok":r.is_some(),"out":codes(&r.unwrap_or_default())}));
        if be == "v4" || s.len() > 8 {
            // the harness' own codec is held to the same specification
            let h = crate::b64::dec(st);
            rec.emit(json!({"fn":"dec","via":"harness","be":"-","in":codes(s),"ok":h.is_some(),"out":codes(&h.unwrap_or_default())}));
        }
    };
    let ascii: Vec<u8> = (0u8..128).collect();
    let small: Vec<u8> = b"ABQgw_-9z".iter().chain(ADV_ASCII.iter()).copied().collect();
    let full: Vec<u8> = B64.iter().chain(ADV_ASCII.iter()).copied().collect();
    // every ASCII string of length 0..2
    for n in 0..=2 {
        all_strings(&ascii, n, &mut |s| emit_dec(rec, "v4", s));
    }
    // length 3 and 4 tails (alone and after one full block)
    let a3: &[u8] = if cfg.thorough { &full } else { &small };
    all_strings(a3, 3, &mut |s| emit_dec(rec, "v4", s));
    let small4: &[u8] = if cfg.thorough { &small } else { b"AQw_=+.\n" };
    all_strings(small4, 4, &mut |s| emit_dec(rec, "v3lc", s));
    for n in 1..=3 {
        all_strings(&small, n, &mut |s| {
            let mut t = b"QUFB".to_vec();
            t.extend_from_slice(s);
            emit_dec(rec, "v2", &t)
        });
    }
    // two-byte UTF-8 sequences (U+0080..U+07FF) at every position of a 4-char block and in tails
    let mut cp = 0x80u32;
    while cp < 0x800 {
        let ch = char::from_u32(cp).unwrap();
        let mut buf = [0u8; 4];
        let e = ch.encode_utf8(&mut buf).as_bytes().to_vec();
        // quick: every 7th code point, and every one whose bytes become alphabet characters when their top bit is dropped
        let alias = e.iter().all(|b| B64.contains(&(b & 0x7f)));
        if !(cfg.thorough || alias || cp % 7 == 2) {
            cp += 1;
            continue;
        }
        for pos in 0..=2usize {
            for total in [2usize, 3, 4, 6] {
                if pos + 2 > total {
                    continue;
                }
                let mut s = vec![b'A'; total];
                s[pos] = e[0];
                s[pos + 1] = e[1];
                emit_dec(rec, "v1", &s);
            }
        }
        cp += 1;
    }
    // random longer strings: canonical encodings, and the same with one mutation
    let nlong = if cfg.thorough { 3000 } else { 400 };
    for i in 0..nlong {
        let len = if i < 310 { i } else { rng.below(700) };
        let bytes = rng.bytes(len);
        let s = crate::b64::enc(&bytes).into_bytes();
        let be = *rng.pick(&["v1", "v2", "v3lc", "v4"]);
        emit_dec(rec, be, &s);
        if !s.is_empty() {
            let mut m = s.clone();
            let p = if rng.chance(1, 2) { m.len() - 1 } else { rng.below(m.len()) };
            match rng.below(5) {
                0 => m[p] = *rng.pick(ADV_ASCII),
                1 => m[p] = *rng.pick(B64),
                2 => {
                    m.pop();
                }
                3 => m.push(*rng.pick(B64)),
                _ => m.push(b'='),
            }
            emit_dec(rec, be, &m);
        }
    }
    // --- encoder observations
    let mut emit_enc = |rec: &mut Recorder, b: &[u8]| {
        let o = enc_keytext::<V4>(b);
        rec.emit(json!({"fn":"enc","via":"keytext","in":codes(b),"out":codes(o.as_bytes())}));
        let h = crate::b64::enc(b);
        rec.emit(json!({"fn":"enc","via":"harness","in":codes(b),"out":codes(h.as_bytes())}));
    };
    emit_enc(rec, &[]);
    for a in 0..=255u8 {
        emit_enc(rec, &[a]);
    }
    let firsts: Vec<u8> = if cfg.thorough { (0..=255).collect() } else { vec![0, 1, 2, 3, 4, 15, 16, 63, 64, 127, 128, 192, 251, 252, 254, 255] };
    for &a in &firsts {
        for b in 0..=255u8 {
            emit_enc(rec, &[a, b]);
        }
    }
    let edge = [0u8, 1, 63, 64, 128, 255];
    for &a in &edge {
        for &b in &edge {
            for &c in &edge {
                emit_enc(rec, &[a, b, c]);
            }
        }
    }
    for len in 0..=300usize {
        emit_enc(rec, &rng.bytes(len));
        if cfg.thorough {
            emit_enc(rec, &rng.bytes(len));
            emit_enc(rec, &vec![0xffu8; len]);
        }
    }
    // --- whole-string grammar of every FromStr/Display pair at every backend
    for be in ALL {
        crate::with_backend!(be, grammar(rec, &mut rng, cfg));
    }
}

fn mutations(rng: &mut Prng, valid: &str, hdr_len: usize) -> Vec<String> {
    let mut v = vec![valid.to_string()];
    let b = valid.as_bytes();
    v.push(format!("{valid}."));
    v.push(format!("{valid}.."));
    v.push(format!("{valid}.QUFB"));
    v.push(format!("{valid}.QUFB.QUFB"));
    v.push(format!("{valid}="));
    v.push(format!("{valid}=="));
    v.push(format!("{valid} "));
    v.push(format!(" {valid}"));
    v.push(format!("{valid}\n"));
    v.push(format!("{valid}A"));
    v.push(format!("{valid}AA"));
    v.push(format!("{valid}AAA"));
    v.push(format!("{valid}AAAA"));
    for k in 1..=4 {
        if b.len() >= k {
            v.push(String::from_utf8_lossy(&b[..b.len() - k]).into_owned());
        }
    }
    v.push(valid[..hdr_len].to_string());
    v.push(String::new());
    v.push(valid.to_uppercase());
    // header damage
    for p in 0..hdr_len {
        let mut m = b.to_vec();
        m[p] = if m[p] == b'.' { b'_' } else { b'.' };
        v.push(String::from_utf8_lossy(&m).into_owned());
    }
    v.push(valid[1..].to_string());
    v.push(format!("{}{}", &valid[..hdr_len], &valid[hdr_len - 1..]));
    // structural header damage: each '.'-separated part of the header removed, repeated (glued and dotted), cut short; the whole
    // header repeated; the header moved behind the body
    {
        let hdr = &valid[..hdr_len];
        let rest = &valid[hdr_len..];
        let parts: Vec<&str> = hdr.trim_end_matches('.').split('.').collect();
        let join = |ps: &[String]| -> String { format!("{}.{}", ps.join("."), rest) };
        for i in 0..parts.len() {
            let own: Vec<String> = parts.iter().map(|p| p.to_string()).collect();
            let mut a = own.clone();
            a.remove(i);
            v.push(if a.is_empty() { rest.to_string() } else { join(&a) });
            v.push(format!(".{}", join(&a)));
            let mut g = own.clone();
            g[i] = format!("{0}{0}", parts[i]);
            v.push(join(&g));
            let mut g3 = own.clone();
            g3[i] = format!("{0}{0}{0}", parts[i]);
            v.push(join(&g3));
            let mut d = own.clone();
            d.insert(i, parts[i].to_string());
            v.push(join(&d));
            for cut in 1..parts[i].len() {
                let mut c = own.clone();
                c[i] = parts[i][..cut].to_string();
                v.push(join(&c));
            }
        }
        v.push(format!("{hdr}{hdr}{rest}"));
        v.push(format!("{rest}.{}", hdr.trim_end_matches('.')));
        v.push(format!("{}{rest}", hdr.trim_end_matches('.')));
    }
    // body damage
    if b.len() > hdr_len {
        for _ in 0..6 {
            let p = hdr_len + rng.below(b.len() - hdr_len);
            let mut m = b.to_vec();
            m[p] = *rng.pick(b"+/= .\n\0A_");
            v.push(String::from_utf8_lossy(&m).into_owned());
        }
        let mut m = b.to_vec();
        let l = m.len() - 1;
        m[l] = if m[l] == b'B' { b'C' } else { b'B' };
        v.push(String::from_utf8_lossy(&m).into_owned());
    }
    v
}

fn emit_parse<T>(rec: &mut Recorder, be: &str, kind: &str, s: &str)
where
    T: FromStr + ToString + serde::Serialize + serde::de::DeserializeOwned,
{
    let r = T::from_str(s);
    let (ok, out, ser) = match &r {
        Ok(t) => {
            let o = t.to_string();
            let ser = match serde_json::to_value(t) {
                Ok(serde_json::Value::String(x)) => x,
                other => format!("<<non-string serde form: {other:?}>>"),
            };
            (true, o, ser)
        }
        Err(_) => (false, String::new(), String::new()),
    };
    let de_ok = serde_json::from_value::<T>(serde_json::Value::String(s.to_string())).is_ok();
    rec.emit(json!({"fn":"parse","be":be,"kind":kind,"in":codes(s.as_bytes()),"ok":ok,
        "out":codes(out.as_bytes()),"ser":codes(ser.as_bytes()),"de_ok":de_ok}));
}

/// `str::parse::<Key<V, K>>()`: a key object comes only out of well-formed PASERK text of its own version and kind, and prints
/// back (through `expose_key`) as the string it was parsed from
fn emit_keyobj<B: Backend, K: paseto_core::key::KeyType>(rec: &mut Recorder, kind: &str, s: &str)
where
    B::V: paseto_core::key::HasKey<K>,
{
    let r = std::panic::catch_unwind(std::panic::AssertUnwindSafe(|| s.parse::<paseto_core::key::Key<B::V, K>>().map(|k| k.expose_key().to_string())));
    let (ok, out, panic) = match r {
        Ok(Ok(o)) => (true, o, false),
        Ok(Err(_)) => (false, String::new(), false),
        Err(_) => (false, String::new(), true),
    };
    rec.emit(json!({"fn":"keyobj","be":B::NAME,"kind":kind,"in":codes(s.as_bytes()),"ok":ok,"out":codes(out.as_bytes()),"panic":panic}));
}

fn keyobj_inputs<B: Backend>(rec: &mut Recorder, rng: &mut Prng) {
    let k = <B::V as Version>::PASERK_HEADER;
    let mut inputs: Vec<String> = Vec::new();
    let alnum = |rng: &mut Prng, n: usize| -> String { (0..n).map(|_| *rng.pick(b"ABCDEFGHIJKLMNOPQRSTUVWXYZabcdefghijklmnopqrstuvwxyz0123456789-_") as char).collect() };
    // strings that are exactly as long as some raw key, with and without (foreign) headers
    for n in [31usize, 32, 33, 48, 49, 64, 65, 96] {
        inputs.push(alnum(rng, n));
        inputs.push("A".repeat(n));
        for other in ["k1", "k2", "k3", "k4"] {
            for kind in ["local", "public", "secret"] {
                let h = format!("{other}.{kind}.");
                if h.len() < n {
                    inputs.push(format!("{h}{}", alnum(rng, n - h.len())));
                }
            }
        }
    }
    inputs.push("-----BEGIN PUBLIC KEY-----\nMIIBIjANBgkqhkiG9w0BAQEFAAOCAQ8AMIIBCgKCAQEA\n-----END PUBLIC KEY-----\n".to_string());
    inputs.push(String::new());
    // well-formed text of the right and of neighbouring body lengths, and single-character damage of it
    for kind in ["local", "public", "secret"] {
        for n in [31usize, 32, 33, 48, 49, 64] {
            let base = format!("{k}.{kind}.{}", crate::b64::enc(&rng.bytes(n)));
            inputs.push(base.clone());
            inputs.push(format!("{base}A"));
            inputs.push(format!(" {base}"));
            inputs.push(base.replacen('.', "..", 1));
            inputs.push(base.to_uppercase());
        }
    }
    for s in &inputs {
        emit_keyobj::<B, Local>(rec, "key.local", s);
        emit_keyobj::<B, Public>(rec, "key.public", s);
        emit_keyobj::<B, Secret>(rec, "key.secret", s);
    }
}

fn grammar<B: Backend>(rec: &mut Recorder, rng: &mut Prng, cfg: &Cfg) {
    keyobj_inputs::<B>(rec, rng);
    // every text length: a value's serde form is its text whatever the length (buffers in a Serialize impl have sizes)
    {
        let v = <B::V as Version>::HEADER;
        let k = <B::V as Version>::PASERK_HEADER;
        for n in (0..=430usize).chain(762..=774) {
            let b = crate::b64::enc(&rng.bytes(n));
            emit_parse::<SealedToken<B::V, Local, Raw, Vec<u8>>>(rec, B::NAME, "token.local", &format!("{v}.local.{b}"));
            emit_parse::<KeyText<B::V, Local>>(rec, B::NAME, "key.local", &format!("{k}.local.{b}"));
            if n % 2 == 0 {
                emit_parse::<SealedToken<B::V, Public, Raw, Vec<u8>>>(rec, B::NAME, "token.public", &format!("{v}.public.{b}.{}", crate::b64::enc(&rng.bytes(n % 11))));
            }
        }
    }
    let be = B::NAME;
    let v = <B::V as Version>::HEADER;
    let k = <B::V as Version>::PASERK_HEADER;
    let reps = if cfg.thorough { 4 } else { 1 };
    for _ in 0..reps {
        // the base strings are built by the harness from random bytes of assorted lengths
        let body = |rng: &mut Prng, n: usize| crate::b64::enc(&rng.bytes(n));
        let n_small = [0usize, 1, 2, 3, 31, 32, 33, 64, 97];
        let len = *rng.pick(&n_small);
        // tokens
        for (p, hdr) in [("local", format!("{v}.local.")), ("public", format!("{v}.public."))] {
            let with_footer = format!("{hdr}{}.{}", body(rng, 40 + len), body(rng, 1 + len));
            let no_footer = format!("{hdr}{}", body(rng, 40 + len));
            for base in [with_footer, no_footer] {
                for s in mutations(rng, &base, hdr.len()) {
                    if p == "local" {
                        emit_parse::<SealedToken<B::V, Local, Raw, Vec<u8>>>(rec, be, "token.local", &s);
                        emit_parse::<SealedToken<B::V, Local, Raw, ()>>(rec, be, "token.local.nofooter", &s);
                    } else {
                        emit_parse::<SealedToken<B::V, Public, Raw, Vec<u8>>>(rec, be, "token.public", &s);
                    }
                }
            }
        }
        // key text of the three kinds
        for (kind, hdr) in [("local", format!("{k}.local.")), ("public", format!("{k}.public.")), ("secret", format!("{k}.secret."))] {
            let base = format!("{hdr}{}", body(rng, len));
            for s in mutations(rng, &base, hdr.len()) {
                match kind {
                    "local" => emit_parse::<KeyText<B::V, Local>>(rec, be, "key.local", &s),
                    "public" => emit_parse::<KeyText<B::V, Public>>(rec, be, "key.public", &s),
                    _ => emit_parse::<KeyText<B::V, Secret>>(rec, be, "key.secret", &s),
                }
            }
        }
        // key ids: every decoded length 0..66 plus mutations of a 33-byte one
        for (kind, hdr) in [("lid", format!("{k}.lid.")), ("pid", format!("{k}.pid.")), ("sid", format!("{k}.sid."))] {
            let mut inputs = Vec::new();
            for n in 0..=66usize {
                inputs.push(format!("{hdr}{}", body(rng, n)));
            }
            let b33 = format!("{hdr}{}", body(rng, 33));
            inputs.extend(mutations(rng, &b33, hdr.len()));
            for s in inputs {
                match kind {
                    "lid" => emit_parse::<KeyId<B::V, Local>>(rec, be, "id.lid", &s),
                    "pid" => emit_parse::<KeyId<B::V, Public>>(rec, be, "id.pid", &s),
                    _ => emit_parse::<KeyId<B::V, Secret>>(rec, be, "id.sid", &s),
                }
            }
        }
        // wrapped / sealed forms
        for (kind, hdr) in [
            ("pie.local", format!("{k}.local-wrap.pie.")),
            ("pie.secret", format!("{k}.secret-wrap.pie.")),
            ("pw.local", format!("{k}.local-pw.")),
            ("pw.secret", format!("{k}.secret-pw.")),
            ("seal", format!("{k}.seal.")),
        ] {
            let base = format!("{hdr}{}", body(rng, 64 + len));
            for s in mutations(rng, &base, hdr.len()) {
                match kind {
                    "pie.local" => emit_parse::<PieWrappedKey<B::V, Local>>(rec, be, kind, &s),
                    "pie.secret" => emit_parse::<PieWrappedKey<B::V, Secret>>(rec, be, kind, &s),
                    "pw.local" => emit_parse::<PasswordWrappedKey<B::V, Local>>(rec, be, kind, &s),
                    "pw.secret" => emit_parse::<PasswordWrappedKey<B::V, Secret>>(rec, be, kind, &s),
                    _ => emit_parse::<SealedKey<B::V>>(rec, be, kind, &s),
                }
            }
        }
    }
}
