//! C11: replay of TLC-generated validator expressions on the real validators and combinators.
use crate::backends::*;
use crate::prng::Prng;
use crate::rec::Recorder;
use paseto_core::PasetoError;
use paseto_core::tokens::{SealedToken, UnsealedToken};
use paseto_core::validation::{NoValidation, Validate};
use paseto_core::version::{Local, Public};
use paseto_json::{ForAudience, ForSubject, FromIssuer, HasExpiry, RegisteredClaims, Time};
use serde_json::{Value, json};
use std::rc::Rc;
use std::str::FromStr;
use std::sync::Arc;
use std::time::Duration;

type DynV = Box<dyn Validate<Claims = RegisteredClaims>>;

/// (base seconds, base nanos, leeway unit in ns)
const TIME_CFGS: &[(i64, i32, u64)] = &[
    (1_704_067_200, 0, 60_000_000_000),          // 2024-01-01, L = 60 s
    (1_000_000_001, 500_000_000, 1_500_000_000), // L = 1.5 s (sub-second part)
    (4_102_444_800, 999_999_999, 500_000_000),   // 2100-01-01 - 1ns, L = 500 ms
    (86_400, 0, 3),                              // L = 3 ns
    (1_704_067_200, 123_456_789, 3_600_000_000_001), // L = 1 h + 1 ns
    (-1_000_000_000, 0, 1_000_000_000),          // before the epoch, L = 1 s
];

fn ts(cfg: usize, p: &Value) -> jiff::Timestamp {
    let (bs, bn, l) = TIME_CFGS[cfg];
    let c = p[0].as_i64().unwrap();
    let f = p[1].as_i64().unwrap();
    // far points of the specification's time domain
    match c {
        9 => return jiff::Timestamp::MAX,
        -9 => return jiff::Timestamp::MIN,
        8 | -8 => {
            let far: i128 = (bs as i128) * 1_000_000_000 + bn as i128 + (c.signum() as i128) * 300 * 365 * 86_400 * 1_000_000_000;
            return jiff::Timestamp::from_nanosecond(far).expect("far time point representable");
        }
        _ => {}
    }
    let total: i128 = (bs as i128) * 1_000_000_000 + bn as i128 + (c as i128) * (l as i128) + f as i128;
    jiff::Timestamp::from_nanosecond(total).expect("time point representable")
}

fn claims_of(cfg: usize, c: &Value) -> RegisteredClaims {
    claims_with_iat(cfg, c, None)
}

/// the same claims with an `iat` claim: the time validators speak about exp and nbf only, so the verdict must not depend on it
fn claims_with_iat(cfg: usize, c: &Value, iat: Option<(i64, i64)>) -> RegisteredClaims {
    let s = |k: &str| c[k].as_array().and_then(|a| a.first()).map(|v| v.as_str().unwrap().to_string());
    let t = |k: &str| c[k].as_array().and_then(|a| a.first()).map(|v| ts(cfg, v));
    RegisteredClaims { iss: s("iss"), sub: s("sub"), aud: s("aud"), exp: t("exp"), nbf: t("nbf"), iat: iat.map(|(c, f)| ts(cfg, &json!([c, f]))), jti: None }
}

fn build(cfg: usize, e: &Value) -> DynV {
    let op = e["op"].as_str().unwrap();
    let l = TIME_CFGS[cfg].2;
    match op {
        "time" => Box::new(Time::valid_at(ts(cfg, &e["now"]))),
        "leeway" => Box::new(Time::valid_at(ts(cfg, &e["now"])).with_leeway(Duration::from_nanos(l * e["k"].as_u64().unwrap()))),
        "hasexp" => Box::new(HasExpiry),
        "iss" => Box::new(FromIssuer(e["s"].as_str().unwrap().to_string())),
        "sub" => Box::new(ForSubject(e["s"].as_str().unwrap().to_string())),
        "aud" => Box::new(ForAudience(e["s"].as_str().unwrap().to_string())),
        "none" => Box::new(NoValidation::dangerous_no_validation()),
        "and" => {
            // a left-nested `and` is built the way users write it, as ONE chain a.and_then(b).and_then(c)... on the combinator's own
            // type (not re-boxed at every link); the meaning is that of the nesting
            let mut links = vec![&e["b"]];
            let mut left = &e["a"];
            while left["op"] == "and" && links.len() < 3 {
                links.push(&left["b"]);
                left = &left["a"];
            }
            links.reverse();
            let first = build(cfg, left);
            let mut it = links.into_iter().map(|x| build(cfg, x));
            match it.len() {
                1 => Box::new(first.and_then(it.next().unwrap())),
                2 => Box::new(first.and_then(it.next().unwrap()).and_then(it.next().unwrap())),
                _ => Box::new(first.and_then(it.next().unwrap()).and_then(it.next().unwrap()).and_then(it.next().unwrap())),
            }
        }
        "slice" => {
            let v: Vec<DynV> = e["xs"].as_array().unwrap().iter().map(|x| build(cfg, x)).collect();
            let b: Box<[DynV]> = v.into_boxed_slice();
            Box::new(b)
        }
        "vec" => {
            let v: Vec<DynV> = e["xs"].as_array().unwrap().iter().map(|x| build(cfg, x)).collect();
            Box::new(v)
        }
        "box" => Box::new(build(cfg, &e["a"])),
        "rc" => Box::new(Rc::new(build(cfg, &e["a"]))),
        "arc" => {
            let inner: Arc<dyn Validate<Claims = RegisteredClaims>> = Arc::from(build(cfg, &e["a"]));
            Box::new(inner)
        }
        other => panic!("unknown validator op {other}"),
    }
}

struct Outer {
    x: RegisteredClaims,
    y: RegisteredClaims,
}

fn run_top(cfg: usize, e: &Value, outer: &Outer) -> Result<(), PasetoError> {
    if e["op"] == "map" {
        let inner = build(cfg, &e["a"]);
        if e["sel"] == "x" { inner.map(|o: &Outer| &o.x).validate(outer) } else { inner.map(|o: &Outer| &o.y).validate(outer) }
    } else {
        build(cfg, e).validate(&outer.x)
    }
}

fn through_unseal<B: Backend>(cfg: usize, e: &Value, c: &RegisteredClaims, public: bool) -> (bool, &'static str, bool) {
    let v = build(cfg, e);
    let same = |a: &RegisteredClaims| format!("{a:?}") == format!("{c:?}");
    if public {
        let sk = SecretKey::<B>::random().unwrap();
        let pk = sk.public_key();
        let t = UnsealedToken::<B::V, Public, RegisteredClaims>::new(c.clone()).seal(&sk, &[]).unwrap().to_string();
        match SealedToken::<B::V, Public, RegisteredClaims>::from_str(&t).unwrap().unseal(&pk, &[], &v) {
            Ok(u) => (true, "", same(&u.claims)),
            Err(e) => (false, errc(&e), false),
        }
    } else {
        let k = LocalKey::<B>::random().unwrap();
        let t = UnsealedToken::<B::V, Local, RegisteredClaims>::new(c.clone()).seal(&k, &[]).unwrap().to_string();
        match SealedToken::<B::V, Local, RegisteredClaims>::from_str(&t).unwrap().unseal(&k, &[], &v) {
            Ok(u) => (true, "", same(&u.claims)),
            Err(e) => (false, errc(&e), false),
        }
    }
}

fn depth(e: &Value) -> usize {
    match e["op"].as_str().unwrap() {
        "and" => 1 + depth(&e["a"]).max(depth(&e["b"])),
        "slice" | "vec" => 1 + e["xs"].as_array().unwrap().iter().map(depth).max().unwrap_or(0),
        "box" | "rc" | "arc" | "map" => 1 + depth(&e["a"]),
        _ => 1,
    }
}

pub fn run(rec: &mut Recorder, cases: &str, thorough: bool, seed: u64) -> (u64, u64) {
    let v: Value = serde_json::from_str(&std::fs::read_to_string(cases).expect("cases file")).expect("cases json");
    let exprs = v["exprs"].as_array().unwrap();
    let claims = v["claims"].as_array().unwrap();
    let mut rng = Prng::new(seed, "c11");
    let empty = json!({"exp":[],"nbf":[],"iss":[],"sub":[],"aud":[]});
    let (mut n, mut nu) = (0u64, 0u64);
    for (ei, e) in exprs.iter().enumerate() {
        let d = depth(e);
        let per = if d <= 1 || (thorough && d <= 2) { claims.len() } else if d <= 2 { 220 } else if thorough { 8 } else { 16 };
        for k in 0..per {
            let ci = if per == claims.len() { k } else { rng.below(claims.len()) };
            let c = &claims[ci];
            let cfg = (ei + k) % TIME_CFGS.len();
            let outer = Outer { x: claims_of(cfg, c), y: claims_of(cfg, &empty) };
            // a validator that panics is an outcome (neither accept nor a claims error), not a failure of the harness
            let r = std::panic::catch_unwind(std::panic::AssertUnwindSafe(|| run_top(cfg, e, &outer)));
            let (got, ec) = match &r {
                Ok(Ok(())) => (true, ""),
                Ok(Err(e)) => (false, errc(e)),
                Err(_) => (false, "panic"),
            };
            rec.emit(json!({"fn":"accepts","expr":e,"x":c,"y":empty,"cfg":cfg,"got":got,"errc":ec}));
            // for the simplest expressions also with an `iat` in the future / in the past / far away (same verdict demanded)
            if d <= 1 {
                for iat in [(2i64, 0i64), (-2, 0), (1, 1), (9, 0)] {
                    let o2 = Outer { x: claims_with_iat(cfg, c, Some(iat)), y: claims_of(cfg, &empty) };
                    let r = std::panic::catch_unwind(std::panic::AssertUnwindSafe(|| run_top(cfg, e, &o2)));
                    let (got, ec) = match &r {
                        Ok(Ok(())) => (true, ""),
                        Ok(Err(e)) => (false, errc(e)),
                        Err(_) => (false, "panic"),
                    };
                    rec.emit(json!({"fn":"accepts","expr":e,"x":c,"y":empty,"cfg":cfg,"got":got,"errc":ec,"iat":[iat.0, iat.1]}));
                    n += 1;
                }
            }
            n += 1;
            // a sample goes through a real unseal on every backend
            let collection = matches!(e["op"].as_str(), Some("slice") | Some("vec") | Some("and") | Some("box") | Some("rc") | Some("arc"));
            if e["op"] != "map" && (ei * 31 + k) % (if thorough { 97 } else if collection { 61 } else { 397 }) == 0 {
                for (bi, be) in ALL.iter().enumerate() {
                    if *be == "v1" && !thorough && (ei + k) % 5 != 0 {
                        continue; // RSA key generation is slow
                    }
                    let public = (ei + k + bi) % 2 == 0 && *be != "v1";
                    let cl = claims_of(cfg, c);
                    let (ok, ec, same) = std::panic::catch_unwind(std::panic::AssertUnwindSafe(|| crate::with_backend!(*be, through_unseal(cfg, e, &cl, public)))).unwrap_or((false, "panic", false));
                    rec.emit(json!({"fn":"unseal","be":be,"purpose": if public {"public"} else {"local"},"expr":e,"x":c,"y":empty,"cfg":cfg,"got":ok,"errc":ec,"same":same}));
                    nu += 1;
                }
            }
        }
    }
    // ---- the claims builder and the validators that read the system clock
    let lattice = |cfg: usize, t: jiff::Timestamp| -> Value {
        let (bs, bn, l) = TIME_CFGS[cfg];
        let rel: i128 = t.as_nanosecond() - ((bs as i128) * 1_000_000_000 + bn as i128);
        let l = l as i128;
        let c = (rel + l / 2).div_euclid(l);
        json!([c as i64, (rel - c * l) as i64])
    };
    let opt_t = |cfg: usize, t: Option<jiff::Timestamp>| t.map(|t| json!([lattice(cfg, t)])).unwrap_or(json!([]));
    let opt_s = |s: &Option<String>| s.as_ref().map(|s| json!([s])).unwrap_or(json!([]));
    let setter_seqs: Vec<Vec<(&str, &str)>> = vec![vec![], vec![("iss", "a")], vec![("sub", "ab"), ("aud", "")], vec![("jti", "t"), ("iss", "b"), ("iss", "a")],
                                                  vec![("aud", "a"), ("sub", "a"), ("jti", ""), ("iss", "ab")]];
    let near: Vec<(i64, i64)> = vec![(-2, -1), (-1, 0), (0, -1), (0, 0), (0, 1), (1, 0), (1, 1), (2, 0)];
    for cfg in 0..TIME_CFGS.len() {
        for &(c0, f0) in &near {
            for k in 0..3i64 {
                let now = ts(cfg, &json!([c0, f0]));
                let d = Duration::from_nanos(TIME_CFGS[cfg].2 * k as u64);
                for (si, setters) in setter_seqs.iter().enumerate() {
                    let mut cl = RegisteredClaims::new(now, d);
                    for (f, v) in setters {
                        cl = match *f {
                            "iss" => cl.from_issuer(v.to_string()),
                            "sub" => cl.for_subject(v.to_string()),
                            "aud" => cl.for_audience(v.to_string()),
                            _ => cl.with_token_id(v.to_string()),
                        };
                    }
                    // validity of the fresh claims at a few instants around the window
                    let (tc, tf) = near[(si + k as usize + cfg) % near.len()];
                    let t = ts(cfg, &json!([tc + c0, tf]));
                    let valid = Time::valid_at(t).validate(&cl).is_ok();
                    let got = json!({"exp": opt_t(cfg, cl.exp), "nbf": opt_t(cfg, cl.nbf), "iat": opt_t(cfg, cl.iat), "iss": opt_s(&cl.iss), "sub": opt_s(&cl.sub),
                                     "aud": opt_s(&cl.aud), "jti": opt_s(&cl.jti)});
                    let sj: Vec<Value> = setters.iter().map(|(f, v)| json!([f, v])).collect();
                    rec.emit(json!({"fn":"builder","cfg":cfg,"now":[c0, f0],"k":k,"setters":sj,"got":got,"t":[tc + c0, tf],"valid_at":valid}));
                    n += 1;
                }
            }
        }
    }
    {
        let hour = Duration::from_secs(3600);
        let now = jiff::Timestamp::now();
        let with = |exp: Option<jiff::Timestamp>, nbf: Option<jiff::Timestamp>| RegisteredClaims { iss: None, sub: None, aud: None, exp, nbf, iat: None, jti: None };
        let v = Time::valid_now();
        let fresh = RegisteredClaims::now(hour);
        rec.emit(json!({"fn":"clock",
            "future_exp_accepted": v.validate(&with(Some(now + hour), None)).is_ok(),
            "past_exp_accepted": Time::valid_now().validate(&with(Some(now - hour), None)).is_ok(),
            "past_nbf_accepted": Time::valid_now().validate(&with(None, Some(now - hour))).is_ok(),
            "future_nbf_accepted": Time::valid_now().validate(&with(None, Some(now + hour))).is_ok(),
            "now_claims_valid_now": Time::valid_now().validate(&fresh).is_ok() && fresh.iat.map(|t| (t.as_second() - now.as_second()).abs() < 600).unwrap_or(false)
                && fresh.exp.zip(fresh.iat).map(|(e, i)| e.as_nanosecond() - i.as_nanosecond() == 3_600_000_000_000).unwrap_or(false)}));
        n += 1;
    }
    // valid_now() is the clock itself, not the clock rounded: claims that expire in 400 ms are still valid, claims that become
    // valid in 700 ms are not yet - at instants spread over a second
    {
        let (mut short_exp_ok, mut near_nbf_refused) = (true, true);
        for _ in 0..8 {
            let now = jiff::Timestamp::now();
            let with = |exp: Option<jiff::Timestamp>, nbf: Option<jiff::Timestamp>| RegisteredClaims { iss: None, sub: None, aud: None, exp, nbf, iat: None, jti: None };
            short_exp_ok &= Time::valid_now().validate(&with(Some(now + Duration::from_millis(400)), None)).is_ok();
            near_nbf_refused &= Time::valid_now().validate(&with(None, Some(now + Duration::from_millis(700)))).is_err();
            std::thread::sleep(Duration::from_millis(135));
        }
        rec.emit(json!({"fn":"clock","future_exp_accepted":short_exp_ok,"past_exp_accepted":false,"past_nbf_accepted":true,"future_nbf_accepted":!near_nbf_refused,
            "now_claims_valid_now":true,"what":"sub-second"}));
        n += 1;
    }
    (n, nu)
}
