//! C11: replay of TLC-generated validator expressions on the real validators and combinators.
use crate::backends::*;
use crate::prng::Prng;
use crate::rec::Recorder;
use paseto_core::PasetoError;
use paseto_core::tokens::{SealedToken, UnsealedToken};
use paseto_core::validation::{NoValidation, Validate};
use paseto_core::version::{Local, Public};
use paseto_json::{ForAudience, ForSubject, FromIssuer, HasExpiry, RegisteredClaims, Time};
use serde_json::{Value, json};
use std::rc::Rc;
use std::str::FromStr;
use std::sync::Arc;
use std::time::Duration;

type DynV = Box<dyn Validate<Claims = RegisteredClaims>>;

/// (base seconds, base nanos, leeway unit in ns)
const TIME_CFGS: &[(i64, i32, u64)] = &[
    (1_704_067_200, 0, 60_000_000_000),          // 2024-01-01, L = 60 s
    (1_000_000_001, 500_000_000, 1_500_000_000), // L = 1.5 s (sub-second part)
    (4_102_444_800, 999_999_999, 500_000_000),   // 2100-01-01 - 1ns, L = 500 ms
    (86_400, 0, 3),                              // L = 3 ns
    (1_704_067_200, 123_456_789, 3_600_000_000_001), // L = 1 h + 1 ns
    (-1_000_000_000, 0, 1_000_000_000),          // before the epoch, L = 1 s
];

fn ts(cfg: usize, p: &Value) -> jiff::Timestamp {
    let (bs, bn, l) = TIME_CFGS[cfg];
    let c = p[0].as_i64().unwrap();
    let f = p[1].as_i64().unwrap();
    // far points of the specification's time domain
    match c {
        9 => return jiff::Timestamp::MAX,
        -9 => return jiff::Timestamp::MIN,
        8 | -8 => {
            let far: i128 = (bs as i128) * 1_000_000_000 + bn as i128 + (c.signum() as i128) * 300 * 365 * 86_400 * 1_000_000_000;
            return jiff::Timestamp::from_nanosecond(far).expect("far time point representable");
        }
        _ => {}
    }
    let total: i128 = (bs as i128) * 1_000_000_000 + bn as i128 + (c as i128) * (l as i128) + f as i128;
    jiff::Timestamp::from_nanosecond(total).expect("time point representable")
}

fn claims_of(cfg: usize, c: &Value) -> RegisteredClaims {
    let s = |k: &str| c[k].as_array().and_then(|a| a.first()).map(|v| v.as_str().unwrap().to_string());
    let t = |k: &str| c[k].as_array().and_then(|a| a.first()).map(|v| ts(cfg, v));
    RegisteredClaims { iss: s("iss"), sub: s("sub"), aud: s("aud"), exp: t("exp"), nbf: t("nbf"), iat: None, jti: None }
}

fn build(cfg: usize, e: &Value) -> DynV {
    let op = e["op"].as_str().unwrap();
    let l = TIME_CFGS[cfg].2;
    match op {
        "time" => Box::new(Time::valid_at(ts(cfg, &e["now"]))),
        "leeway" => Box::new(Time::valid_at(ts(cfg, &e["now"])).with_leeway(Duration::from_nanos(l * e["k"].as_u64().unwrap()))),
        "hasexp" => Box::new(HasExpiry),
        "iss" => Box::new(FromIssuer(e["s"].as_str().unwrap().to_string())),
        "sub" => Box::new(ForSubject(e["s"].as_str().unwrap().to_string())),
        "aud" => Box::new(ForAudience(e["s"].as_str().unwrap().to_string())),
        "none" => Box::new(NoValidation::dangerous_no_validation()),
        "and" => Box::new(build(cfg, &e["a"]).and_then(build(cfg, &e["b"]))),
        "slice" => {
            let v: Vec<DynV> = e["xs"].as_array().unwrap().iter().map(|x| build(cfg, x)).collect();
            let b: Box<[DynV]> = v.into_boxed_slice();
            Box::new(b)
        }
        "vec" => {
            let v: Vec<DynV> = e["xs"].as_array().unwrap().iter().map(|x| build(cfg, x)).collect();
            Box::new(v)
        }
        "box" => Box::new(build(cfg, &e["a"])),
        "rc" => Box::new(Rc::new(build(cfg, &e["a"]))),
        "arc" => {
            let inner: Arc<dyn Validate<Claims = RegisteredClaims>> = Arc::from(build(cfg, &e["a"]));
            Box::new(inner)
        }
        other => panic!("unknown validator op {other}"),
    }
}

struct Outer {
    x: RegisteredClaims,
    y: RegisteredClaims,
}

fn run_top(cfg: usize, e: &Value, outer: &Outer) -> Result<(), PasetoError> {
    if e["op"] == "map" {
        let inner = build(cfg, &e["a"]);
        if e["sel"] == "x" { inner.map(|o: &Outer| &o.x).validate(outer) } else { inner.map(|o: &Outer| &o.y).validate(outer) }
    } else {
        build(cfg, e).validate(&outer.x)
    }
}

fn through_unseal<B: Backend>(cfg: usize, e: &Value, c: &RegisteredClaims, public: bool) -> (bool, &'static str, bool) {
    let v = build(cfg, e);
    let same = |a: &RegisteredClaims| format!("{a:?}") == format!("{c:?}");
    if public {
        let sk = SecretKey::<B>::random().unwrap();
        let pk = sk.public_key();
        let t = UnsealedToken::<B::V, Public, RegisteredClaims>::new(c.clone()).seal(&sk, &[]).unwrap().to_string();
        match SealedToken::<B::V, Public, RegisteredClaims>::from_str(&t).unwrap().unseal(&pk, &[], &v) {
            Ok(u) => (true, "", same(&u.claims)),
            Err(e) => (false, errc(&e), false),
        }
    } else {
        let k = LocalKey::<B>::random().unwrap();
        let t = UnsealedToken::<B::V, Local, RegisteredClaims>::new(c.clone()).seal(&k, &[]).unwrap().to_string();
        match SealedToken::<B::V, Local, RegisteredClaims>::from_str(&t).unwrap().unseal(&k, &[], &v) {
            Ok(u) => (true, "", same(&u.claims)),
            Err(e) => (false, errc(&e), false),
        }
    }
}

fn depth(e: &Value) -> usize {
    match e["op"].as_str().unwrap() {
        "and" => 1 + depth(&e["a"]).max(depth(&e["b"])),
        "slice" | "vec" => 1 + e["xs"].as_array().unwrap().iter().map(depth).max().unwrap_or(0),
        "box" | "rc" | "arc" | "map" => 1 + depth(&e["a"]),
        _ => 1,
    }
}

pub fn run(rec: &mut Recorder, cases: &str, thorough: bool, seed: u64) -> (u64, u64) {
    let v: Value = serde_json::from_str(&std::fs::read_to_string(cases).expect("cases file")).expect("cases json");
    let exprs = v["exprs"].as_array().unwrap();
    let claims = v["claims"].as_array().unwrap();
    let mut rng = Prng::new(seed, "c11");
    let empty = json!({"exp":[],"nbf":[],"iss":[],"sub":[],"aud":[]});
    let (mut n, mut nu) = (0u64, 0u64);
    for (ei, e) in exprs.iter().enumerate() {
        let d = depth(e);
        let per = if d <= 2 { claims.len() } else if thorough { 60 } else { 16 };
        for k in 0..per {
            let ci = if per == claims.len() { k } else { rng.below(claims.len()) };
            let c = &claims[ci];
            let cfg = (ei + k) % TIME_CFGS.len();
            let outer = Outer { x: claims_of(cfg, c), y: claims_of(cfg, &empty) };
            let r = run_top(cfg, e, &outer);
            rec.emit(json!({"fn":"accepts","expr":e,"x":c,"y":empty,"cfg":cfg,"got":r.is_ok(),"errc":r.as_ref().err().map(errc).unwrap_or("")}));
            n += 1;
            // a sample goes through a real unseal on every backend
            if e["op"] != "map" && (ei * 31 + k) % (if thorough { 97 } else { 397 }) == 0 {
                for (bi, be) in ALL.iter().enumerate() {
                    if *be == "v1" && !thorough && (ei + k) % 5 != 0 {
                        continue; // RSA key generation is slow
                    }
                    let public = (ei + k + bi) % 2 == 0 && *be != "v1";
                    let cl = claims_of(cfg, c);
                    let (ok, ec, same) = crate::with_backend!(*be, through_unseal(cfg, e, &cl, public));
                    rec.emit(json!({"fn":"unseal","be":be,"purpose": if public {"public"} else {"local"},"expr":e,"x":c,"y":empty,"cfg":cfg,"got":ok,"errc":ec,"same":same}));
                    nu += 1;
                }
            }
        }
    }
    (n, nu)
}
