//! C16 for paseto-v1's RSA paths, whose randomness does not come through the getrandom-0.3 custom backend
//! (rsa / rand_core 0.6 OsRng -> getrandom 0.2 -> the getrandom system call).  Runs under the LD_PRELOAD shim
//! (harness/shim/getrandom_shim.c): learns how many draws an operation makes, then fails each index.
use crate::backends::*;
use crate::keys;
use crate::payload::*;
use crate::prng::Prng;
use crate::rec::Recorder;
use paseto_core::tokens::UnsealedToken;
use paseto_core::version::Public;
use serde_json::json;
use std::panic::{AssertUnwindSafe, catch_unwind};

struct Shim {
    arm: unsafe extern "C" fn(i32),
    count: unsafe extern "C" fn() -> i32,
    disarm: unsafe extern "C" fn(),
}

fn shim() -> Option<Shim> {
    unsafe {
        let f = |n: &[u8]| libc::dlsym(libc::RTLD_DEFAULT, n.as_ptr().cast());
        let (a, c, d) = (f(b"pv_shim_arm\0"), f(b"pv_shim_count\0"), f(b"pv_shim_disarm\0"));
        if a.is_null() || c.is_null() || d.is_null() {
            return None;
        }
        Some(Shim { arm: std::mem::transmute(a), count: std::mem::transmute(c), disarm: std::mem::transmute(d) })
    }
}

fn emit_draws(rec: &mut Recorder, made: i32, fail_at: i32) {
    for i in 0..made {
        rec.emit(json!({"ev":"Draw","len":0,"ok": i != fail_at,"val":0,"src":"getrandom-syscall"}));
        if i == fail_at {
            break;
        }
    }
}

pub fn run(rec: &mut Recorder, thorough: bool, seed: u64) -> Result<serde_json::Value, String> {
    let sh = shim().ok_or("getrandom shim not loaded (LD_PRELOAD)")?;
    let mut rng = Prng::new(seed, "rsa-faults");
    let pair = &keys::signing_pairs::<V1>(&mut rng, 1)[0];
    let sk: SecretKey<V1> = key_from_bytes(&pair.secret).unwrap();
    let (skid, pkid) = (rec.intern(&pair.secret), rec.intern(&pair.public));
    let mut injected = 0;
    // warm-up outside the trace: getrandom's one-time availability probe (a zero-length call) must not be counted
    {
        let mut scratch = Recorder::create("/dev/null");
        let _ = UnsealedToken::<paseto_v1::core::V1, Public, Raw>::new(Raw(vec![])).seal(&sk, &[]);
        let _ = &mut scratch;
    }
    // ---- sign
    let sign_once = |rec: &mut Recorder, fail_at: i32| -> i32 {
        let claims = b"{\"a\":1}".to_vec();
        let cid = rec.intern(&claims);
        rec.emit(json!({"ev":"SealCall","be":"v1","ver":1,"purpose":"public","key":skid,"claims":cid,"footer":0,"aad":0}));
        spy_take();
        unsafe { (sh.arm)(fail_at) };
        let r = catch_unwind(AssertUnwindSafe(|| UnsealedToken::<paseto_v1::core::V1, Public, SpyClaims>::new(SpyClaimsS::<false>(claims.clone())).with_footer(SpyFooter(vec![])).seal(&sk, &[])));
        let made = unsafe { (sh.count)() };
        unsafe { (sh.disarm)() };
        for e in spy_take() {
            match e {
                Spy::FooterEncode { ok } => rec.emit(json!({"ev":"FooterEncode","ok":ok})),
                Spy::ClaimsEncode { ok } => rec.emit(json!({"ev":"ClaimsEncode","ok":ok})),
                _ => {}
            }
        }
        emit_draws(rec, made, fail_at);
        match r {
            Err(p) => {
                let msg = p.downcast_ref::<String>().cloned().or_else(|| p.downcast_ref::<&str>().map(|s| s.to_string())).unwrap_or_default();
                rec.emit(json!({"ev":"Panic","where":"seal","be":"v1","payload":msg.chars().take(160).collect::<String>()}))
            }
            Ok(Err(e)) => rec.emit(json!({"ev":"SealRet","ok":false,"errc":errc(&e),"err":errname(&e),"wire":0,"footer":0,"fresh":[]})),
            Ok(Ok(t)) => {
                let text = t.to_string();
                let (p, _) = crate::drive_tokens::split_token(&text, "v1.public.".len()).unwrap_or_default();
                let wid = rec.intern(&p);
                rec.emit(json!({"ev":"SealRet","ok":true,"wire":wid,"footer":0,"fresh":[],"len":p.len(),"clen":claims.len()}));
            }
        }
        made
    };
    rec.emit(json!({"ev":"Reset","scenario":"rsa-faults-sign"}));
    rec.emit(json!({"ev":"Pair","sk":skid,"pk":pkid,"origin":"fixture"}));
    let n = sign_once(rec, -1);
    for i in 0..n {
        sign_once(rec, i);
        injected += 1;
    }
    let sign_draws = n;
    // ---- key generation (RSA-2048): many draws; fail the first few and a few spread ones
    let gen_once = |rec: &mut Recorder, fail_at: i32| -> i32 {
        rec.emit(json!({"ev":"KeyGenCall","be":"v1","ver":1,"kind":"secret"}));
        unsafe { (sh.arm)(fail_at) };
        let r = catch_unwind(AssertUnwindSafe(|| SecretKey::<V1>::random().map(|k| key_bytes(&k))));
        let made = unsafe { (sh.count)() };
        unsafe { (sh.disarm)() };
        emit_draws(rec, made, fail_at);
        match r {
            Err(p) => {
                let msg = p.downcast_ref::<String>().cloned().or_else(|| p.downcast_ref::<&str>().map(|s| s.to_string())).unwrap_or_default();
                rec.emit(json!({"ev":"Panic","where":"keygen","be":"v1","payload":msg.chars().take(160).collect::<String>()}))
            }
            Ok(Err(e)) => rec.emit(json!({"ev":"KeyGenRet","ok":false,"errc":errc(&e),"err":errname(&e),"key":0})),
            Ok(Ok(k)) => {
                let kid = rec.intern(&k);
                rec.emit(json!({"ev":"KeyGenRet","ok":true,"key":kid,"errc":"","len":k.len()}));
            }
        }
        made
    };
    rec.emit(json!({"ev":"Reset","scenario":"rsa-faults-keygen"}));
    let g = gen_once(rec, -1);
    let mut idx: Vec<i32> = vec![0, 1, 2];
    if thorough {
        idx.extend([3, 5, 8, 13, 21]);
    }
    for i in idx.into_iter().filter(|&i| i < g) {
        gen_once(rec, i);
        injected += 1;
    }
    // ---- key sealing (k1.seal): the 512-byte r is one draw (or several system calls); whichever path the crate takes to the
    // operating system, a failure there must surface as an error
    let rcp = &keys::pke_pairs::<V1>(1)[0];
    let rpk: PkePub<V1> = key_from_bytes(&rcp.public).unwrap();
    let lkb = rng.bytes(32);
    let (lkid, rsid, rpid) = (rec.intern(&lkb), rec.intern(&rcp.secret), rec.intern(&rcp.public));
    let seal_once = |rec: &mut Recorder, fail_at: i32| -> i32 {
        let lk: LocalKey<V1> = key_from_bytes(&lkb).unwrap();
        rec.emit(json!({"ev":"WrapCall","be":"v1","wkind":"seal","ver":1,"ktype":"local","key":lkid,"with":rpid}));
        unsafe { (sh.arm)(fail_at) };
        let r = catch_unwind(AssertUnwindSafe(|| lk.seal(&rpk).map(|x| x.to_string())));
        let made = unsafe { (sh.count)() };
        unsafe { (sh.disarm)() };
        emit_draws(rec, made, fail_at);
        match r {
            Err(p) => {
                let msg = p.downcast_ref::<String>().cloned().or_else(|| p.downcast_ref::<&str>().map(|s| s.to_string())).unwrap_or_default();
                rec.emit(json!({"ev":"Panic","where":"wrap","payload":msg.chars().take(160).collect::<String>()}))
            }
            Ok(Err(e)) => rec.emit(json!({"ev":"WrapRet","ok":false,"errc":errc(&e),"err":errname(&e),"blob":0,"fresh":[],"len":0,"klen":32})),
            Ok(Ok(t)) => {
                let blob = t.strip_prefix("k1.seal.").and_then(crate::b64::dec).unwrap_or_default();
                let bid = rec.intern(&blob);
                let c = rec.intern(blob.get(80..).unwrap_or(&[]));
                rec.emit(json!({"ev":"WrapRet","ok":true,"blob":bid,"fresh":[c],"len":blob.len(),"klen":32,"errc":""}));
            }
        }
        made
    };
    rec.emit(json!({"ev":"Reset","scenario":"rsa-faults-seal"}));
    rec.emit(json!({"ev":"Pair","sk":rsid,"pk":rpid,"origin":"fixture"}));
    let sd = seal_once(rec, -1);
    for i in 0..sd.min(6) {
        seal_once(rec, i);
        injected += 1;
    }
    Ok(json!({"sign_draws": sign_draws, "keygen_draws_first_run": g, "seal_draws": sd, "injected": injected}))
}
