//! NDJSON recorder and byte-string interner.  The interner maps each distinct byte string
//! to a small integer (first occurrence allocates); id 0 is always the empty string.  Equality
//! of ids is equality of bytes and nothing else is guessed.
use serde_json::Value;
use std::collections::HashMap;
use std::fs::File;
use std::io::{BufWriter, Write};

pub struct Recorder {
    out: BufWriter<File>,
    pub lines: u64,
    ids: HashMap<Vec<u8>, u64>,
    rev: Vec<Vec<u8>>,
}

impl Recorder {
    pub fn create(path: &str) -> Self {
        let f = File::create(path).unwrap_or_else(|e| panic!("cannot create {path}: {e}"));
        let mut r = Recorder { out: BufWriter::new(f), lines: 0, ids: HashMap::new(), rev: Vec::new() };
        r.intern(&[]);
        r
    }
    pub fn intern(&mut self, b: &[u8]) -> u64 {
        if let Some(&i) = self.ids.get(b) {
            return i;
        }
        let i = self.rev.len() as u64;
        self.ids.insert(b.to_vec(), i);
        self.rev.push(b.to_vec());
        i
    }
    pub fn lookup(&self, id: u64) -> &[u8] {
        &self.rev[id as usize]
    }
    pub fn distinct(&self) -> usize {
        self.rev.len()
    }
    pub fn emit(&mut self, v: Value) {
        serde_json::to_writer(&mut self.out, &v).unwrap();
        self.out.write_all(b"\n").unwrap();
        self.lines += 1;
    }
    /// write the intern table (hex) next to the trace so that replay files can show concrete bytes
    pub fn dump_table(&mut self, path: &str) {
        let mut f = BufWriter::new(File::create(path).unwrap());
        for (i, b) in self.rev.iter().enumerate() {
            writeln!(f, "{} {}", i, hex::encode(b)).unwrap();
        }
    }
    pub fn finish(mut self) -> u64 {
        self.out.flush().unwrap();
        self.lines
    }
}

pub fn codes(b: &[u8]) -> Value {
    Value::Array(b.iter().map(|&x| Value::from(x as u64)).collect())
}
