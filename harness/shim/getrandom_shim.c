/* LD_PRELOAD interposer for the getrandom system call as getrandom 0.2 / rand_core's OsRng reach it
 * (libc syscall(SYS_getrandom, ..) and libc getrandom()).  Inert until armed by the harness through
 * pv_shim_arm(n): then the n-th call (0-based) fails with EIO, all others go to the kernel.
 * Used only by `pv-harness rsa-faults` (C16, paseto-v1's RSA paths). */
#define _GNU_SOURCE
#include <dlfcn.h>
#include <errno.h>
#include <stdarg.h>
#include <sys/syscall.h>
#include <sys/types.h>
#include <unistd.h>
#include <stdio.h>
#include <stdlib.h>

static long (*real_syscall)(long, ...);
static volatile int armed = 0, fail_at = -1, count = 0;

void pv_shim_arm(int n) { count = 0; fail_at = n; armed = 1; }
int pv_shim_count(void) { return count; }
void pv_shim_disarm(void) { armed = 0; }

static int should_fail(void) {
    if (!armed) return 0;
    int idx = count++;
    return idx == fail_at;
}

long syscall(long number, ...) {
    va_list ap;
    long a[6];
    va_start(ap, number);
    for (int i = 0; i < 6; i++) a[i] = va_arg(ap, long);
    va_end(ap);
    if (!real_syscall) real_syscall = (long (*)(long, ...))dlsym(RTLD_NEXT, "syscall");
    if (number == SYS_getrandom && armed && getenv("PV_SHIM_TRACE")) fprintf(stderr, "[shim] syscall getrandom len=%ld flags=%ld idx=%d\n", a[1], a[2], count);
    if (number == SYS_getrandom && should_fail()) { errno = EIO; return -1; }
    return real_syscall(number, a[0], a[1], a[2], a[3], a[4], a[5]);
}

ssize_t getrandom(void *buf, size_t len, unsigned int flags) {
    if (!real_syscall) real_syscall = (long (*)(long, ...))dlsym(RTLD_NEXT, "syscall");
    if (armed && getenv("PV_SHIM_TRACE")) fprintf(stderr, "[shim] libc getrandom len=%zu flags=%u idx=%d\n", len, flags, count);
    if (should_fail()) { errno = EIO; return -1; }
    return real_syscall(SYS_getrandom, buf, len, flags);
}
