"""L2 deployment model (spec/Deploy.tla): model checking of the design, spec mutants, TLC-generated behaviours replayed
through the real crates (harness `deploy`), and validation of what the crates did against the same specification
(spec/trace/Trace_Deploy.tla)."""
import json, os, random, re
from . import common as C

MUTANTS = ("footer", "label", "key", "aud")
REACH = ("reach-accept", "reach-evil", "reach-refoot", "reach-expired", "reach-misaddressed")


def behaviours(tier, seed, name):
    num = 400 if tier == "quick" else 4000
    g = C.tlc("Gen_Deploy", "Gen_Deploy_%s.cfg" % tier, "gen", name + "-gen", workers=1, timeout=3600,
              simulate="num=%d" % num, extra=["-depth", "29", "-seed", str(1000 + seed)])
    if g.error or g.invariant_violated():
        raise C.ToolError("Gen_Deploy failed: %s" % (g.error or g.invariant_violated()))
    seen, hs = set(), []
    for m in re.findall(r'<<"BEHAVIOUR", "(.*)">>', g.out):
        if m in seen:
            continue
        seen.add(m)
        hs.append(json.loads(json.loads('"' + m + '"')))
    want = 600 if tier == "quick" else 8000
    if len(hs) < want // 2:
        raise C.ToolError("Gen_Deploy produced only %d behaviours" % len(hs))
    random.Random(seed).shuffle(hs)
    return g, hs[:want]


def classify(e):
    return {"verdict": "deployment-step-not-a-step-of-the-specification", "be": e.get("be"), "action": e.get("a"),
            "ok": e.get("ok"), "kind": e.get("k") or (e.get("acc") or {}).get("kind", "")}


def validate(out, tracefile, name):
    events = C.read_ndjson(tracefile)
    r = C.tlc("Trace_Deploy", "Trace_Deploy.cfg", "trace", name, workers=1, env_extra={"TRACE": tracefile}, timeout=3600, deque=True)
    if '<<"DONE"' not in r.out:
        raise C.ToolError("TLC did not consume the whole deployment trace: %s" % r.error)
    inv = r.invariant_violated()
    if inv:
        # the recorded behaviour is a behaviour of the specification up to here, and violates the design's invariant:
        # cannot happen unless the specification is inconsistent
        raise C.ToolError("invariant %s violated while validating a deployment trace" % inv)
    out.add_tlc(r)
    out.traces += sum(1 for e in events if e["ev"] == "Reset")
    out.evaluations += len(events)
    for idx, _ev, _rest in r.viols:
        e = events[idx - 1]
        lo = idx - 1
        while lo > 0 and events[lo]["ev"] != "Reset":
            lo -= 1
        out.violation(classify(e), {"event_index": idx, "behaviour": events[lo:idx]})
    return events, r


def mutate(events, how):
    """Corrupt one recorded observation; returns (events, index) or (None, 0)."""
    for i, e in enumerate(events):
        if e["ev"] != "Act":
            continue
        if how == "accept-rejected" and e["a"] == "Verify" and not e["ok"] and i > 40:
            e["ok"] = True
            e["acc"] = {"kind": "local", "key": 1, "claims": 1, "note": 0, "aud": e.get("u", "a")}
            return events, i + 1
        if how == "wrong-note" and e["a"] == "Verify" and e["ok"]:
            e["acc"] = dict(e["acc"], note=1 - e["acc"]["note"])
            return events, i + 1
        if how == "wrong-key" and e["a"] == "Verify" and e["ok"]:
            e["acc"] = dict(e["acc"], key=e["acc"]["key"] % 3 + 1)
            return events, i + 1
        if how == "import-tampered" and e["a"] == "Import" and not e["ok"]:
            e["ok"] = True
            return events, i + 1
        if how == "store-confused" and e["a"] == "Import" and e["ok"] and e["store"]:
            e["store"] = [dict(e["store"][0], kind="public" if e["store"][0]["kind"] == "local" else "local")] + e["store"][1:]
            return events, i + 1
        if how == "forget-ignored" and e["a"] == "Forget" and e["ok"]:
            e["store"] = e["store"] + [{"kind": e["k"], "key": e["s"]}]
            return events, i + 1
        if how == "wrong-audience" and e["a"] == "Verify" and e["ok"]:
            e["acc"] = dict(e["acc"], aud="b" if e["acc"]["aud"] == "a" else "a")
            return events, i + 1
        if how == "reject-honest" and e["a"] == "Verify" and e["ok"]:
            e["ok"] = False
            e["acc"] = {"kind": "", "key": 0, "claims": 0, "note": 0, "aud": ""}
            return events, i + 1
    return None, 0


def negative_control(tracefile, name, max_events=6000):
    events = C.read_ndjson(tracefile)
    resets = [i for i, e in enumerate(events) if e["ev"] == "Reset"] + [len(events)]
    k = next((i for i in resets if i >= max_events), resets[-1])
    events = events[:k]
    n = 0
    d = os.path.dirname(tracefile)
    for how in ("accept-rejected", "wrong-note", "wrong-key", "import-tampered", "store-confused", "forget-ignored", "reject-honest", "wrong-audience"):
        ev2, at = mutate([json.loads(json.dumps(e)) for e in events], how)
        if ev2 is None:
            raise C.ToolError("deployment negative control %s: nothing to mutate" % how)
        p = os.path.join(d, "neg-%s.ndjson" % how)
        C.write_ndjson(p, ev2)
        r = C.tlc("Trace_Deploy", "Trace_Deploy.cfg", "trace", "%s-neg-%s" % (name, how), workers=1, env_extra={"TRACE": p}, timeout=900, deque=True)
        if not [v for v in r.viols if v[0] == at]:
            raise C.ToolError("deployment negative control %s: the corrupted trace was accepted (event %d)" % (how, at))
        os.remove(p)
        n += 1
    return n


def proof(out, name):
    """Unbounded safety of the design: spec/proofs/Deploy_proofs.tla (inductive invariant => []Authentic) checked by tlapm."""
    import shutil, subprocess, re
    d = C.ensure_dir(os.path.join(C.BUILD, name + "-proofs"))
    shutil.copy(os.path.join(C.SPEC, "proofs", "Deploy_proofs.tla"), d)
    p = subprocess.run(["timeout", "1800", "tlapm", "--threads", "8", "--cleanfp", "-I", C.SPEC, "Deploy_proofs.tla"], cwd=d,
                       stdout=subprocess.PIPE, stderr=subprocess.STDOUT, text=True)
    m = re.search(r"All (\d+) obligations proved", p.stdout)
    shutil.rmtree(os.path.join(d, ".tlacache"), ignore_errors=True)
    if not m:
        raise C.ToolError("tlapm did not prove Deploy_proofs.tla: %s" % p.stdout[-600:])
    out.extra["deploy_tlaps_obligations_proved"] = int(m.group(1))


def run(out, tier, seed, name):
    for cfg in (("quick", "quick_notes") if tier == "quick" else ("thorough", "thorough_services")):
        r = C.tlc("MC_Deploy", "MC_Deploy_%s.cfg" % cfg, "mc", "%s-deploy-mc-%s" % (name, cfg), workers=8 if tier == "quick" else 14, timeout=7200, heap="16g")
        C.tlc_must_pass(r, "MC_Deploy")
        out.add_tlc(r)
    killed = []
    for m in MUTANTS + REACH:
        x = C.tlc("MC_Deploy", "Deploy_%s.cfg" % m, "neg", "%s-deploy-neg-%s" % (name, m), workers=4, timeout=1800)
        inv = x.invariant_violated()
        if not inv:
            raise C.ToolError("Deploy.tla: %s %s was not detected by TLC" % ("mutant" if m in MUTANTS else "reachability witness", m))
        killed.append("%s:%s" % (m, inv))
    out.extra["deploy_mutants_and_witnesses"] = killed
    if tier == "thorough":
        proof(out, name)
    g, hs = behaviours(tier, seed, name)
    d = C.ensure_dir(os.path.join(C.BUILD, name + "-deploy"))
    cf = os.path.join(d, "behaviours.json")
    json.dump(hs, open(cf, "w"))
    f = os.path.join(d, "trace.ndjson")
    p = C.harness(["deploy", "--cases", cf, "--out", f, "--seed", str(seed)], timeout=7200, check=False)
    if p.returncode != 0:
        out.violation({"verdict": "process-died", "rc": p.returncode, "where": "deploy"}, {"stderr": p.stderr[-800:]})
        return
    st = json.loads(p.stdout.strip().splitlines()[-1])["stats"]
    out.extra["deploy"] = dict(st, generated_behaviours=len(hs))
    if st["accepted"] < 50 or st["imported"] < 100 or st["rejected"] < 100 or st["import_rejected"] < 100:
        raise C.ToolError("deployment replay is vacuous: %s" % st)
    validate(out, f, name + "-deploy-trace")
    out.extra["deploy_negative_controls_rejected"] = negative_control(f, name + "-deploy")
    out.assumptions.append("deployment replay: behaviours are random walks of Deploy.tla's Next relation (TLC simulation, depth 28, 3 slots); "
                           "v1 replays a quarter of them")
