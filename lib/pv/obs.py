"""Observation-set validation: the harness records one NDJSON record per call of the real code;
TLC evaluates the specification's verdict for every record (fan-out over all workers) and prints a
VIOL tuple for each record the specification rejects."""
import os, json, random
from . import common as C


CHUNK = 300000            # records per piece
CHUNK_BYTES = 40 << 20    # and bytes per piece (TLC holds the deserialised piece in memory; records with nested expressions are large)


def validate(out, module, obsfile, name, classify, workers=8, timeout=3600, count_traces=True):
    """Run TLC on spec/trace/<module> with OBS=<obsfile>.  `classify(rec, verdict)` turns a rejected
    record into the structured classification used for known-finding matching.  Files with more than CHUNK
    records are validated in pieces (TLC holds the whole deserialised file in memory)."""
    n = C.count_lines(obsfile)
    viols = []
    if n <= CHUNK and os.path.getsize(obsfile) <= CHUNK_BYTES:
        pieces = [(obsfile, 0)]
    else:
        pieces = []
        with open(obsfile) as f:
            k, fh, cnt, size = 0, None, 0, 0
            for i, line in enumerate(f):
                if fh is None or cnt >= CHUNK or size >= CHUNK_BYTES:
                    if fh:
                        fh.close()
                    pth = "%s.part%d" % (obsfile, k)
                    fh = open(pth, "w")
                    pieces.append((pth, i))
                    k += 1
                    cnt = size = 0
                fh.write(line)
                cnt += 1
                size += len(line)
            if fh:
                fh.close()
    last = None
    for pi, (pth, off) in enumerate(pieces):
        r = C.tlc(module, module + ".cfg", "trace", name if len(pieces) == 1 else "%s-p%d" % (name, pi), workers=workers, env_extra={"OBS": pth}, timeout=timeout)
        if not r.completed:
            import sys
            sys.stderr.write(r.out[-4000:])
            raise C.ToolError("TLC did not complete on %s: %s" % (module, r.error))
        out.add_tlc(r)
        viols += [(v[0] + off, v[1], v[2]) for v in r.viols]
        last = r
        if pth != obsfile:
            os.remove(pth)
    r = last
    if count_traces:
        out.traces += n
    out.evaluations += n
    recs = C.lines_of(obsfile, [v[0] for v in viols])
    _rejected[obsfile] = set(v[0] for v in viols)
    bad = 0
    for idx, verdict, _ in viols:
        rec = recs.get(idx)
        cls = classify(rec, verdict)
        if out.violation(cls, {"record_index": idx, "verdict": verdict, "record": rec}):
            bad += 1
    return r, n


_rejected = {}


def negative_control(module, obsfile, name, corrupt, k=5, seed=0):
    """Binding check: corrupt k records of a real observation file (one field each) and require
    that TLC rejects exactly those.  `corrupt(rec, rng)` returns the corrupted record or None."""
    rng = random.Random(seed)
    recs = C.read_ndjson(obsfile)
    idxs = list(range(len(recs)))
    rng.shuffle(idxs)
    sample, expected = [], []
    skip = _rejected.get(obsfile, set())
    for i in idxs:
        if len(expected) >= k:
            break
        if (i + 1) in skip:
            continue          # only records the specification accepted are used as the baseline
        c = corrupt(json.loads(json.dumps(recs[i])), rng)
        if c is None:
            continue
        sample.append(recs[i])
        sample.append(c)
        expected.append(len(sample))      # 1-based index of the corrupted copy
    if not expected:
        raise C.ToolError("negative control for %s: nothing to corrupt" % module)
    path = obsfile + ".neg"
    C.write_ndjson(path, sample)
    r = C.tlc(module, module + ".cfg", "trace", name + "-neg", workers=2, env_extra={"OBS": path}, timeout=600)
    got = sorted(v[0] for v in r.viols)
    os.remove(path)
    if got != sorted(expected):
        raise C.ToolError("negative control failed for %s: corrupted records %s, TLC rejected %s" % (module, expected, got))
    return len(expected)
