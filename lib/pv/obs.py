"""Observation-set validation: the harness records one NDJSON record per call of the real code;
TLC evaluates the specification's verdict for every record (fan-out over all workers) and prints a
VIOL tuple for each record the specification rejects."""
import os, json, random
from . import common as C


def validate(out, module, obsfile, name, classify, workers=8, timeout=3600, count_traces=True):
    """Run TLC on spec/trace/<module> with OBS=<obsfile>.  `classify(rec, verdict)` turns a rejected
    record into the structured classification used for known-finding matching."""
    n = C.count_lines(obsfile)
    r = C.tlc(module, module + ".cfg", "trace", name, workers=workers, env_extra={"OBS": obsfile}, timeout=timeout)
    if not r.completed:
        import sys
        sys.stderr.write(r.out[-4000:])
        raise C.ToolError("TLC did not complete on %s: %s" % (module, r.error))
    out.add_tlc(r)
    if count_traces:
        out.traces += n
    out.evaluations += n
    recs = C.lines_of(obsfile, [v[0] for v in r.viols])
    _rejected[obsfile] = set(v[0] for v in r.viols)
    bad = 0
    for idx, verdict, _ in r.viols:
        rec = recs.get(idx)
        cls = classify(rec, verdict)
        if out.violation(cls, {"record_index": idx, "verdict": verdict, "record": rec}):
            bad += 1
    return r, n


_rejected = {}


def negative_control(module, obsfile, name, corrupt, k=5, seed=0):
    """Binding check: corrupt k records of a real observation file (one field each) and require
    that TLC rejects exactly those.  `corrupt(rec, rng)` returns the corrupted record or None."""
    rng = random.Random(seed)
    recs = C.read_ndjson(obsfile)
    idxs = list(range(len(recs)))
    rng.shuffle(idxs)
    sample, expected = [], []
    skip = _rejected.get(obsfile, set())
    for i in idxs:
        if len(expected) >= k:
            break
        if (i + 1) in skip:
            continue          # only records the specification accepted are used as the baseline
        c = corrupt(json.loads(json.dumps(recs[i])), rng)
        if c is None:
            continue
        sample.append(recs[i])
        sample.append(c)
        expected.append(len(sample))      # 1-based index of the corrupted copy
    if not expected:
        raise C.ToolError("negative control for %s: nothing to corrupt" % module)
    path = obsfile + ".neg"
    C.write_ndjson(path, sample)
    r = C.tlc(module, module + ".cfg", "trace", name + "-neg", workers=2, env_extra={"OBS": path}, timeout=600)
    got = sorted(v[0] for v in r.viols)
    os.remove(path)
    if got != sorted(expected):
        raise C.ToolError("negative control failed for %s: corrupted records %s, TLC rejected %s" % (module, expected, got))
    return len(expected)
