"""bin/check --setup: build the harness offline, parse every specification module."""
import os, subprocess, sys, glob
from . import common as C


def run():
    C.ensure_dir(C.BUILD)
    try:
        C.build_harness()
    except C.ToolError as e:
        print("TOOL-ERROR:", e)
        return 2
    bad = 0
    for d in ("", "mc", "trace", "gen"):
        for f in sorted(glob.glob(os.path.join(C.SPEC, d, "*.tla"))):
            p = subprocess.run(["java", "-cp", C.TLA_JARS, "-DTLA-Library=" + C.SPEC + os.pathsep + os.path.join(C.SPEC, "mc"), "tla2sany.SANY", os.path.basename(f)],
                               cwd=os.path.dirname(f), stdout=subprocess.PIPE, stderr=subprocess.STDOUT, text=True)
            if p.returncode != 0 or "*** Errors" in p.stdout or "Fatal" in p.stdout:
                print("SANY failed on", f)
                print(p.stdout[-1500:])
                bad += 1
    print("setup: harness built, %s" % ("all modules parse" if not bad else "%d modules fail to parse" % bad))
    return 2 if bad else 0
