"""Writes MANIFEST.json from one table so that it is always valid and consistent."""
import json, os

BASELINE_OFF = ("cd /repo && CARGO_NET_OFFLINE=true cargo nextest run --workspace --no-fail-fast --tool-config-file pb:/w/lib/nextest.toml "
                "--profile pb --test-threads 8 --offline || (cd /repo && cargo test --workspace --no-fail-fast --offline)")

CHECKS = {}
NOT_APPLICABLE = {}


def check(pid, category, text, note, technique, design_ref):
    CHECKS[pid] = dict(property_id=pid, quick_cmd="bin/check %s --tier quick" % pid, thorough_cmd="bin/check %s --tier thorough" % pid,
                       evidence_file="/verif/evidence/%s.json" % pid, replay_cmd_template="bin/check %s --replay {path}" % pid,
                       engine="tlc+pv-harness", level_claimed=dict(category=category, text=text, design_ref=design_ref),
                       level_note=note, technique=technique)


check("C09", "model_checking",
      "TLC compares three TLA+ definitions of unpadded base64url (encoder, declarative canonical acceptance, a transcription of the "
      "implementation's decoder) exhaustively over all short strings/byte strings, and validates every recorded call of the real decoder, "
      "encoder and every FromStr/Display/serde pair at every backend against Base64Url.tla/TextFormat.tla (observation-set validation).",
      "Trusted: TLC, CommunityModules Json, the harness recorder (guarded by a corrupted-record negative control on every run). Bytes that "
      "cannot occur in a &str are covered at model level only.",
      "TLA+ spec (Base64Url, TextFormat) + TLC exhaustive MC + TLC observation-set validation of recorded implementation calls", "§4 C09")
check("C15", "model_checking",
      "TLC checks PAE.tla exhaustively on a bounded domain (fragment invariance, explicit parser is a left inverse => injective, streamed "
      "writes = buffer) and validates every recorded pre_auth_encode call (Vec output and write() sequence, 0..8 pieces, 0..4 fragments, "
      "fragment lengths up to 600) against PAE.tla.",
      "Trusted: TLC, Json reader, harness recorder (negative control each run). Backend MAC/digest adapters are private; covered via C03.",
      "TLA+ spec (PAE) + TLC exhaustive MC + TLC observation-set validation", "§4 C15")


def na(pid, reason):
    NOT_APPLICABLE[pid] = reason


ALL = ["C%02d" % i for i in range(1, 20)]


def write(root="/verif"):
    for p in ALL:
        if p not in CHECKS and p not in NOT_APPLICABLE:
            na(p, "check not built yet in this revision of /verif (planned in DESIGN.md §4); not claimed until its check exists and passes")
    m = dict(version=1, setup_cmd="bin/check --setup",
             hooks=dict(guard="paseto_rs_verif",
                        enable="harness/.cargo/config.toml rustflags: --cfg paseto_rs_verif --cfg getrandom_backend=\"custom\" (harness build only; /repo's own build is untouched)",
                        baseline_off_cmd=BASELINE_OFF, source_commits=[], add_only=True),
             engines=[dict(name="tlc+pv-harness", path="bin/check", serves_properties=sorted(CHECKS),
                           kind_free_text="TLA+ specifications under spec/ checked by TLC; Rust harness under harness/ records / replays the real crates; TLC validates the recordings")],
             checks=[CHECKS[p] for p in sorted(CHECKS)],
             not_applicable=[dict(property_id=p, reason=NOT_APPLICABLE[p]) for p in sorted(NOT_APPLICABLE) if p not in CHECKS],
             notes="See DESIGN.md. Exit codes of bin/check: 0 held, 1 VIOLATION, 2 tool error/timeout (never a verdict).")
    with open(os.path.join(root, "MANIFEST.json"), "w") as f:
        json.dump(m, f, indent=1)


if __name__ == "__main__":
    write()
