"""Writes MANIFEST.json from one table so that it is always valid and consistent."""
import json, os

BASELINE_OFF = ("cd /repo && CARGO_NET_OFFLINE=true cargo nextest run --workspace --no-fail-fast --tool-config-file pb:/w/lib/nextest.toml "
                "--profile pb --test-threads 8 --offline || (cd /repo && cargo test --workspace --no-fail-fast --offline)")

CHECKS = {}
NOT_APPLICABLE = {}


def check(pid, category, text, note, technique, design_ref):
    CHECKS[pid] = dict(property_id=pid, quick_cmd="bin/check %s --tier quick" % pid, thorough_cmd="bin/check %s --tier thorough" % pid,
                       evidence_file="/verif/evidence/%s.json" % pid, replay_cmd_template="bin/check %s --replay {path}" % pid,
                       engine="tlc+pv-harness", level_claimed=dict(category=category, text=text, design_ref=design_ref),
                       level_note=note, technique=technique)


check("C09", "model_checking",
      "TLC compares three TLA+ definitions of unpadded base64url (encoder, declarative canonical acceptance, a transcription of the "
      "implementation's decoder) exhaustively over all short strings/byte strings, and validates every recorded call of the real decoder, "
      "encoder and every FromStr/Display/serde pair at every backend against Base64Url.tla/TextFormat.tla (observation-set validation).",
      "Trusted: TLC, CommunityModules Json, the harness recorder (guarded by a corrupted-record negative control on every run). Bytes that "
      "cannot occur in a &str are covered at model level only.",
      "TLA+ spec (Base64Url, TextFormat) + TLC exhaustive MC + TLC observation-set validation of recorded implementation calls", "§4 C09")
check("C15", "model_checking",
      "TLC checks PAE.tla exhaustively on a bounded domain (fragment invariance, explicit parser is a left inverse => injective, streamed "
      "writes = buffer) and validates every recorded pre_auth_encode call (Vec output and write() sequence, 0..8 pieces, 0..4 fragments, "
      "fragment lengths up to 600) against PAE.tla.",
      "Trusted: TLC, Json reader, harness recorder (negative control each run). Backend MAC/digest adapters are private; covered via C03.",
      "TLA+ spec (PAE) + TLC exhaustive MC + TLC observation-set validation", "§4 C15")

TRACE_NOTE = ("Trusted: TLC, CommunityModules Json, the harness recorder/interner (guarded on every run by corrupted-trace negative controls that "
              "TLC must reject), the perfect-crypto assumption (accidental collisions <= 2^-128). Values are observed through the public API "
              "only (Display, accessors, harness-defined Payload/Footer/Validate implementations).")
check("C01", "model_checking",
      "L0 (Ideal.tla) is model-checked exhaustively with failing draws/encoders/decoders and an attacker; every event of real "
      "encrypt/sign -> to_string -> parse -> decrypt/verify executions with the library's own randomness (all backends, both purposes, generated "
      "and boundary keys, payload lengths incl. every block boundary, footers, assertions, thousands of randomized signatures; raw, Json<Value>, "
      "RegisteredClaims and application-struct payloads with Json<Value> footers; payload types with an encoding suffix; re-sealing after a "
      "footer change) is validated against L0 by TLC, all L0 invariants evaluated at every step; liveness of L0 in the thorough tier.", TRACE_NOTE,
      "TLA+ L0 spec (Ideal) + TLC exhaustive MC + TLC trace validation of recorded implementation executions", "§3.3, §4 C01")
check("C02", "model_checking",
      "L0's acceptance rule (accept iff an entry with identical bytes, footer, assertion, header and key) is model-checked; every tamper class "
      "of the property is applied to real tokens of every backend/purpose (plus a sweep that alters the last byte of message, footer and "
      "assertion at total sizes 0..1300, degenerate tags / signatures, suffix-bearing tokens with every footer length to 140) and each "
      "parse/unseal event is validated against L0 by TLC.", TRACE_NOTE,
      "TLA+ L0 spec (Ideal) + TLC exhaustive MC + TLC trace validation of tamper campaigns", "§4 C02")
check("C12", "model_checking",
      "L0's enabling conditions (Decode only if authenticated, Validate only if decoded, error class of ReturnErr) are invariants of the model; "
      "the tamper campaign runs with a recording / failing / panicking payload decoder and a recording validator and TLC rejects any trace in "
      "which they run, or a payload/claims error is returned, for an unauthenticated token.", TRACE_NOTE,
      "TLA+ L0 spec (Ideal) + TLC MC + TLC trace validation with spying decoder/validator", "§4 C12")
check("C05", "model_checking",
      "L0's wrapped-key table is model-checked; PIE/PBKW/PKE wrap -> to_string -> length law (Versions.tla) -> parse -> unwrap executions of every "
      "backend (thousands of PKE seals so that rare RSA-KEM/ephemeral values occur) are validated against L0 by TLC.", TRACE_NOTE,
      "TLA+ L0 spec (Ideal, Versions) + TLC MC + TLC trace validation", "§4 C05")
check("C06", "model_checking",
      "As C02 for wrapped and sealed keys: bit flips over every byte (all bits of the PBKW parameter block), truncations, extensions, other "
      "secrets, relabel local<->secret and across versions, text-level extensions of the serialised string, each unwrap validated against "
      "L0's blob table by TLC.", TRACE_NOTE +
      " PBKW costs beyond the stated budget are parsed but not executed; passwords are compared by their identity as PBKDF2-HMAC keys for k1/k3.",
      "TLA+ L0 spec (Ideal) + TLC MC + TLC trace validation of tamper campaigns", "§4 C06")
check("C11", "model_checking",
      "Claims.tla defines Accepts(expression, claims); TLC enumerates validator expressions to depth 2/3 and the claims domain, checks the "
      "algebraic laws on every pair, the harness builds each expression with the real constructors/combinators and runs it on real claims "
      "(6 time configurations incl. sub-second leeways), directly and through real unseals; TLC validates every result.",
      "Trusted: TLC, Json reader, harness expression builder (negative control each run). Time is modelled as (coarse, fine) pairs.",
      "TLA+ spec (Claims) + TLC case generation + replay on the real validators + TLC observation-set validation", "§4 C11")
check("C14", "model_checking",
      "ClaimsJson.tla models the decoder as a state machine; TLC checks agreement with a last-wins generic parser, order/unknown-member "
      "independence and Decode(Encode(c)) = c exhaustively at small scale; every member sequence up to length 2 (and sampled longer ones) and "
      "random claims for all presence masks are run through the real encoder/decoder and validated by TLC.",
      "Trusted: TLC, Json reader, the harness' JSON rendering/projection and its independent RFC 3339 reader. String escape fidelity is "
      "decided by round-trip equality, not modelled.",
      "TLA+ spec (ClaimsJson) + TLC exhaustive MC + TLC observation-set validation", "§4 C14")

TERM_NOTE = ("Trusted: TLC; each primitive library as a primitive only (RustCrypto vs aws-lc/libsodium are forced to agree through the terms); "
             "the evaluator (knows no PASETO; its base64 and counter-increment primitives are themselves validated against Base64Url.tla / "
             "Ctr.tla); L1's fidelity to the PASETO/PASERK texts. Derived counter blocks (v3 local, PIE and PKE of k1/k3) are exercised through the cfg-guarded hook paseto_core::verif.")
check("C03", "model_checking",
      "Construct.tla (L1) defines every token construction as a term; TLC prints the term for each (version, purpose, length tuple) and checks "
      "its layout arithmetic; the real seal output must equal the independently evaluated term (caller nonce and library randomness), "
      "randomized signatures must verify under an independent verifier over the spec-computed bytes, and spec-built reference tokens for "
      "boundary nonces (incl. embedded IVs that wrap the low 64 counter bits) must be accepted with the same claims on every backend.",
      TERM_NOTE, "TLA+ L1 spec (Construct, Crypto, Ctr) + TLC term generation + evaluation with independent primitives + TLC observation-set validation", "§3.4, §4 C03")
check("C07", "model_checking",
      "As C03 for PIE, PBKW (concrete big-endian parameter block in the term) and PKE (X25519 / P-384 ECDH / RSA-KEM at fixed width): backward "
      "and scripted-RNG forward equality, and spec-built reference blobs (nonces 00.., ff.., ..fe, low-64-ones) must unwrap to the same key on "
      "every backend of the version.", TERM_NOTE,
      "TLA+ L1 spec (Construct) + TLC term generation + evaluation with independent primitives + TLC observation-set validation", "§4 C07")
check("C13", "model_checking",
      "Construct!KeyIdBytes/KeyIdText/KeyText terms evaluated with the independent hash must equal Key::id() bytes and text and the key's PASERK "
      "text for local/public/secret keys of every backend (generated, boundary, fixture keys, non-reduced Ed25519 encodings), stable across "
      "clone and reparse; id values compare / hash as their 33 bytes; id strings of every body length 0..40 and with malformed type headers are "
      "offered to every backend and id kind. Key ids in use: the L2 deployment model Deploy.tla (verifier selects the key by the id in the "
      "unverified footer; PASERK key distribution; expiry against a clock; services that demand their own audience; network attacker) is "
      "model-checked (with 4 spec mutants and 5 reachability witnesses; TLAPS proof of the unbounded design in the thorough tier), "
      "TLC-generated behaviours of it are replayed through the real crates with a KeyId-indexed store, and Trace_Deploy validates every "
      "recorded step against the same actions.", TERM_NOTE,
      "TLA+ L1 spec (Construct) + TLC term generation + evaluation with independent primitives + TLC observation-set validation; TLA+ L2 spec "
      "(Deploy) + TLC model checking + TLC simulation -> replay into the implementation -> TLC trace validation", "§4 C13, §11.9")

check("C08", "model_checking",
      "Keys.tla defines, per (version, key kind), which byte strings are keys (length tables, scalar range computed in TLA+, curve membership "
      "and seed->public as predicates answered by an oracle independent of the backend) and what must hold of every accepted key; MC_Keys "
      "explores the table; every byte string of length 0..128 and a catalogue of degenerate encodings are offered to every backend and each "
      "outcome (accept/reject, re-encode, reparse, clone, public half, sign/verify) is validated by TLC; keys from random() are exported, "
      "parsed and compared; KeyText values of unequal lengths compare, order and hash as their bytes.",
      "Trusted: TLC, the oracles (p384 crate <-> aws-lc, dalek <-> libsodium, a 15-line big-integer curve test, aws-lc's RSA DER parser), the "
      "harness recorder (negative control each run).",
      "TLA+ spec (Keys) + TLC MC of the validity table + TLC observation-set validation with independent oracles", "§4 C08")

check("C10", "model_checking",
      "MC_Headers checks on all 52 x 52 header pairs that the text grammar (TextFormat.tla) is prefix-free and never accepts a text of another "
      "(kind, version); every valid value of 15 kinds x 6 backends is offered to 18 parsers x 6 backends and TLC validates each outcome "
      "(accept iff same version and same PASERK text kind), as text through FromStr and as CBOR text / CBOR bytes through serde; header "
      "rewriting of authenticated wrapped keys is validated against L0.",
      "Trusted: TLC, Json reader, harness recorder (negative control each run). Wrong-length key bytes are C08's observations.",
      "TLA+ spec (TextFormat, HeaderTable, Ideal) + TLC exhaustive MC + TLC observation-set and trace validation", "§4 C10")

check("C04", "exploration",
      "Input classes are enumerated from the specification's grammar (every parser x header class x base64 class x every decoded length x "
      "content class, plus mutated valid values); every parser and every follow-up operation on accepted values runs under catch_unwind in "
      "one child process per backend; TLC validates that every step is Ok or Err (panic / death of the process is not a result the "
      "specification has) and, for short inputs, that the parse outcome is the grammar's.",
      "Observes panics, aborts and fatal signals only: silent invalid memory accesses are NOT observable with this technique (no sanitizer). "
      "PBKW costs beyond the stated budget are parsed but not executed.",
      "TLA+ grammar (TextFormat) guided enumeration + execution under catch_unwind + TLC observation-set validation", "§4 C04")
check("C16", "fault_enumeration",
      "L0 (Ideal.tla) admits Emit only when every draw and encoder succeeded, requires every embedded random field to be new (`used`), and "
      "Rng.tla fixes where the drawn value must appear; MC checks fail-closed on the model; every draw index of every operation of the "
      "getrandom-based backends is failed (one draw cleanly, one draw after a partial fill, and as an outage: that draw and every later one) "
      "through a custom getrandom backend, and hundreds to thousands of consecutive operations with identical inputs are validated for "
      "freshness, all as TLC-validated traces; the thorough tier repeats freshness and wrap faults on drivers compiled in the release profile.",
      "aws-lc's and libsodium's RNGs cannot be failed from outside the process: for those two backends only freshness is checked. RSA paths of "
      "paseto-v1 draw through getrandom 0.2 (OsRng) and are not failed here.",
      "TLA+ L0 spec (Ideal, Rng) + TLC MC + fault injection via custom getrandom backend + TLC trace validation", "§4 C16")
check("C17", "exploration",
      "Shared.tla (immutable key, overlapping operations, clone/give/drop of handles) is model-checked for all interleavings of 3 threads; "
      "TLC-generated failure/success histories (22 operation variants incl. degenerate tokens, KDF-refused parameters, key sealing) are "
      "replayed on one set of long-lived key objects per backend, 8-16 real threads share one key per backend, a clone storm clones and "
      "drops handles from all threads; every result is validated by TLC against the sequential function (same call on a fresh copy) or its "
      "postcondition; an operation that does not return within 120 s is reported as a violation by a watchdog.",
      "A data race that neither crashes nor changes a result is invisible here (no ThreadSanitizer); schedules are those the OS produced.",
      "TLA+ spec (Shared) + TLC MC of interleavings + TLC-generated histories replayed + TLC observation-set validation of real threads", "§4 C17")

check("C18", "model_checking",
      "Typing.tla states which (operation, key kind, own/other version) program points must type-check; TLC checks the matrix's "
      "meta-properties and emits one probe per point; each probe is instantiated per backend crate and type-checked by rustc against the "
      "freshly built library (744 programs); TLC validates rustc's verdict and that rejections are type/trait/privacy errors.",
      "Trusted: TLC, rustc, the probe templates (kept honest by the expected-accept siblings of the same template and by the error-code filter).",
      "TLA+ spec (Typing) + TLC enumeration of the matrix + rustc as the implementation + TLC observation-set validation", "§4 C18")
check("C19", "model_checking",
      "Features.tla reads the feature tables of the working tree's Cargo.toml files, computes the closure of every feature subset (2052 "
      "states), checks monotonicity and the documented implications, and emits the distinct closures; each is `cargo check`ed (quick: one "
      "crate completely + named subsets of the others; thorough: all 184) and reduced-feature probe binaries replay full-build tokens, "
      "blobs and ids; TLC validates the outcomes.",
      "Trusted: TLC, cargo/rustc; `cargo check --lib` stands for 'builds'. Behaviour probes cover verify-only and decrypt-only builds in "
      "quick and nine feature sets in thorough.",
      "TLA+ spec (Features) + TLC closure lattice + cargo as the implementation + TLC observation-set validation", "§4 C19")


def na(pid, reason):
    NOT_APPLICABLE[pid] = reason


ALL = ["C%02d" % i for i in range(1, 20)]


def write(root="/verif"):
    for p in ALL:
        if p not in CHECKS and p not in NOT_APPLICABLE:
            na(p, "check not built yet in this revision of /verif (planned in DESIGN.md §4); not claimed until its check exists and passes")
    m = dict(version=1, setup_cmd="bin/check --setup",
             hooks=dict(guard="paseto_rs_verif",
                        enable="harness/.cargo/config.toml rustflags: --cfg paseto_rs_verif --cfg getrandom_backend=\"custom\" (harness build only; /repo's own build is untouched). The one source hook is paseto_core::verif (derived AES-CTR counter block override), compiled only under the cfg",
                        baseline_off_cmd=BASELINE_OFF, source_commits=["aa5467c"], add_only=True),
             engines=[dict(name="tlc+pv-harness", path="bin/check", serves_properties=sorted(CHECKS),
                           kind_free_text="TLA+ specifications under spec/ checked by TLC; Rust harness under harness/ records / replays the real crates; TLC validates the recordings")],
             checks=[CHECKS[p] for p in sorted(CHECKS)],
             not_applicable=[dict(property_id=p, reason=NOT_APPLICABLE[p]) for p in sorted(NOT_APPLICABLE) if p not in CHECKS],
             notes="See DESIGN.md. Exit codes of bin/check: 0 held, 1 VIOLATION, 2 tool error/timeout (never a verdict).")
    with open(os.path.join(root, "MANIFEST.json"), "w") as f:
        json.dump(m, f, indent=1)


if __name__ == "__main__":
    write()
