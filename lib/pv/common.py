"""Shared machinery for bin/check: TLC runner, harness build/run, evidence, known findings.

Verdicts come from TLC.  This file only moves files around, runs tools, parses TLC's own
output (state counts, the VIOL tuples the specifications print) and writes evidence."""
import json, os, re, subprocess, sys, time, shutil, hashlib

ROOT = os.path.realpath(os.path.join(os.path.dirname(os.path.abspath(__file__)), "..", ".."))
BUILD = os.path.join(ROOT, "build")
SPEC = os.path.join(ROOT, "spec")
HARNESS_DIR = os.path.join(ROOT, "harness")
HARNESS_BIN = os.path.join(BUILD, "target", "debug", "pv-harness")
TLA_JARS = "/opt/veriftools/tla/tla2tools.jar:/opt/veriftools/tla/CommunityModules-deps.jar"
REPO = os.environ.get("PV_REPO", "/repo")


class ToolError(Exception):
    pass


class LibraryDied(Exception):
    """The harness process ended abnormally while it was executing code of the library under test: a panic whose location is
    not in the harness' own sources, or a fatal signal.  That is an observation about the library (data), not a tool failure."""
    def __init__(self, sub, where, detail):
        super().__init__("%s: %s" % (sub, where))
        self.sub, self.where, self.detail = sub, where, detail


def log(*a):
    print("[check]", *a, file=sys.stderr, flush=True)


def ensure_dir(p):
    os.makedirs(p, exist_ok=True)
    return p


# --------------------------------------------------------------------------- cargo / harness
_built = False


def cargo_env():
    env = dict(os.environ)
    env["CARGO_NET_OFFLINE"] = "true"
    env.pop("RUSTFLAGS", None)  # the harness' .cargo/config.toml carries the cfg flags
    return env


LAST_BUILD_OUTPUT = ""


def build_harness():
    """(Re)build the harness against /repo's current working tree (path dependencies)."""
    global _built
    if _built:
        return
    lock = os.path.join(HARNESS_DIR, "Cargo.lock")
    if not os.path.exists(lock):
        shutil.copy(os.path.join(REPO, "Cargo.lock"), lock)
    t0 = time.time()
    p = subprocess.run(["cargo", "build", "--offline", "-q"], cwd=HARNESS_DIR, env=cargo_env(),
                       stdout=subprocess.PIPE, stderr=subprocess.STDOUT, text=True)
    if p.returncode != 0:
        sys.stderr.write(p.stdout[-6000:])
        global LAST_BUILD_OUTPUT
        LAST_BUILD_OUTPUT = p.stdout
        raise ToolError("harness does not build against the current /repo tree")
    log("harness built in %.1fs" % (time.time() - t0))
    _built = True


_built_release = False


def build_harness_release():
    """The same drivers compiled in the release profile (no debug assertions, no overflow checks): what users ship."""
    global _built_release
    if _built_release:
        return
    build_harness()
    t0 = time.time()
    p = subprocess.run(["cargo", "build", "--offline", "-q", "--release"], cwd=HARNESS_DIR, env=cargo_env(),
                       stdout=subprocess.PIPE, stderr=subprocess.STDOUT, text=True)
    if p.returncode != 0:
        sys.stderr.write(p.stdout[-6000:])
        raise ToolError("harness does not build in the release profile against the current /repo tree")
    log("release harness built in %.1fs" % (time.time() - t0))
    _built_release = True


LIB_CRATES = ["paseto-core", "paseto-json", "paseto-v1", "paseto-v2", "paseto-v3", "paseto-v3-aws-lc", "paseto-v4", "paseto-v4-sodium"]


def build_libs():
    """Build only the library crates (and serde_json) in the harness workspace: enough for checks that compile their own
    programs against the rlibs (C18) and independent of whether the harness' own generic drivers still type-check."""
    lock = os.path.join(HARNESS_DIR, "Cargo.lock")
    if not os.path.exists(lock):
        shutil.copy(os.path.join(REPO, "Cargo.lock"), lock)
    cmd = ["cargo", "build", "--offline", "-q", "-p", "serde_json"]
    for c in LIB_CRATES:
        cmd += ["-p", c]
    p = subprocess.run(cmd, cwd=HARNESS_DIR, env=cargo_env(), stdout=subprocess.PIPE, stderr=subprocess.STDOUT, text=True)
    if p.returncode != 0:
        sys.stderr.write(p.stdout[-6000:])
        raise ToolError("the library crates do not build from the current /repo tree")


def harness(args, timeout=3600, env_extra=None, check=True, stdin=None, release=False):
    build_harness()
    if release:
        build_harness_release()
    env = dict(os.environ)
    if env_extra:
        env.update(env_extra)
    t0 = time.time()
    try:
        p = subprocess.run([HARNESS_BIN.replace(os.sep + "debug" + os.sep, os.sep + "release" + os.sep) if release else HARNESS_BIN] + args, stdout=subprocess.PIPE, stderr=subprocess.PIPE, text=True,
                           timeout=timeout, env=env, input=stdin)
    except subprocess.TimeoutExpired:
        raise ToolError("harness timed out: %s" % " ".join(args))
    log("harness %s: rc=%d %.1fs %s" % (args[0], p.returncode, time.time() - t0, p.stdout.strip()[-200:]))
    if check and p.returncode != 0:
        sys.stderr.write(p.stderr[-4000:])
        m = re.findall(r"panicked at ([^\s:]+):(\d+):\d+:\n(.*)", p.stderr)
        if p.returncode < 0:
            raise LibraryDied(args[0], "signal %d" % -p.returncode, p.stderr[-1500:])
        if m:
            # a panic in the library, or an expectation of the driver about the library's behaviour on valid input that did not
            # hold (`expect("sealing key parses")`): either way the tree under test did something the drivers, which pass on the
            # unchanged tree, were not written for
            where, line, msg = m[-1]
            for pre in (REPO + "/", "/repo/", ROOT + "/"):
                if where.startswith(pre):
                    where = where[len(pre):]
            raise LibraryDied(args[0], "panic at %s:%s: %s" % (where, line, msg.strip()[:160]), p.stderr[-1500:])
        if p.returncode == 101:
            # Rust's exit code for a panic of the main thread; the driver had silenced the panic message (it catches panics of
            # single calls itself), so the location is not known
            raise LibraryDied(args[0], "panic outside the calls the driver guards (message suppressed)", p.stderr[-1500:])
        raise ToolError("harness %s failed with rc=%d" % (args[0], p.returncode))
    return p


# --------------------------------------------------------------------------- TLC
class TlcResult:
    def __init__(self, out, rc, wall):
        self.out, self.rc, self.wall = out, rc, wall
        m = re.search(r"(\d[\d,]*) states generated, (\d[\d,]*) distinct states found", out)
        self.generated = int(m.group(1).replace(",", "")) if m else 0
        self.distinct = int(m.group(2).replace(",", "")) if m else 0
        self.completed = "Model checking completed. No error has been found." in out or \
                         ("Finished in" in out and "Error:" not in out and rc == 0)
        self.viols = []
        for m in re.finditer(r'<<"VIOL", (-?\d+), "([^"]*)"(?:, ([^>]*))?>>', out):
            self.viols.append((int(m.group(1)), m.group(2), m.group(3)))
        self.prints = re.findall(r'^<<"(?!VIOL)[A-Z]+".*>>$', out, flags=re.M)
        self.error = None
        m = re.search(r"^Error: (.*)$", out, flags=re.M)
        if m:
            self.error = m.group(1)

    def invariant_violated(self):
        m = re.search(r"Invariant (\S+) is violated", self.out)
        return m.group(1) if m else None


def tlc(module, cfg, workdir, name, workers=8, env_extra=None, timeout=3600, simulate=None, heap="8g",
        deque=False, extra=None):
    """Run TLC on spec/<workdir>/<module>.tla with <cfg>.  Returns TlcResult."""
    meta = ensure_dir(os.path.join(BUILD, "tlc", name))
    env = dict(os.environ)
    if env_extra:
        env.update(env_extra)
    java = ["java", "-XX:+UseParallelGC", "-Xss1g", "-Xmx" + heap, "-DTLA-Library=" + SPEC + os.pathsep + os.path.join(SPEC, "mc")]
    if deque:
        java.append("-Dtlc2.tool.queue.IStateQueue=StateDeque")
    cmd = ["timeout", str(timeout)] + java + ["-cp", TLA_JARS, "tlc2.TLC", "-workers", str(workers), "-metadir", meta,
                                              "-cleanup", "-noGenerateSpecTE", "-checkpoint", "0", "-config", cfg]
    if simulate:
        cmd += ["-simulate", simulate]
    if extra:
        cmd += extra
    cmd.append(module + ".tla")
    t0 = time.time()
    p = subprocess.run(cmd, cwd=os.path.join(SPEC, workdir), env=env, stdout=subprocess.PIPE, stderr=subprocess.STDOUT, text=True)
    wall = time.time() - t0
    shutil.rmtree(meta, ignore_errors=True)
    r = TlcResult(p.stdout, p.returncode, wall)
    log("tlc %s/%s [%s]: rc=%d generated=%d distinct=%d viols=%d %.1fs" % (workdir, module, cfg, p.returncode, r.generated, r.distinct, len(r.viols), wall))
    if p.returncode == 124:
        raise ToolError("TLC timed out on %s (%s)" % (module, cfg))
    with open(os.path.join(ensure_dir(os.path.join(BUILD, "logs")), name + ".tlc.log"), "w") as f:
        f.write(p.stdout)
    return r


def ideal_mc(out, tier, name, extra=()):
    """Model-check L0 (MC_Ideal).  quick: one token, one blob, one draw (0.6M states).  thorough: one token and one blob with two
    draws and key generation (5.4M states) plus the configurations named in `extra`: "tokens" (two tokens, no blobs, 2.6M states),
    "blobs" (two blobs, no tokens).  Returns the last result."""
    cfgs = ["MC_Ideal_%s.cfg" % tier]
    if tier == "thorough":
        cfgs += ["MC_Ideal_thorough_%s.cfg" % e for e in extra]
    r = None
    for i, cfg in enumerate(cfgs):
        r = tlc("MC_Ideal", cfg, "mc", "%s-mc%d" % (name, i), workers=12 if tier == "quick" else 14, timeout=7200, heap="16g")
        tlc_must_pass(r, "MC_Ideal " + cfg)
        out.add_tlc(r)
    return r


def tlc_must_pass(r, what):
    """A model-checking run over the specification itself must complete without error."""
    if not r.completed or r.viols:
        sys.stderr.write(r.out[-5000:])
        raise SpecFailure(what, r)


class SpecFailure(Exception):
    def __init__(self, what, r):
        super().__init__(what)
        self.what, self.r = what, r


# --------------------------------------------------------------------------- NDJSON helpers
def read_ndjson(path):
    with open(path) as f:
        return [json.loads(l) for l in f if l.strip()]


def write_ndjson(path, recs):
    with open(path, "w") as f:
        for r in recs:
            f.write(json.dumps(r, separators=(",", ":")) + "\n")


def line_of(path, idx):
    """1-based line idx of an NDJSON file"""
    with open(path) as f:
        for n, l in enumerate(f, 1):
            if n == idx:
                return json.loads(l)
    return None


def lines_of(path, idxs):
    want = set(idxs)
    got = {}
    with open(path) as f:
        for n, l in enumerate(f, 1):
            if n in want:
                got[n] = json.loads(l)
    return got


def count_lines(path):
    with open(path) as f:
        return sum(1 for _ in f)


# --------------------------------------------------------------------------- findings
class Findings:
    """known_findings.json: read-only at run time.  An entry with status "known" suppresses
    exactly the violations whose structured classification contains its `match` object."""

    def __init__(self):
        p = os.path.join(ROOT, "known_findings.json")
        self.entries = json.load(open(p)) if os.path.exists(p) else []

    def match(self, prop, cls):
        for e in self.entries:
            if e.get("property") != prop or e.get("status") != "known":
                continue
            if all(cls.get(k) == v for k, v in e["match"].items()):
                return e
        return None


# --------------------------------------------------------------------------- outcome of a check
class Outcome:
    def __init__(self, prop, tier, seed, level):
        self.prop, self.tier, self.seed, self.level = prop, tier, seed, level
        self.t0 = time.time()
        self.states = 0
        self.transitions = 0
        self.traces = 0
        self.evaluations = 0
        self.distinct_nontrivial = 0
        self.samples = []
        self.rule = ""
        self.extra = {}
        self.assumptions = []
        self.violations = []      # list of dicts: {cls:{...}, detail:{...}}
        self.known_hits = {}      # key -> count
        self.exhaustive = None
        self.findings = Findings()

    def add_tlc(self, r):
        self.states += r.distinct
        self.transitions += r.generated

    def violation(self, cls, detail):
        e = self.findings.match(self.prop, cls)
        if e is not None:
            self.known_hits[e["key"]] = self.known_hits.get(e["key"], 0) + 1
            return False
        self.violations.append({"cls": cls, "detail": detail})
        return True

    def finish(self):
        wall = time.time() - self.t0
        cov = {
            "states": self.states, "transitions": self.transitions,
            "traces_validated_against_impl": self.traces,
            "evaluations": self.evaluations, "distinct_nontrivial": self.distinct_nontrivial,
            "rule": self.rule, "samples": self.samples[:12] or [{"note": "no sample recorded"}],
        }
        if self.exhaustive is not None:
            cov["exhaustive"] = self.exhaustive
        cov.update(self.extra)
        cov["known_findings_hit"] = self.known_hits
        ev = {"property_id": self.prop, "tier": self.tier, "seed": self.seed, "level": self.level, "coverage": cov,
              "assumptions": self.assumptions, "wall_s": round(wall, 2), "violations": len(self.violations)}
        ensure_dir(os.path.join(ROOT, "evidence"))
        with open(os.path.join(ROOT, "evidence", self.prop + ".json"), "w") as f:
            json.dump(ev, f, indent=1)
        for k, n in sorted(self.known_hits.items()):
            print("KNOWN-FINDING: property=%s %s (%d occurrence%s in this run)" % (self.prop, k, n, "" if n == 1 else "s"))
        if self.violations:
            ensure_dir(os.path.join(ROOT, "replays"))
            # one replay file per distinct classification
            seen = {}
            for v in self.violations:
                key = json.dumps(v["cls"], sort_keys=True)
                seen.setdefault(key, []).append(v)
            n = 0
            for key, vs in seen.items():
                n += 1
                h = hashlib.sha1(key.encode()).hexdigest()[:10]
                path = os.path.join(ROOT, "replays", "%s-%s.json" % (self.prop, h))
                with open(path, "w") as f:
                    json.dump({"property": self.prop, "tier": self.tier, "seed": self.seed, "classification": vs[0]["cls"],
                               "count": len(vs), "examples": [v["detail"] for v in vs[:5]]}, f, indent=1)
                print("VIOLATION property=%s replay=%s" % (self.prop, path))
                print("  class: %s (%d occurrence%s)" % (key, len(vs), "" if len(vs) == 1 else "s"))
            return 1
        return 0


# --------------------------------------------------------------------------- L1 -> L0 refinement and its spec mutants
REFINE_MUTANTS = ["no-length-prefix", "prefix-tag", "header-not-authenticated", "empty-pieces-dropped"]


def refinement(out, name, full):
    """Non-vacuity control of the design-level argument: every deliberately broken variant of the L1 construction
    (spec/neg/) must be REJECTED by TLC (invariant Refines violated); with full=True the real construction is also
    model-checked against L0's acceptance rule with the byte-level attacker (about 4 million states)."""
    rejected = []
    for v in REFINE_MUTANTS:
        r = tlc("MC_Refine", "Refine_%s.cfg" % v, "neg", name + "-neg-" + v, workers=8, timeout=1800)
        if r.invariant_violated() != "Refines":
            raise ToolError("model vacuous: the broken construction '%s' was not rejected by the refinement check" % v)
        rejected.append(v)
    out.extra["spec_mutants_rejected"] = rejected
    if full:
        r = tlc("MC_Refine", "Refine_spec.cfg", "mc", name + "-refine", workers=12, timeout=7200, heap="16g")
        tlc_must_pass(r, "MC_Refine")
        out.add_tlc(r)
        out.extra["refinement_states"] = r.distinct
