"""Trace validation: the harness records one NDJSON event per specification action; TLC checks that
the recorded behaviour is a behaviour of spec/trace/Trace_Ideal.tla (which reuses Ideal.tla's actions).
A scenario the specification rejects is reported as a VIOL tuple; the run resumes at the next Reset."""
import json, os, sys
from . import common as C


def load(path):
    with open(path) as f:
        return [json.loads(l) for l in f]


def context(events, idx):
    """The call an event index (1-based) belongs to: backend, purpose/kind, tamper class."""
    ctx = {}
    i = idx - 1
    while i >= 0:
        e = events[i]
        if e["ev"] in ("SealCall", "UnsealCall", "WrapCall", "Unwrap", "KeyCall") or (e["ev"] in ("ParseRet", "Panic") and i == idx - 1):
            for k in ("be", "ver", "purpose", "wkind", "ktype"):
                if k in e and k not in ctx:
                    ctx[k] = e[k]
            if isinstance(e.get("note"), dict) and "tamper" not in ctx:
                ctx["tamper"] = e["note"].get("cls")
            if e["ev"] != "Panic" and e["ev"] != "ParseRet":
                ctx["call"] = e["ev"]
                break
        if e["ev"] == "Reset":
            break
        i -= 1
    j = idx - 1
    while j >= 0 and events[j]["ev"] != "Reset":
        j -= 1
    if j >= 0:
        ctx["scenario"] = events[j].get("scenario")
    return ctx


def validate(out, tracefile, name, classify=None, timeout=3600, module="Trace_Ideal"):
    events = load(tracefile)
    r = C.tlc(module, module + ".cfg", "trace", name, workers=1, env_extra={"TRACE": tracefile}, timeout=timeout, deque=True)
    if '<<"DONE"' not in r.out:
        sys.stderr.write(r.out[-4000:])
        raise C.ToolError("TLC did not consume the whole trace %s: %s" % (tracefile, r.error))
    inv = r.invariant_violated()
    if inv:
        raise C.ToolError("invariant %s violated while validating a trace: the trace specification is inconsistent with L0" % inv)
    out.add_tlc(r)
    scen = sum(1 for e in events if e["ev"] == "Reset")
    out.traces += scen
    out.evaluations += len(events)
    for idx, evname, rest in r.viols:
        e = events[idx - 1]
        ctx = context(events, idx)
        cls = {"event": evname, "be": ctx.get("be"), "purpose": ctx.get("purpose", ctx.get("wkind")), "call": ctx.get("call"),
               "tamper": ctx.get("tamper"), "op": (rest or "").replace("<<", "").replace(">>", "").replace('"', "").strip()}
        if evname in ("UnsealRet", "SealRet", "Unwrap", "WrapRet"):
            cls["ok"] = e.get("ok")
            if not e.get("ok"):
                cls["errc"] = e.get("errc")
        if evname == "Panic":
            cls["where"] = e.get("where")
        if evname == "Law":
            cls["law"], cls["be"] = e.get("name"), e.get("be")
        if classify:
            cls = classify(cls, e, ctx)
        lo = idx - 1
        while lo > 0 and events[lo]["ev"] not in ("SealCall", "UnsealCall", "WrapCall", "Reset"):
            lo -= 1
        out.violation(cls, {"event_index": idx, "scenario": ctx.get("scenario"), "events": events[lo:idx + 1][-12:]})
    return events, r


def negative_control(tracefile, name, mutators, max_events=4000):
    """Binding check: apply each mutator to a prefix of a real trace; TLC must reject the mutated scenario
    (and must accept the unmutated prefix apart from violations already present)."""
    events = load(tracefile)
    # a prefix of whole scenarios with at least max_events/2 events
    resets = [i for i, e in enumerate(events) if e["ev"] == "Reset"] + [len(events)]
    k = next((i for i in resets if i >= max_events // 2), resets[-1])
    events = events[:k]
    base = os.path.join(os.path.dirname(tracefile), "neg-base.ndjson")
    C.write_ndjson(base, events)
    r0 = C.tlc("Trace_Ideal", "Trace_Ideal.cfg", "trace", name + "-neg0", workers=1, env_extra={"TRACE": base}, timeout=600, deque=True)
    base_viols = set(v[0] for v in r0.viols)
    n = 0
    for mname, mut in mutators:
        ev2, at = mut([dict(e) for e in events])
        if ev2 is None:
            raise C.ToolError("negative control %s: nothing to mutate" % mname)
        p = os.path.join(os.path.dirname(tracefile), "neg-%s.ndjson" % mname)
        C.write_ndjson(p, ev2)
        r = C.tlc("Trace_Ideal", "Trace_Ideal.cfg", "trace", name + "-neg-" + mname, workers=1, env_extra={"TRACE": p}, timeout=600, deque=True)
        hit = [v for v in r.viols if at - 3 <= v[0] <= at + 3]
        if not hit:
            raise C.ToolError("negative control %s: the corrupted trace was accepted (corruption at event %d, base violations %s)" % (mname, at, sorted(base_viols)[:5]))
        os.remove(p)
        n += 1
    os.remove(base)
    return n


# ---- standard mutators ----------------------------------------------------------------------------
def mut_accept_tampered(events):
    for i, e in enumerate(events):
        if e["ev"] == "UnsealRet" and not e["ok"] and events[i - 1]["ev"] == "UnsealCall":
            e["ok"], e["errc"] = True, ""
            return events, i + 1
    return None, 0


def mut_decode_on_tampered(events):
    for i, e in enumerate(events):
        if e["ev"] == "UnsealRet" and not e["ok"] and events[i - 1]["ev"] == "UnsealCall":
            events.insert(i, {"ev": "Decode", "bytes": 0, "ok": True})
            return events, i + 1
    return None, 0


def mut_wrong_claims(events):
    for i, e in enumerate(events):
        if e["ev"] == "UnsealRet" and e["ok"]:
            e["claims"] = e["claims"] + 1
            return events, i + 1
    return None, 0


def mut_emit_after_failed_draw(events):
    for i, e in enumerate(events):
        if e["ev"] == "Draw" and e["ok"]:
            e["ok"] = False
            j = i + 1
            while events[j]["ev"] != "SealRet" and events[j]["ev"] != "WrapRet":
                j += 1
            return events, j + 1
    return None, 0


def mut_validate_skipped(events):
    for i, e in enumerate(events):
        if e["ev"] == "Validate" and e["verdict"]:
            del events[i]
            return events, i + 1
    return None, 0


def mut_reject_honest(events):
    for i, e in enumerate(events):
        if e["ev"] == "UnsealRet" and e["ok"]:
            k = i
            while events[k]["ev"] != "UnsealCall":
                k -= 1
            del events[k + 1:i]
            events[k + 1]["ok"] = False
            events[k + 1]["errc"] = "crypto"
            return events, k + 2
    return None, 0
