"""C09 Text encodings are strict and canonical."""
import os, json
from .. import common as C
from .. import obs

LEVEL = "model_checking"


def classify(rec, verdict):
    cls = {"verdict": verdict, "fn": rec.get("fn")}
    if rec.get("fn") in ("parse", "keyobj"):
        cls["kind"] = rec.get("kind")
        cls["be"] = rec.get("be")
    else:
        cls["via"] = rec.get("via")
    return cls


def corrupt(rec, rng):
    if rec["fn"] == "dec" and rec["ok"] and rec["out"]:
        rec["out"][rng.randrange(len(rec["out"]))] ^= 1
        return rec
    if rec["fn"] == "dec" and not rec["ok"] and rng.random() < 0.05:
        rec["ok"] = True
        return rec
    if rec["fn"] == "enc" and rec["out"]:
        rec["out"][-1] = 65 if rec["out"][-1] != 65 else 66
        return rec
    if rec["fn"] == "keyobj" and not rec["ok"] and len(rec["in"]) == 32 and rng.random() < 0.2:
        rec["ok"], rec["out"] = True, rec["in"]
        return rec
    if rec["fn"] == "parse" and rec["ok"] and rng.random() < 0.3:
        rec["ser"] = rec["ser"] + [46]
        return rec
    return None


def run(out, tier, seed):
    out.rule = ("MC: every string of <=3 (quick) / <=4 (thorough) characters over the 64 alphabet + 10 adversarial byte values and every "
                "byte string of <=2 bytes (+3-byte blocks) through three definitions of base64url; impl: one record per call of the real "
                "decoder/encoder/FromStr/Display/serde; distinct = distinct (fn, kind, input); non-trivial = input non-empty")
    # 1. the specification itself: three definitions of base64url agree on the bounded domain
    r = C.tlc("MC_Base64", "MC_Base64_%s.cfg" % tier, "mc", "c09-mc", workers=8 if tier == "quick" else 14, timeout=7200, heap="16g")
    C.tlc_must_pass(r, "MC_Base64")
    out.add_tlc(r)
    out.extra["mc_base64_states"] = r.distinct
    out.extra["mc_domain"] = "strings: tails 0..%d over 74 byte values%s; bytes: all of length <=2, 3-byte blocks over %s" % (
        3 if tier == "quick" else 4, "" if tier == "quick" else " (also after one full block)", "{0,1,63,64,255} in the last position" if tier == "quick" else "all 256 values")
    out.exhaustive = True
    # 2. the implementation: observations validated against the specification
    d = C.ensure_dir(os.path.join(C.BUILD, "c09"))
    f = os.path.join(d, "obs.ndjson")
    C.harness(["obs-b64", "--out", f, "--tier", tier, "--seed", str(seed)])
    obs.validate(out, "Obs_Text", f, "c09-obs", classify, workers=8)
    # 3. binding: corrupted records must be rejected
    out.extra["negative_control_rejected"] = obs.negative_control("Obs_Text", f, "c09", corrupt, k=6, seed=seed)
    seen = set()
    kinds = {}
    with open(f) as fh:
        for n, l in enumerate(fh):
            rec = json.loads(l)
            key = (rec["fn"], rec.get("kind", rec.get("via")), tuple(rec["in"]))
            if rec["in"] and key not in seen:
                seen.add(key)
                k = rec["fn"] + ":" + str(rec.get("kind", rec.get("via")))
                kinds[k] = kinds.get(k, 0) + 1
            if n in (5, 20000, 40000) or (rec["fn"] == "parse" and len(out.samples) < 6 and n % 97 == 0):
                s = dict(rec)
                for kk in ("in", "out", "ser"):
                    if kk in s and isinstance(s[kk], list):
                        s[kk] = bytes(s[kk]).decode("latin1")
                out.samples.append(s)
    out.distinct_nontrivial = len(seen)
    out.extra["observations_by_kind"] = kinds
    out.assumptions += [
        "bytes that cannot occur in a Rust &str (0xC0, 0xC1, 0xF5..0xFF, lone continuation bytes) are covered at model level only",
        "TLC, the CommunityModules Json reader and the harness' recorder are trusted; the recorder is guarded by the negative control",
    ]
