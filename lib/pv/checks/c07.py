"""C07 PASERK wraps, seals and password-wraps are bit-exact per spec and interoperate."""
from . import c03
LEVEL = "model_checking"


def run(out, tier, seed):
    c03.run(out, tier, seed, prop="C07")
