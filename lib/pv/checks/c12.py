"""C12 Nothing from an unauthenticated token is decoded, validated or reported."""
from . import c02

LEVEL = "model_checking"


def run(out, tier, seed):
    c02.run(out, tier, seed, prop="C12")
    out.rule = "as C02; the property-specific content is L0's enabling conditions Decode => authenticated, Validate => decoded, and the error class of ReturnErr; " + out.rule
    out.assumptions.append("the 'would-panic' decoder makes an invocation on a forged token impossible to miss even if event logging were bypassed")
