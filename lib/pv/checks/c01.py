"""C01 Seal then unseal returns the original claims (library randomness)."""
import os, json
from .. import common as C
from .. import trace

LEVEL = "model_checking"


def run(out, tier, seed):
    out.rule = ("MC: all interleavings of L0 (Ideal.tla) with 2 keys per kind, 2 claims, footer/assertion in {empty, x}, versions {2,4}, one "
                "token and one wrapped key in the tables, failing draws/encoders/decoders and an attacker presenting any combination; impl: "
                "encrypt/sign with the library's own randomness -> to_string -> parse -> decrypt/verify per backend x purpose x key x payload "
                "length x footer x assertion, every event validated against L0; distinct = distinct interned byte strings (keys, claims, "
                "tokens); non-trivial = scenarios with a successful seal")
    r = C.ideal_mc(out, tier, "c01", ("tokens",))
    out.extra["mc_ideal_states"] = r.distinct
    # liveness half of C01 on a small configuration: under weak fairness every operation in flight terminates
    if tier == "thorough":
        rl = C.tlc("MC_Ideal", "MC_IdealLive.cfg", "mc", "c01-live", workers=4, timeout=1800)
        C.tlc_must_pass(rl, "MC_Ideal liveness")
        out.add_tlc(rl)
        out.extra["liveness_states"] = rl.distinct
    d = C.ensure_dir(os.path.join(C.BUILD, "c01"))
    f = os.path.join(d, "trace.ndjson")
    p = C.harness(["tokens", "--mode", "roundtrip", "--out", f, "--tier", tier, "--seed", str(seed)], timeout=7200)
    stats = json.loads(p.stdout.strip().splitlines()[-1])
    out.extra["harness"] = stats
    events, r = trace.validate(out, f, "c01-trace")
    out.distinct_nontrivial = stats["distinct_byte_strings"]
    if stats["leading_zero_sigs"] == 0:
        raise C.ToolError("inconclusive: no ECDSA signature with a leading zero byte among %d signatures" % stats["signatures"])
    out.extra["rare_class_hits"] = {"ecdsa_r_or_s_with_leading_zero_byte": stats["leading_zero_sigs"]}
    out.extra["negative_control_rejected"] = trace.negative_control(f, "c01", [
        ("wrong-claims", trace.mut_wrong_claims), ("reject-honest", trace.mut_reject_honest), ("validate-skipped", trace.mut_validate_skipped)])
    k = 0
    for i, e in enumerate(events):
        if e["ev"] == "SealCall" and k < 3 and i % 1777 == 1:
            out.samples.append(events[i - 1:i + 10])
            k += 1
    if not out.samples:
        out.samples.append(events[:12])
    out.assumptions += [
        "tokens are observed through Display (the only public view of a SealedToken's bytes); the harness' base64 codec that splits them is itself validated against Base64Url.tla by C09",
        "payload type in this check is a raw-bytes Payload (every byte string encodable); JSON payload types are C14's",
    ]
