"""C14 Registered claims and JSON payloads round-trip exactly through their wire form."""
import os, json
from .. import common as C
from .. import obs

LEVEL = "model_checking"


def classify(rec, verdict):
    cls = {"verdict": verdict, "fn": rec["fn"]}
    if rec["fn"] == "decode":
        ms = rec["members"]
        keys = [m[0] for m in ms]
        cls["shape"] = "dup" if len(set(keys)) < len(keys) else "nodup"
        cls["classes"] = sorted(set(m[1] for m in ms))
    return cls


def corrupt(rec, rng):
    if rec["fn"] == "decode":
        keys = [m[0] for m in rec["members"] if m[0] in ("iss", "sub", "aud", "exp", "nbf", "iat", "jti")]
        if len(set(keys)) < len(keys):
            return None        # for repeated members the specification demands no particular acceptance
        rec["ok"] = not rec["ok"]
        return rec
    if rec["fn"] == "roundtrip" and rec["names"]:
        rec["names"] = list(reversed(rec["names"])) if len(rec["names"]) > 1 else []
        return rec
    return None


def run(out, tier, seed):
    out.rule = ("MC: the decoder state machine over all member sequences of length <= 3 (keys x {2 strings, 2 timestamps, null, number, bool, "
                "array, object}) -- agreement with a last-wins generic parser whenever it succeeds, independence of member order and unknown "
                "members -- and Decode(Encode(c)) = c for all 3^7 slot assignments; impl: every sequence of length <= 2 over 9 keys x 9 values "
                "(6643), sampled/exhaustive longer ones, rendered to JSON text and decoded by RegisteredClaims::decode; random claims for all "
                "128 presence masks with escape-heavy strings and timestamps across jiff's range (encode -> wire projection -> decode); "
                "Json<T> payload/footer against serde_json; distinct = distinct records; non-trivial = sequences with a registered key / "
                "claims with at least one field")
    r = C.tlc("MC_ClaimsJson", "MC_ClaimsJson_%s.cfg" % tier, "mc", "c14-mc", workers=8, timeout=7200)
    C.tlc_must_pass(r, "MC_ClaimsJson")
    out.add_tlc(r)
    out.extra["mc_states"] = r.distinct
    d = C.ensure_dir(os.path.join(C.BUILD, "c14"))
    f = os.path.join(d, "obs.ndjson")
    C.harness(["obs-cjson", "--out", f, "--tier", tier, "--seed", str(seed)], timeout=3600)
    obs.validate(out, "Obs_ClaimsJson", f, "c14-obs", classify, workers=8)
    out.extra["negative_control_rejected"] = obs.negative_control("Obs_ClaimsJson", f, "c14", corrupt, k=6, seed=seed)
    seen = set()
    by = {}
    with open(f) as fh:
        for n, l in enumerate(fh):
            rec = json.loads(l)
            by[rec["fn"]] = by.get(rec["fn"], 0) + 1
            if rec["fn"] == "decode" and any(m[0] in ("iss", "sub", "aud", "exp", "nbf", "iat", "jti") for m in rec["members"]):
                seen.add(l)
            elif rec["fn"] == "roundtrip" and rec["names"]:
                seen.add(l)
            if n in (90, 5000, 13000, 13900):
                out.samples.append(rec)
    out.distinct_nontrivial = len(seen)
    out.extra["records_by_kind"] = by
    out.assumptions += ["Unicode/escape fidelity is decided by equality of round-tripped values and of the wire value read by serde_json, not by a TLA+ model of JSON strings",
                        "timestamps on the wire are re-read by a 40-line independent RFC 3339 reader in the harness"]
