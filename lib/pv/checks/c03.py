"""C03 Tokens are bit-exact PASETO; C07 PASERK operations bit-exact; C13 key ids -- shared machinery:
TLC prints the L1 terms (Construct.tla via Gen_Terms.tla); the harness evaluates them with the primitive
family the backend under test does not use and relates them to the real bytes; TLC validates."""
import os, json, re
from .. import common as C
from .. import obs

LEVEL = "model_checking"

KINDS = {"C03": ["local", "public"], "C07": ["pie", "pw", "pke"], "C13": ["keyid"]}


def classify(rec, verdict):
    cls = {"verdict": verdict, "fn": rec.get("fn")}
    for k in ("kind", "dir", "be", "ktype"):
        if k in rec:
            cls[k] = rec[k]
    if rec.get("dir") == "reference" and "nonce" in rec:
        cls["nonce"] = rec["nonce"]
    return cls


def corrupt(rec, rng):
    if rec["fn"] == "term":
        rec["holds"] = False
        return rec
    if rec["fn"] == "idcmp":
        rec["cmp"] = 1 if rec["cmp"] != 1 else -1
        return rec
    if rec["fn"] == "inc128":
        rec["out"][15] = (rec["out"][15] + 1) % 256
        return rec
    return None


VECTOR_DIR = os.path.join(C.REPO, "paseto-test", "tests", "vectors")


def vector_extras(path):
    """length tuples, PBKW costs and v1 key lengths of the official positive vectors (so that TLC builds their terms)"""
    import binascii
    tuples, pw, v1 = set(), set(), set()

    def tests(f):
        try:
            return json.load(open(os.path.join(VECTOR_DIR, f)))["tests"]
        except Exception:
            return []
    for ver in range(1, 5):
        for t in tests("v%d.json" % ver):
            if not t.get("expect-fail"):
                tuples.add((len(t["payload"].encode()), len(t["footer"].encode()), len(t["implicit-assertion"].encode())))
        for f in ("local-pw", "secret-pw"):
            for t in tests("k%d.%s.json" % (ver, f)):
                if t.get("expect-fail") or not t.get("paserk"):
                    continue
                import base64
                body = t["paserk"].split(".")[-1]
                blob = base64.urlsafe_b64decode(body + "=" * (-len(body) % 4))
                if ver in (1, 3):
                    pw.add((ver, int.from_bytes(blob[32:36], "big"), 0, 0))
                else:
                    pw.add((ver, int.from_bytes(blob[16:24], "big") // 1024, int.from_bytes(blob[24:28], "big"), int.from_bytes(blob[28:32], "big")))
        for f in ("secret-wrap.pie", "secret-pw"):
            for t in tests("k1.%s.json" % f):
                if not t.get("expect-fail") and t.get("unwrapped"):
                    b = binascii.unhexlify(t["unwrapped"])
                    if b[:1] == b"-":
                        import base64
                        b = base64.b64decode(b"".join(l for l in b.splitlines() if not l.startswith(b"-----")))
                    v1.add(len(b))
    # RSA keys as outside tools wrote them (harness fixtures: other exponents, key-sealing sizes): their DER lengths
    v1pub = set()
    import base64, glob
    for f in glob.glob(os.path.join(C.ROOT, "harness", "fixtures", "rsa*.pem")):
        body = b"".join(l for l in open(f, "rb").read().splitlines() if not l.startswith(b"-----"))
        n = len(base64.b64decode(body))
        if any(f.endswith("/%s.%s.pem" % (k, "sec" if f.endswith(".sec.pem") else "pub")) for k in ("rsa2048-0", "rsa2048-1", "rsa2048e3-0", "rsa4096-0")):
            (v1 if f.endswith(".sec.pem") else v1pub).add(n)
    json.dump({"tuples": sorted(map(list, tuples)), "pw": sorted(map(list, pw)), "v1secret": sorted(v1), "v1public": sorted(v1pub)}, open(path, "w"))
    return len(tuples), len(pw)


def generate_terms(out, tier, name):
    d = C.ensure_dir(os.path.join(C.BUILD, name))
    extra = os.path.join(d, "extra.json")
    nt, npw = vector_extras(extra)
    out.extra["vector_length_tuples"] = nt
    r = C.tlc("Gen_Terms", "Gen_Terms_%s.cfg" % tier, "gen", name + "-gen", workers=8, timeout=3600, heap="12g", env_extra={"PV_EXTRA": extra})
    C.tlc_must_pass(r, "Gen_Terms")
    out.add_tlc(r)
    cases = [json.loads(json.loads('"' + m + '"')) for m in re.findall(r'<<"TERM", "(.*)">>', r.out)]
    if len(cases) < 100:
        raise C.ToolError("term generator produced too few cases")
    return cases


def run(out, tier, seed, prop="C03"):
    kinds = KINDS[prop]
    out.rule = ("TLC builds, for every (operation, version, length tuple) of the configured domain, the term of the bytes the operation must "
                "output (Construct.tla: key derivation, CTR block schedule with Inc128, PAE with concrete length prefixes, layouts, labels) and "
                "checks the layout arithmetic against Versions.tla; the harness evaluates each term with primitives from the library family the "
                "backend does not use (RustCrypto <-> aws-lc/libsodium) and relates it to the real bytes: forward (chosen/scripted randomness: "
                "equal), backward (library randomness: equal after cutting out the random fields), verify (randomized signatures valid under "
                "the independent verifier), reference (spec-built tokens/blobs for nonces 00.., ff.., ..fe, low-64-bits-ones, random must be "
                "accepted with the same claims/key); distinct = distinct (case, backend, direction, nonce class); non-trivial = all")
    d = C.ensure_dir(os.path.join(C.BUILD, prop.lower()))
    cases = [c for c in generate_terms(out, tier, prop.lower()) if c["kind"] in kinds]
    cf = os.path.join(d, "cases.json")
    json.dump(cases, open(cf, "w"))
    out.extra["generated_cases"] = len(cases)
    f = os.path.join(d, "obs.ndjson")
    p = C.harness(["obs-terms", "--cases", cf, "--out", f, "--tier", tier, "--seed", str(seed), "--kinds", ",".join(kinds), "--vectors", VECTOR_DIR], timeout=7200)
    out.extra["harness"] = json.loads(p.stdout.strip().splitlines()[-1])
    obs.validate(out, "Obs_Terms", f, prop.lower() + "-obs", classify, workers=8)
    out.extra["negative_control_rejected"] = obs.negative_control("Obs_Terms", f, prop.lower(), corrupt, k=6, seed=seed)
    seen = set()
    by = {}
    with open(f) as fh:
        for n, l in enumerate(fh):
            rec = json.loads(l)
            if rec["fn"] != "term":
                continue
            key = (rec["kind"], rec["ver"], rec["be"], rec["dir"], rec.get("mlen"), rec.get("flen"), rec.get("ilen"), rec.get("ktype"), rec.get("klen"), rec.get("nonce"), rec.get("what"), rec.get("variant"))
            seen.add(key)
            b = "%s/%s/%s" % (rec["kind"], rec["dir"], rec["be"])
            by[b] = by.get(b, 0) + 1
            if n % 1201 == 3 and len(out.samples) < 6:
                out.samples.append(rec)
    out.samples.append({"example_term_case": {k: (v if not isinstance(v, dict) else "<term tree, %d chars of JSON>" % len(json.dumps(v))) for k, v in cases[0].items()}})
    out.distinct_nontrivial = len(seen)
    out.extra["records_by_kind_direction_backend"] = by
    out.assumptions += [
        "each primitive library is trusted only as a primitive; the two families are forced to agree with each other through the terms",
        "L1 (Construct.tla) is written from the PASETO/PASERK texts and is pinned to the official vectors directly: every positive vector of the working tree's vector files must equal the evaluated term under both primitive families (records with dir = vector)",
        "derived counter blocks (v3 local, PIE and PKE of k1/k3) are substituted through the cfg-guarded hook paseto_core::verif; embedded-IV sites (v1 local, PBKW k1/k3) need no hook",
    ]
