"""C05 Wrapping, password-wrapping or sealing a key and undoing it returns the same key."""
import os, json
from .. import common as C
from .. import trace

LEVEL = "model_checking"


def run(out, tier, seed):
    out.rule = ("MC: L0 blobs table (wrap/unwrap with matching and non-matching secrets, failing draws); impl: per backend PIE (every wrapping "
                "key x local/secret key), PBKW (passwords incl. empty/NUL/1 KiB x small-cost lattice, plus default parameters), PKE (hundreds "
                "to thousands of seals per recipient so rare values of the internal randomness occur), each wrap -> to_string -> length law "
                "-> parse -> unwrap validated against L0 + Versions.tla; distinct = distinct interned byte strings; non-trivial = successful wraps")
    r = C.ideal_mc(out, tier, "c05", ("blobs",))
    d = C.ensure_dir(os.path.join(C.BUILD, "c05"))
    f = os.path.join(d, "trace.ndjson")
    p = C.harness(["paserk", "--mode", "roundtrip", "--out", f, "--tier", tier, "--seed", str(seed)], timeout=7200)
    stats = json.loads(p.stdout.strip().splitlines()[-1])
    out.extra["harness"] = stats
    events, r = trace.validate(out, f, "c05-trace")
    out.distinct_nontrivial = stats["distinct_byte_strings"]
    if stats["rsa_c_leading_zero"] == 0:
        raise C.ToolError("inconclusive: no RSA-KEM ciphertext with a leading zero byte among the k1.seal operations of this run")
    out.extra["rare_class_hits"] = {"rsa_kem_c_leading_zero_byte": stats["rsa_c_leading_zero"]}
    k = 0
    for i, e in enumerate(events):
        if e["ev"] == "WrapCall" and i % 997 == 1 and k < 4:
            out.samples.append(events[i:i + 4])
            k += 1
    out.extra["negative_control_rejected"] = trace.negative_control(f, "c05", [("wrong-key", mut_wrong_key), ("reject-honest", mut_reject), ("bad-length", mut_len)])
    out.assumptions += ["blobs are observed through Display and split by the harness' base64 codec (validated against Base64Url.tla by C09)",
                        "RSA key pairs for k1 are fixtures (3 x 4096-bit for PKE, 4 x 2048-bit for signing) generated once by the harness"]


def mut_wrong_key(events):
    for i, e in enumerate(events):
        if e["ev"] == "Unwrap" and e["ok"]:
            e["key"] += 1
            return events, i + 1
    return None, 0


def mut_reject(events):
    for i, e in enumerate(events):
        if e["ev"] == "Unwrap" and e["ok"]:
            e["ok"], e["errc"], e["key"] = False, "crypto", 0
            return events, i + 1
    return None, 0


def mut_len(events):
    for i, e in enumerate(events):
        if e["ev"] == "WrapRet" and e["ok"]:
            e["len"] -= 1
            return events, i + 1
    return None, 0
