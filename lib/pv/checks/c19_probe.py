"""Reduced-feature behaviour probes for C19: a small crate (harness/featprobe) is built once per (library crate, feature set) with exactly
those features and replays, for the operations that feature set makes available, material produced by the full build (the main harness):
verify / decrypt full-build tokens, unwrap full-build blobs, and reproduce full-build output for caller-supplied nonces."""
import os, json, subprocess
from .. import common as C

SETS = {
    "quick": [("verifying",), ("decrypting",), ("signing", "encrypting"), ("pke",), ("pbkw",), ("pie-wrap",)],
    "thorough": [("verifying",), ("decrypting",), ("signing",), ("encrypting",), ("id",), ("pie-wrap",), ("pbkw",), ("pke",), ("signing", "encrypting")],
}
CRATES = {"paseto-v1": "v1", "paseto-v2": "v2", "paseto-v3": "v3", "paseto-v4": "v4"}


def run(tier, seed, d):
    recs = []
    mat = os.path.join(d, "material.json")
    C.harness(["feat-material", "--out", mat, "--seed", str(seed)], timeout=1800)
    probe_dir = os.path.join(C.ROOT, "featprobe")
    crates = list(CRATES)
    for crate in crates:
        ver = CRATES[crate]
        for fs in SETS[tier]:
            feats = [ver] + list(fs)
            env = C.cargo_env()
            env["CARGO_TARGET_DIR"] = os.path.join(C.BUILD, "featprobe-target")
            # the probe's manifest points at /repo; when the checks run against another tree the path is substituted
            b = subprocess.run(["cargo", "build", "--offline", "-q", "--no-default-features", "--features", ",".join(feats)], cwd=probe_dir, env=env,
                               stdout=subprocess.PIPE, stderr=subprocess.PIPE, text=True)
            if b.returncode != 0:
                recs.append({"fn": "featbehaviour", "crate": crate, "features": list(fs), "op": "build", "ran": False, "same": False, "stderr": b.stderr[-600:]})
                continue
            p = subprocess.run([os.path.join(env["CARGO_TARGET_DIR"], "debug", "featprobe"), mat, ver], stdout=subprocess.PIPE, stderr=subprocess.PIPE, text=True, timeout=600)
            if p.returncode != 0:
                recs.append({"fn": "featbehaviour", "crate": crate, "features": list(fs), "op": "run", "ran": False, "same": False, "stderr": p.stderr[-600:]})
                continue
            for l in p.stdout.splitlines():
                r = json.loads(l)
                r.update({"fn": "featbehaviour", "crate": crate, "features": list(fs), "ran": True})
                recs.append(r)
    return recs
