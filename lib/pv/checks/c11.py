"""C11 Claims are released only if the validator accepts; built-in validators are exact."""
import os, json, re
from .. import common as C
from .. import obs

LEVEL = "model_checking"


def classify(rec, verdict):
    if rec["fn"] in ("builder", "clock"):
        return {"verdict": verdict, "fn": rec["fn"], "k": rec.get("k"), "setters": len(rec.get("setters") or [])}

    def ops(e, acc):
        acc.append(e["op"])
        for k in ("a", "b"):
            if isinstance(e.get(k), dict):
                ops(e[k], acc)
        for x in e.get("xs", []) or []:
            ops(x, acc)
        return acc
    return {"verdict": verdict, "fn": rec["fn"], "root": rec["expr"]["op"], "ops": sorted(set(ops(rec["expr"], [])))}


def corrupt(rec, rng):
    if rec["fn"] == "builder":
        rec["valid_at"] = not rec["valid_at"]
        return rec
    if rec["fn"] == "clock":
        rec["past_exp_accepted"] = True
        return rec
    rec["got"] = not rec["got"]
    rec["errc"] = "" if rec["got"] else "claims"
    if rec["fn"] == "unseal":
        rec["same"] = rec["got"]
    return rec


def run(out, tier, seed):
    out.rule = ("TLC enumerates validator expressions by growth (11 leaves: time, leeway 0/1, hasexp, iss/sub/aud x 2 strings, none; "
                "combinators and, slice, vec (1..3 members, empty), box, rc, arc, map at the root) to depth 2 (quick) / 3 (thorough) and the claims "
                "domain (exp, nbf in {absent} + 15 time points around now +- leeway +- 1ns and far; iss/sub/aud in {absent, a, b}); checks the "
                "algebraic laws on every pair; the harness builds each expression from the real constructors/combinators and runs it on real "
                "RegisteredClaims for 6 concrete (base time, leeway unit) incl. sub-second and nanosecond leeways, directly and through real "
                "unseals on every backend; TLC validates each result against Claims.tla; distinct = distinct (expression, claims, time config); "
                "non-trivial = expression has at least one combinator or the claims have a time point within one leeway of now")
    d = C.ensure_dir(os.path.join(C.BUILD, "c11"))
    r = C.tlc("Gen_Claims", "Gen_Claims_%s.cfg" % tier, "gen", "c11-gen", workers=6 if tier == "quick" else 14, timeout=7200)
    C.tlc_must_pass(r, "Gen_Claims")
    out.add_tlc(r)
    exprs = [json.loads(json.loads('"' + m + '"')) for m in re.findall(r'<<"EXPR", "(.*)">>', r.out)]
    cl = re.search(r'<<"CLAIMS", "(.*)">>', r.out)
    claims = json.loads(json.loads('"' + cl.group(1) + '"'))
    if len(exprs) < 100 or len(claims) < 100:
        raise C.ToolError("generator produced too few cases")
    # de-duplicate (TLC prints an expression once per distinct state; states differ in depth/phase)
    uniq, seen = [], set()
    for e in exprs:
        k = json.dumps(e, sort_keys=True)
        if k not in seen:
            seen.add(k)
            uniq.append(e)
    cases = os.path.join(d, "cases.json")
    json.dump({"exprs": uniq, "claims": claims}, open(cases, "w"))
    out.extra["generated_expressions"] = len(uniq)
    out.extra["claims_domain"] = len(claims)
    f = os.path.join(d, "obs.ndjson")
    p = C.harness(["obs-claims", "--cases", cases, "--out", f, "--tier", tier, "--seed", str(seed)], timeout=7200)
    out.extra["harness"] = json.loads(p.stdout.strip().splitlines()[-1])
    obs.validate(out, "Obs_Claims", f, "c11-obs", classify, workers=10 if tier == "quick" else 14, timeout=10800)
    out.extra["negative_control_rejected"] = obs.negative_control("Obs_Claims", f, "c11", corrupt, k=6, seed=seed)
    nt = set()
    with open(f) as fh:
        for n, l in enumerate(fh):
            rec = json.loads(l)
            if rec["fn"] in ("builder", "clock"):
                nt.add((rec["fn"], json.dumps(rec.get("now")), rec.get("k"), json.dumps(rec.get("setters")), rec.get("cfg")))
                continue
            e = rec["expr"]
            near = any(rec["x"][k] and abs(rec["x"][k][0][0]) <= 1 for k in ("exp", "nbf"))
            if e["op"] in ("and", "slice", "vec", "box", "rc", "arc", "map") or near:
                nt.add((json.dumps(e, sort_keys=True), json.dumps(rec["x"], sort_keys=True), rec["cfg"], rec["fn"]))
            if n % 9973 == 11 and len(out.samples) < 6:
                out.samples.append(rec)
    out.distinct_nontrivial = len(nt)
    out.assumptions += ["time is modelled as (coarse, fine) pairs; the harness maps them to jiff timestamps for 6 (base, leeway unit) pairs with now +- leeway representable",
                        "map is exercised at the root of an expression only (its type changes the claims type)"]
