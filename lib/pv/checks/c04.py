"""C04 No input makes parsing, unsealing, unwrapping or key use panic."""
import os, json, subprocess
from .. import common as C
from .. import obs

LEVEL = "exploration"
BACKENDS = ["v1", "v2", "v3", "v3lc", "v4", "v4na"]


def classify(rec, verdict):
    cls = {"verdict": verdict, "be": rec["be"], "parser": rec["parser"]}
    for s in rec["steps"]:
        if s["result"] not in ("ok", "err", "skipped-over-budget"):
            cls["op"] = s["op"]
            break
    return cls


def corrupt(rec, rng):
    if rec["steps"] and rng.random() < 0.5:
        rec["steps"][-1]["result"] = "panic"
        return rec
    return None


def run(out, tier, seed):
    out.rule = ("spec-enumerated input classes: per backend x 13 parsers x header class (exact, empty, truncated, other version, upper-cased, "
                "doubled) x base64 class (canonical + 8 invalid classes) x every decoded length 0..140 and every 7th to 700 (thorough: all "
                "0..700) x content class (random, zeros, ones, SEC1/DER tag bytes) + valid values of every sibling backend with one mutation "
                "(bit flip, byte set, truncate, extend, zero range); every applicable follow-up operation (unseal, unwrap within budget, "
                "unseal-key, to_string, id, expose_key, public_key, sign/encrypt/wrap/seal with or to the parsed key, clone, drop) under "
                "catch_unwind, one child process per backend; distinct = distinct (backend, parser, input); non-trivial = inputs that parse")
    d = C.ensure_dir(os.path.join(C.BUILD, "c04"))
    C.build_harness()
    files = []
    procs = []
    for be in BACKENDS:
        f = os.path.join(d, "obs-%s.ndjson" % be)
        pf = os.path.join(d, "progress-%s.txt" % be)
        procs.append((be, f, pf, subprocess.Popen([C.HARNESS_BIN, "obs-safety", "--out", f, "--progress", pf, "--tier", tier, "--seed", str(seed), "--backends", be],
                                                  stdout=subprocess.PIPE, stderr=subprocess.PIPE, text=True)))
    inputs = 0
    for be, f, pf, p in procs:
        so, se = p.communicate(timeout=7200)
        if p.returncode != 0:
            # the process died (abort, fatal signal): the last line of the progress file is the input being run
            last = ""
            if os.path.exists(pf):
                with open(pf) as fh:
                    for last in fh:
                        pass
            out.violation({"verdict": "process-died", "be": be, "rc": p.returncode}, {"last_input": last.strip()[:400], "stderr": se[-500:]})
            continue
        inputs += json.loads(so.strip().splitlines()[-1])["inputs"]
        files.append(f)
        os.remove(pf)
    allf = os.path.join(d, "obs.ndjson")
    with open(allf, "w") as w:
        for f in files:
            with open(f) as fh:
                for l in fh:
                    w.write(l)
            os.remove(f)
    obs.validate(out, "Obs_Safety", allf, "c04-obs", classify, workers=10, timeout=7200)
    out.extra["negative_control_rejected"] = obs.negative_control("Obs_Safety", allf, "c04", corrupt, k=5, seed=seed)
    parsed, steps, seen = 0, 0, 0
    res = {}
    with open(allf) as fh:
        for n, l in enumerate(fh):
            rec = json.loads(l)
            seen += 1
            steps += len(rec["steps"])
            if rec["steps"] and rec["steps"][0]["result"] == "ok":
                parsed += 1
            for s in rec["steps"]:
                res[s["result"]] = res.get(s["result"], 0) + 1
            if n % 13001 == 77 and len(out.samples) < 5:
                s = dict(rec)
                s["text"] = bytes(s["text"]).decode("latin1")
                out.samples.append(s)
    out.evaluations = seen
    out.distinct_nontrivial = parsed
    out.extra["operations_executed"] = steps
    out.extra["step_results"] = res
    out.assumptions += [
        "this family observes panics, aborts and fatal signals; it does not observe silent invalid memory accesses (no sanitizer is used)",
        "PBKW blobs whose cost parameters exceed the stated budget are parsed (incl. params()) but not unwrapped",
    ]
