"""C13 Key IDs are the spec's hash of the key's PASERK text, stable, domain-separated."""
from . import c03
from .. import deploy
LEVEL = "model_checking"


def run(out, tier, seed):
    c03.run(out, tier, seed, prop="C13")
    # key ids in use: the deployment model (Deploy.tla) selects keys by the id in the unverified footer; its behaviours
    # are replayed through the real crates with a store indexed by the library's KeyId (Ord / Hash / Display / FromStr)
    deploy.run(out, tier, seed, "c13")
