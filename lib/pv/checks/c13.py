"""C13 Key IDs are the spec's hash of the key's PASERK text, stable, domain-separated."""
from . import c03
LEVEL = "model_checking"


def run(out, tier, seed):
    c03.run(out, tier, seed, prop="C13")
