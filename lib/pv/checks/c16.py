"""C16 Every seal and wrap uses fresh randomness and fails closed when the RNG fails."""
import os, json
from .. import common as C
from .. import trace

LEVEL = "fault_enumeration"


def run(out, tier, seed):
    out.rule = ("fault enumeration: for every getrandom-based backend (v1, v2, v3, v4) and every operation kind (encrypt, sign, wrap_pie "
                "local/secret, password_wrap, key seal, local/secret key generation) the draw sequence is learned from a clean run, then "
                "each draw index is failed once cleanly and once after a partial fill, plus failing payload/footer encoders; L0 admits only "
                "an error return after a failed step (no Emit); freshness: N consecutive operations per backend and kind with identical "
                "inputs, every embedded nonce / salt / ephemeral key / RSA-KEM ciphertext / generated key must be new (L0 `used` set), and "
                "(Rng.tla) the embedded field must BE the drawn value where the construction says so; thorough: the freshness and wrap "
                "fault runs are repeated with the drivers compiled in the release profile; "
                "distinct = distinct injected faults + distinct fresh values; non-trivial = operations with at least one observed draw")
    for cfg in ("MC_Ideal_%s.cfg" % tier, "MC_IdealGen_quick.cfg"):
        r = C.tlc("MC_Ideal", cfg, "mc", "c16-mc", workers=12, timeout=7200, heap="16g")
        C.tlc_must_pass(r, "MC_Ideal " + cfg)
        out.add_tlc(r)
    d = C.ensure_dir(os.path.join(C.BUILD, "c16"))
    total_events = []
    stats = {}
    for name, args in (("token-faults", ["tokens", "--mode", "faults"]), ("wrap-faults", ["paserk", "--mode", "faults"]),
                       ("token-fresh", ["tokens", "--mode", "fresh"]), ("wrap-fresh", ["paserk", "--mode", "fresh"])):
        f = os.path.join(d, name + ".ndjson")
        p = C.harness(args + ["--out", f, "--tier", tier, "--seed", str(seed)], timeout=7200)
        stats[name] = json.loads(p.stdout.strip().splitlines()[-1])
        events, r = trace.validate(out, f, "c16-" + name)
        total_events.append(events)
    if tier == "thorough":
        # the same freshness and fault runs on the drivers compiled in the release profile (no debug assertions, no overflow checks):
        # a draw inside a debug_assert!, or arithmetic that only wraps silently in release, is invisible to a debug build
        for name, args in (("token-fresh-release", ["tokens", "--mode", "fresh"]), ("wrap-fresh-release", ["paserk", "--mode", "fresh"]),
                           ("wrap-faults-release", ["paserk", "--mode", "faults"])):
            f = os.path.join(d, name + ".ndjson")
            p = C.harness(args + ["--out", f, "--tier", "quick", "--seed", str(seed)], timeout=7200, release=True)
            stats[name] = json.loads(p.stdout.strip().splitlines()[-1])
            events, r = trace.validate(out, f, "c16-" + name)
            total_events.append(events)
    # paseto-v1's RSA paths (getrandom 0.2 / OsRng) under the LD_PRELOAD shim
    shim = os.path.join(C.BUILD, "getrandom_shim.so")
    src = os.path.join(C.HARNESS_DIR, "shim", "getrandom_shim.c")
    if not os.path.exists(shim) or os.path.getmtime(shim) < os.path.getmtime(src):
        import subprocess
        r = subprocess.run(["cc", "-shared", "-fPIC", "-O1", "-o", shim, src, "-ldl"], stdout=subprocess.PIPE, stderr=subprocess.STDOUT, text=True)
        if r.returncode != 0:
            raise C.ToolError("cannot build the getrandom shim: " + r.stdout[-400:])
    f = os.path.join(d, "rsa-faults.ndjson")
    p = C.harness(["rsa-faults", "--out", f, "--tier", tier, "--seed", str(seed)], timeout=900, env_extra={"LD_PRELOAD": shim})
    stats["rsa-faults"] = json.loads(p.stdout.strip().splitlines()[-1])
    events, r = trace.validate(out, f, "c16-rsa-faults")
    total_events.append(events)
    out.extra["harness"] = stats
    faults = draws = ops_with_draws = fresh_vals = 0
    fresh_seen = set()
    for events in total_events:
        cur = 0
        for e in events:
            if e["ev"] == "Draw":
                draws += 1
                cur += 1
                if not e["ok"]:
                    faults += 1
            if e["ev"] in ("SealRet", "WrapRet", "KeyGenRet"):
                if cur:
                    ops_with_draws += 1
                cur = 0
                for v in e.get("fresh", []) + ([e["key"]] if e["ev"] == "KeyGenRet" and e["ok"] else []):
                    fresh_seen.add(v)
            if e["ev"] in ("FooterEncode", "ClaimsEncode") and not e["ok"]:
                faults += 1
    out.evaluations = sum(len(x) for x in total_events)
    out.distinct_nontrivial = faults + len(fresh_seen)
    out.extra["injected_faults"] = faults
    out.extra["observed_draws"] = draws
    out.extra["operations_with_observed_draws"] = ops_with_draws
    out.extra["distinct_fresh_values"] = len(fresh_seen)
    f0 = os.path.join(d, "token-faults.ndjson")
    out.extra["negative_control_rejected"] = trace.negative_control(f0, "c16", [("emit-after-failed-draw", trace.mut_emit_after_failed_draw)])
    ev = total_events[0]
    for i, e in enumerate(ev):
        if e["ev"] == "Draw" and not e["ok"] and len(out.samples) < 3:
            out.samples.append(ev[max(0, i - 2):i + 3])
    out.assumptions += [
        "aws-lc's SystemRandom and libsodium's RNG cannot be failed from outside the process without patching them: for paseto-v3-aws-lc and paseto-v4-sodium only freshness is checked",
        "paseto-v1's RSA paths (PSS salt, key generation) are failed at the system-call level through an LD_PRELOAD interposer (harness/shim/getrandom_shim.c); RSA key generation makes ~150 draws, of which the first few indices are failed",
    ]
