"""C17 Shared keys behave the same under concurrent use and after failed operations."""
import os, json, re
from .. import common as C
from .. import obs

LEVEL = "exploration"


def classify(rec, verdict):
    return {"verdict": verdict, "be": rec["be"], "op": rec["op"], "mode": rec["mode"]}


def corrupt(rec, rng):
    if rec["det"]:
        rec["res"] = rec["res"] + 1
        return rec
    rec["post_ok"] = False
    return rec


def run(out, tier, seed):
    out.rule = ("MC (Shared.tla): all interleavings of 3 threads x 2 overlapping operations with clone / give / drop of handles: the key never "
                "changes and every deterministic result is the sequential function; impl: (a) TLC-generated histories (all sequences of length "
                "<= 2, thorough <= 3, over 15 operation variants mixing failing and succeeding calls) replayed on ONE key per backend, each "
                "result compared with the same call on a fresh copy; (b) 8 (thorough 16) threads share one Arc'd key per backend and run seeded "
                "programs of the same variants while clones are dropped on other threads; distinct = distinct (backend, mode, thread, position, "
                "operation); non-trivial = all")
    # the drivers share keys between threads; if they no longer compile because a key type stopped being Send / Sync, that IS the
    # property's first clause failing (the compiler's verdict is the observation), not a tool problem
    try:
        C.build_harness()
    except C.ToolError:
        bo = C.LAST_BUILD_OUTPUT
        m = re.findall(r"`([^`]*)` cannot be (shared|sent) between threads safely", bo)
        if m:
            out.violation({"verdict": "key-type-not-send-sync", "what": sorted(set("%s (%s)" % (t, k) for t, k in m))[:4]}, {"compiler": bo[-3000:]})
            return
        raise
    r = C.tlc("MC_Shared", "MC_Shared_thorough.cfg", "mc", "c17-mc", workers=10, timeout=3600)
    C.tlc_must_pass(r, "MC_Shared")
    out.add_tlc(r)
    g = C.tlc("Gen_Histories", "Gen_Histories_%s.cfg" % tier, "gen", "c17-gen", workers=4, timeout=3600)
    C.tlc_must_pass(g, "Gen_Histories")
    out.add_tlc(g)
    hist = [json.loads(json.loads('"' + m + '"')) for m in re.findall(r'<<"HIST", "(.*)">>', g.out)]
    if len(hist) < 100:
        raise C.ToolError("history generator produced too few histories")
    d = C.ensure_dir(os.path.join(C.BUILD, "c17"))
    cf = os.path.join(d, "histories.json")
    json.dump(hist, open(cf, "w"))
    out.extra["generated_histories"] = len(hist)
    f = os.path.join(d, "obs.ndjson")
    p = C.harness(["obs-shared", "--cases", cf, "--out", f, "--tier", tier, "--seed", str(seed)], timeout=7200, check=False)
    if p.returncode == 7:
        # the watchdog: an operation of the library did not return within 120 s
        last = p.stdout.strip().splitlines()[-1] if p.stdout.strip() else "{}"
        try:
            what = json.loads(last).get("what", "")
        except ValueError:
            what = ""
        out.violation({"verdict": "operation-did-not-return", "be": what.split(" ")[0] if what else "", "op": what[what.rfind("(") + 1:-1] if "(" in what else ""}, {"what": what})
        return
    if p.returncode != 0:
        out.violation({"verdict": "process-died", "rc": p.returncode}, {"stderr": p.stderr[-800:]})
        return
    st = json.loads(p.stdout.strip().splitlines()[-1])
    out.extra["harness"] = st
    for b in st["backends"]:
        if b["threads_died"]:
            out.violation({"verdict": "thread-died", "be": b["be"]}, b)
    obs.validate(out, "Obs_Shared", f, "c17-obs", classify, workers=8)
    out.extra["negative_control_rejected"] = obs.negative_control("Obs_Shared", f, "c17", corrupt, k=6, seed=seed)
    n = 0
    with open(f) as fh:
        for n, l in enumerate(fh):
            if n % 9001 == 3 and len(out.samples) < 5:
                out.samples.append(json.loads(l))
    out.distinct_nontrivial = n + 1
    out.assumptions += [
        "a data race that neither crashes nor changes a result is invisible to this technique (no ThreadSanitizer)",
        "real schedules are whatever the OS produced on this run; the numbers of threads and operations are reported, not a claim of exhaustiveness over schedules",
    ]
