"""C18 Misusing keys, purposes or versions fails to compile; secrets cannot be printed."""
import os, json, re, glob, subprocess
from concurrent.futures import ThreadPoolExecutor
from .. import common as C
from .. import obs

LEVEL = "model_checking"

BACKENDS = {
    "v1": ("paseto_v1", "V1", "v2"), "v2": ("paseto_v2", "V2", "v1"), "v3": ("paseto_v3", "V3", "v4"),
    "v3lc": ("paseto_v3_aws_lc", "V3", "v4na"), "v4": ("paseto_v4", "V4", "v3"), "v4na": ("paseto_v4_sodium", "V4", "v3lc"),
}

PRELUDE = """#![allow(unused, dead_code)]
extern crate paseto_core;
extern crate serde_json;
extern crate {crate};
extern crate {ocrate};
use paseto_core::key::Key;
use paseto_core::version::{{Local, Public, Secret, PkePublic, PkeSecret}};
use paseto_core::tokens::{{SealedToken, UnsealedToken}};
use paseto_core::validation::NoValidation;
use paseto_core::paserk::{{SealedKey, PieWrappedKey, PasswordWrappedKey}};
use paseto_core::encodings::{{Payload, WriteBytes}};
use {crate} as BE;
type V = {crate}::core::{vty};
type W = {ocrate}::core::{ovty};
pub struct M;
impl Payload for M {{
    const SUFFIX: &'static str = "";
    fn encode(self, _: impl WriteBytes) -> Result<(), Box<dyn std::error::Error + Send + Sync>> {{ Ok(()) }}
    fn decode(_: &[u8]) -> Result<Self, Box<dyn std::error::Error + Send + Sync>> {{ Ok(M) }}
}}
"""

NV = "&NoValidation::dangerous_no_validation()"
TEMPLATES = {
    "encrypt_with": "pub fn probe(t: UnsealedToken<V, Local, M>, k: &Key<{KV}, {K}>) {{ let _ = t.encrypt(k); }}",
    "sign_with": "pub fn probe(t: UnsealedToken<V, Public, M>, k: &Key<{KV}, {K}>) {{ let _ = t.sign(k); }}",
    "decrypt_with": "pub fn probe(t: SealedToken<V, Local, M>, k: &Key<{KV}, {K}>) {{ let _ = t.decrypt(k, " + NV + "); }}",
    "verify_with": "pub fn probe(t: SealedToken<V, Public, M>, k: &Key<{KV}, {K}>) {{ let _ = t.verify(k, " + NV + "); }}",
    "seal_public_with": "pub fn probe(t: UnsealedToken<V, Public, M>, k: &Key<{KV}, {K}>) {{ let _ = t.seal(k, &[]); }}",
    "seal_local_with": "pub fn probe(t: UnsealedToken<V, Local, M>, k: &Key<{KV}, {K}>) {{ let _ = t.seal(k, &[]); }}",
    "nonce_seal_public_with": "pub fn probe(t: UnsealedToken<V, Public, M>, k: &Key<{KV}, {K}>) {{ let _ = t.dangerous_seal_with_nonce(k, &[], Vec::new()); }}",
    "nonce_seal_local_with": "pub fn probe(t: UnsealedToken<V, Local, M>, k: &Key<{KV}, {K}>) {{ let _ = t.dangerous_seal_with_nonce(k, &[], vec![0u8; 32]); }}",
    "unseal_public_with": "pub fn probe(t: SealedToken<V, Public, M>, k: &Key<{KV}, {K}>) {{ let _ = t.unseal(k, &[], " + NV + "); }}",
    "unseal_local_with": "pub fn probe(t: SealedToken<V, Local, M>, k: &Key<{KV}, {K}>) {{ let _ = t.unseal(k, &[], " + NV + "); }}",
    "wrap_pie_with": "pub fn probe(x: Key<V, Local>, k: &Key<{KV}, {K}>) {{ let _ = x.wrap_pie(k); }}",
    "unwrap_pie_with": "pub fn probe(x: PieWrappedKey<V, Local>, k: &Key<{KV}, {K}>) {{ let _ = x.unwrap(k); }}",
    "wrap_pie": "pub fn probe(x: Key<V, {K}>, w: &Key<V, Local>) {{ let _ = x.wrap_pie(w); }}",
    "password_wrap": "pub fn probe(x: Key<V, {K}>) {{ let _ = x.password_wrap(b\"pw\"); }}",
    "seal_key": "pub fn probe(x: Key<V, {K}>, r: &Key<V, PkePublic>) {{ let _ = x.seal(r); }}",
    "seal_to": "pub fn probe(x: Key<V, Local>, r: &Key<V, {K}>) {{ let _ = x.seal(r); }}",
    "unseal_key_with": "pub fn probe(s: SealedKey<V>, r: &Key<V, {K}>) {{ let _ = s.unseal(r); }}",
    "token_of_purpose": "pub fn probe(t: &SealedToken<V, {K}, M>) -> String {{ t.to_string() }}",
    "public_key": "pub fn probe(x: &Key<V, {K}>) {{ let _ = x.public_key(); }}",
    "display": "pub fn probe(x: &Key<V, {K}>) -> String {{ format!(\"{{}}\", x) }}",
    "debug": "pub fn probe(x: &Key<V, {K}>) -> String {{ format!(\"{{:?}}\", x) }}",
    "serde_key": "pub fn probe(x: &Key<V, {K}>) {{ let _ = serde_json::to_string(x); }}",
    # a key handed to caller-supplied code byte by byte: Hash feeds the key material into any Hasher
    "key_hash": "pub fn probe<H: std::hash::Hasher>(x: &Key<V, {K}>, h: &mut H) {{ std::hash::Hash::hash(x, h); }}",
    "key_eq": "pub fn probe(x: &Key<V, {K}>, y: &Key<V, {K}>) -> bool {{ x == y }}",
    "into_keytext": "pub fn probe(x: Key<V, {K}>) {{ let _: paseto_core::paserk::KeyText<V, {K}> = x.into(); }}",
    "send_sync": "pub fn probe() {{ fn shared<T: Send + Sync>() {{}} shared::<Key<V, {K}>>(); }}",
    "private_field": "pub fn probe(x: Key<V, {K}>) {{ let _ = x.0; }}",
    "expose_to_string": "pub fn probe(x: &Key<V, {K}>) -> String {{ x.expose_key().to_string() }}",
    "from_bytes32": "pub fn probe() {{ let _: Key<V, {K}> = Key::from([0u8; 32]); }}",
    "random": "pub fn probe() {{ let _ = Key::<V, {K}>::random(); }}",
    "id": "pub fn probe(x: &Key<V, {K}>) {{ let _ = x.id(); }}",
    "clone": "pub fn probe(x: &Key<V, {K}>) {{ let _ = x.clone(); }}",
    "decrypt_encrypted": "pub fn probe(t: SealedToken<V, Local, M>, k: &Key<V, Local>) {{ let _ = t.decrypt(k, " + NV + "); }}",
    "verify_signed": "pub fn probe(t: SealedToken<V, Public, M>, k: &Key<V, Public>) {{ let _ = t.verify(k, " + NV + "); }}",
    "verify_encrypted": "pub fn probe(t: SealedToken<V, Local, M>, k: &Key<V, Public>) {{ let _ = t.verify(k, " + NV + "); }}",
    "decrypt_signed": "pub fn probe(t: SealedToken<V, Public, M>, k: &Key<V, Local>) {{ let _ = t.decrypt(k, " + NV + "); }}",
    "display_sealed": "pub fn probe(t: &SealedToken<V, Local, M>) -> String {{ format!(\"{{}}\", t) }}",
    "display_unsealed": "pub fn probe(t: &UnsealedToken<V, Local, M>) -> String {{ format!(\"{{}}\", t) }}",
    "serde_sealed": "pub fn probe(t: &SealedToken<V, Public, M>) {{ let _ = serde_json::to_string(t); }}",
    # the unverified footer only through the accessor named unverified: not by auto-deref, AsRef or Borrow
    "deref_sealed": "pub fn probe(t: &SealedToken<V, Public, M, Vec<u8>>) -> usize {{ t.len() }}",
    "asref_sealed": "pub fn probe(t: &SealedToken<V, Local, M, Vec<u8>>) -> usize {{ let f: &Vec<u8> = t.as_ref(); f.len() }}",
    "serde_unsealed": "pub fn probe(t: &UnsealedToken<V, Public, M>) {{ let _ = serde_json::to_string(t); }}",
    # the same with claims and footer that are themselves serialisable (paseto-json's claims, no footer)
    "serde_unsealed_claims": "pub fn probe(t: &UnsealedToken<V, Public, paseto_json::RegisteredClaims>) {{ let _ = serde_json::to_string(t); }}",
    "serde_unencrypted_claims": "pub fn probe(t: &UnsealedToken<V, Local, paseto_json::RegisteredClaims, Vec<u8>>) {{ let _ = serde_json::to_string(t); }}",
    # a correct program: the recipient key parsed in argument position, its type inferred from the parameter
    "seal_inferred": "pub fn probe(x: Key<V, Local>, text: &str) -> Result<(), paseto_core::PasetoError> {{ let _ = x.seal(&text.parse()?); Ok(()) }}",
    "wrap_inferred": "pub fn probe(x: Key<V, Local>, text: &str) -> Result<(), paseto_core::PasetoError> {{ let _ = x.wrap_pie(&text.parse()?); Ok(()) }}",
    "claims_of_sealed": "pub fn probe(t: SealedToken<V, Local, M>) {{ let _ = t.claims; }}",
    "footer_field_of_sealed": "pub fn probe(t: SealedToken<V, Local, M, Vec<u8>>) {{ let _ = t.footer; }}",
    "payload_field_of_sealed": "pub fn probe(t: SealedToken<V, Public, M>) {{ let _ = t.payload; }}",
    "claims_of_unsealed": "pub fn probe(t: UnsealedToken<V, Local, M>) {{ let _ = t.claims; }}",
    "footer_of_unsealed": "pub fn probe(t: UnsealedToken<V, Public, M, Vec<u8>>) {{ let _ = t.footer; }}",
    "verify_aad_on_encrypted": "pub fn probe(t: SealedToken<V, Local, M>, k: &Key<V, Local>) {{ let _ = t.verify_with_aad(k, &[], " + NV + "); }}",
    "decrypt_aad_on_signed": "pub fn probe(t: SealedToken<V, Public, M>, k: &Key<V, Public>) {{ let _ = t.decrypt_with_aad(k, &[], " + NV + "); }}",
    "sign_aad_on_unencrypted": "pub fn probe(t: UnsealedToken<V, Local, M>, k: &Key<V, Local>) {{ let _ = t.sign_with_aad(k, &[]); }}",
    "encrypt_aad_on_unsigned": "pub fn probe(t: UnsealedToken<V, Public, M>, k: &Key<V, Secret>) {{ let _ = t.encrypt_with_aad(k, &[]); }}",
    "decrypt_aad_on_encrypted": "pub fn probe(t: SealedToken<V, Local, M>, k: &Key<V, Local>) {{ let _ = t.decrypt_with_aad(k, &[], " + NV + "); }}",
    "verify_aad_on_signed": "pub fn probe(t: SealedToken<V, Public, M>, k: &Key<V, Public>) {{ let _ = t.verify_with_aad(k, &[], " + NV + "); }}",
    "encrypt_aad_on_unencrypted": "pub fn probe(t: UnsealedToken<V, Local, M>, k: &Key<V, Local>) {{ let _ = t.encrypt_with_aad(k, &[]); }}",
    "sign_aad_on_unsigned": "pub fn probe(t: UnsealedToken<V, Public, M>, k: &Key<V, Secret>) {{ let _ = t.sign_with_aad(k, &[]); }}",
    "debug_sealed": "pub fn probe(t: &SealedToken<V, Local, M, Vec<u8>>) -> String {{ format!(\"{{:?}}\", t) }}",
    "alias_signed": "pub fn probe(t: BE::SignedToken<M>) -> SealedToken<V, Public, M> {{ t }}",
    "alias_encrypted": "pub fn probe(t: BE::EncryptedToken<M>) -> SealedToken<V, Local, M> {{ t }}",
    "alias_unsigned": "pub fn probe(t: BE::UnsignedToken<M>) -> UnsealedToken<V, Public, M> {{ t }}",
    "alias_unencrypted": "pub fn probe(t: BE::UnencryptedToken<M>) -> UnsealedToken<V, Local, M> {{ t }}",
    "alias_localkey": "pub fn probe(k: BE::LocalKey) -> Key<V, Local> {{ k }}",
    "alias_publickey": "pub fn probe(k: BE::PublicKey) -> Key<V, Public> {{ k }}",
    "alias_secretkey": "pub fn probe(k: BE::SecretKey) -> Key<V, Secret> {{ k }}",
    "footer_unverified": "pub fn probe(t: &SealedToken<V, Local, M, Vec<u8>>) {{ let _ = t.unverified_footer(); }}",
}


def newest(pattern):
    c = sorted(glob.glob(pattern), key=os.path.getmtime)
    if not c:
        raise C.ToolError("no rlib matches %s" % pattern)
    return c[-1]


def run(out, tier, seed):
    out.rule = ("TLC enumerates the program points of Typing.tla (operation x key kind x own/other version; token operations) with the "
                "expected compiler verdict and checks the matrix's meta-properties; one Rust program per point and backend crate is "
                "instantiated from a template and type-checked with rustc (--emit=metadata) against the freshly built library; "
                "expected-reject programs must fail with a type/trait/privacy error at the probed expression (any other failure is a tool "
                "error), expected-accept siblings of the same template must compile; distinct = distinct (backend, point); non-trivial = "
                "points expected to be rejected")
    g = C.tlc("Gen_Typing", "Gen_Typing.cfg", "gen", "c18-gen", workers=2, timeout=600)
    C.tlc_must_pass(g, "Gen_Typing")
    out.add_tlc(g)
    points = [json.loads(json.loads('"' + m + '"')) for m in re.findall(r'<<"PROBE", "(.*)">>', g.out)]
    if len(points) < 80:
        raise C.ToolError("typing generator produced too few points")
    C.build_libs()
    deps = os.path.join(C.BUILD, "target", "debug", "deps")
    ext = {n: newest(os.path.join(deps, "lib%s-*.rlib" % n)) for n in
           ["paseto_core", "paseto_json", "serde_json", "paseto_v1", "paseto_v2", "paseto_v3", "paseto_v3_aws_lc", "paseto_v4", "paseto_v4_sodium"]}
    d = C.ensure_dir(os.path.join(C.BUILD, "c18"))
    jobs = []
    for be, (crate, vty, other) in BACKENDS.items():
        ocrate, ovty, _ = BACKENDS[other]
        for n, p in enumerate(points):
            src = PRELUDE.format(crate=crate, ocrate=ocrate, vty=vty, ovty=ovty) + TEMPLATES[p["op"]].format(K=p["k"], KV="V" if p["rel"] == "same" else "W") + "\n"
            path = os.path.join(d, "probe_%s_%d.rs" % (be, n))
            with open(path, "w") as f:
                f.write(src)
            jobs.append((be, p, path, crate, ocrate))

    def compile_one(job):
        be, p, path, crate, ocrate = job
        cmd = ["rustc", "--edition", "2024", "--crate-type", "lib", "--emit=metadata", "--cap-lints", "allow", "--error-format=short",
               "-o", path[:-3] + ".rmeta", "-L", "dependency=" + deps]
        for n in ("paseto_core", "paseto_json", "serde_json", crate, ocrate):
            cmd += ["--extern", "%s=%s" % (n, ext[n])]
        cmd.append(path)
        r = subprocess.run(cmd, stdout=subprocess.PIPE, stderr=subprocess.PIPE, text=True)
        codes = sorted(set(re.findall(r"error\[(E\d+)\]", r.stderr)))
        plain_errors = len(re.findall(r"(?m): error(?!\[)", r.stderr))
        for ext_ in (".rs", ".rmeta"):
            try:
                os.remove(path[:-3] + ext_)
            except OSError:
                pass
        rec = {"fn": "probe", "be": be, "op": p["op"], "k": p["k"], "rel": p["rel"], "compiled": r.returncode == 0, "codes": codes}
        if r.returncode != 0 and (not codes or plain_errors > len(codes) + 1):
            rec["stderr"] = r.stderr[-600:]
        return rec

    with ThreadPoolExecutor(max_workers=14) as ex:
        recs = list(ex.map(compile_one, jobs))
    f = os.path.join(d, "obs.ndjson")
    C.write_ndjson(f, recs)
    obs.validate(out, "Obs_Typing", f, "c18-obs", lambda rec, v: {"verdict": v, "be": rec["be"], "op": rec["op"], "k": rec["k"], "rel": rec["rel"]}, workers=4)

    def corrupt(rec, rng):
        rec["compiled"] = not rec["compiled"]
        rec["codes"] = [] if rec["compiled"] else ["E0308"]
        return rec
    out.extra["negative_control_rejected"] = obs.negative_control("Obs_Typing", f, "c18", corrupt, k=6, seed=seed)
    out.distinct_nontrivial = sum(1 for r in recs if not r["compiled"])
    out.extra["programs"] = len(recs)
    out.extra["compiled"] = sum(1 for r in recs if r["compiled"])
    out.exhaustive = True
    out.samples = [recs[3], recs[57], recs[200], {"example_source": PRELUDE.format(crate="paseto_v4", ocrate="paseto_v3", vty="V4", ovty="V3") + TEMPLATES["sign_with"].format(K="PkeSecret", KV="V")}]
    out.assumptions += ["rustc's verdict on a program instantiated from a template stands for the class of programs of that shape",
                        "operations the property does not mention for key-sealing (PKE) kinds (Display, id, clone, random) are not probed for those kinds"]
