"""C15 Pre-authentication encoding is exactly the spec's PAE and is injective."""
import os, json
from .. import common as C
from .. import obs

LEVEL = "model_checking"


def classify(rec, verdict):
    return {"verdict": verdict, "pieces": len(rec.get("pieces", []))}


def corrupt(rec, rng):
    if rec["out"]:
        i = rng.randrange(len(rec["out"]))
        rec["out"][i] = (rec["out"][i] + 1) % 256
        return rec
    return None


def corrupt_writes(rec, rng):
    if len(rec["writes"]) >= 2 and rec["writes"][-1]:
        rec["writes"][-1] = rec["writes"][-1][:-1]
        return rec
    return None


def run(out, tier, seed):
    out.rule = ("MC: all piece lists up to the configured bounds (pieces, fragments, bytes over a 2-letter alphabet); impl: one record per "
                "pre_auth_encode call with the Vec output and the streamed write() sequence; distinct = distinct piece lists; "
                "non-trivial = at least one non-empty fragment")
    r = C.tlc("MC_PAE", "MC_PAE_%s.cfg" % tier, "mc", "c15-mc", workers=8 if tier == "quick" else 14, timeout=7200, heap="16g")
    C.tlc_must_pass(r, "MC_PAE")
    out.add_tlc(r)
    out.extra["mc_pae_states"] = r.distinct
    out.exhaustive = True
    if tier == "thorough":
        C.refinement(out, "c15", True)      # injectivity is what makes the L1 -> L0 refinement hold; "no length prefix" must break it
    d = C.ensure_dir(os.path.join(C.BUILD, "c15"))
    f = os.path.join(d, "obs.ndjson")
    C.harness(["obs-pae", "--out", f, "--tier", tier, "--seed", str(seed)])
    obs.validate(out, "Obs_PAE", f, "c15-obs", classify, workers=8)
    n1 = obs.negative_control("Obs_PAE", f, "c15a", corrupt, k=4, seed=seed)
    n2 = obs.negative_control("Obs_PAE", f, "c15b", corrupt_writes, k=3, seed=seed + 1)
    out.extra["negative_control_rejected"] = n1 + n2
    seen = set()
    with open(f) as fh:
        for n, l in enumerate(fh):
            rec = json.loads(l)
            key = json.dumps(rec["pieces"])
            if any(len(fr) for p in rec["pieces"] for fr in p):
                seen.add(key)
            if n in (30, 200) or (len(out.samples) < 4 and n % 131 == 7):
                if len(rec["out"]) < 120:
                    out.samples.append(rec)
    out.distinct_nontrivial = len(seen)
    out.assumptions += [
        "digest/MAC adapters of the backends are private types; their equivalence to the Vec writer is covered by C03's bit-exact comparison",
        "lengths are below 2^31 (TLC integers); the 64-bit length prefix is checked on its low 4 bytes being the length and the high 4 being zero",
    ]
