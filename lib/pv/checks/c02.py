"""C02 Unsealing accepts only the exact bytes, footer, assertion, header and key as sealed.
   C12 rides on the same traces (decoder/validator invocation and error class)."""
import os, json
from .. import common as C
from .. import trace

LEVEL = "model_checking"


def run(out, tier, seed, prop="C02"):
    out.rule = ("MC: L0 with an attacker presenting every (version, purpose, wire, footer, key, assertion) combination incl. a never-sealed "
                "wire; impl: per backend x purpose x message length x {footer+assertion, neither}: every byte of the payload bit-flipped "
                "(quick: one random bit per byte, all 8 bits next to field boundaries; thorough: all bits), every footer bit, every "
                "truncation, extensions, insertions, boundary shifts message<->footer<->assertion by 1..3 bytes, footer/assertion "
                "added/removed/replaced, other keys, key bit flips, splices of two honest tokens, relabel to every other version/purpose "
                "parser; decoder steered ok/fail/panic, validator accept/reject; every event validated against L0; "
                "distinct = distinct presented (token text, key, assertion); non-trivial = presentations that parse")
    r = C.ideal_mc(out, tier, prop.lower(), ("tokens",))
    out.extra["mc_ideal_states"] = r.distinct
    # L1 (authenticate PAE(header, nonce, ciphertext, footer, assertion) with a full-length tag) refines L0's acceptance
    # rule against a byte-level attacker; broken variants of the construction must be rejected (non-vacuity)
    C.refinement(out, prop.lower(), tier == "thorough")
    d = C.ensure_dir(os.path.join(C.BUILD, prop.lower()))
    f = os.path.join(d, "trace.ndjson")
    p = C.harness(["tokens", "--mode", "tamper", "--out", f, "--tier", tier, "--seed", str(seed)], timeout=7200)
    stats = json.loads(p.stdout.strip().splitlines()[-1])
    out.extra["harness"] = stats
    events, r = trace.validate(out, f, prop.lower() + "-trace")
    seen, classes, parsed = set(), {}, 0
    last_parse = None
    for e in events:
        if e["ev"] == "ParseRet":
            last_parse = e
        if e["ev"] == "UnsealCall":
            seen.add((e["be"], e["purpose"], e["wire"], e["footer"], e["key"], e["aad"]))
            parsed += 1
            c = (e.get("note") or {}).get("cls", "?")
            classes[c] = classes.get(c, 0) + 1
    out.distinct_nontrivial = len(seen)
    out.extra["presentations_by_tamper_class"] = classes
    out.extra["decoder_or_validator_invocations"] = {
        "Decode": sum(1 for e in events if e["ev"] == "Decode"), "Validate": sum(1 for e in events if e["ev"] == "Validate")}
    out.extra["negative_control_rejected"] = trace.negative_control(f, prop.lower(), [
        ("accept-tampered", trace.mut_accept_tampered), ("decode-on-tampered", trace.mut_decode_on_tampered),
        ("wrong-claims", trace.mut_wrong_claims), ("reject-honest", trace.mut_reject_honest)])
    k = 0
    for i, e in enumerate(events):
        if e["ev"] == "UnsealCall" and i % 4999 == 7 and k < 4:
            out.samples.append(events[i - 1:i + 2])
            k += 1
    out.samples.append(events[:10])
    out.assumptions += [
        "ECDSA's (r, n-s) twin and non-canonical Ed25519 encodings are not single-bit neighbours of a valid signature and are outside this property's quantifier",
        "a corrupted token colliding with another valid token has probability <= 2^-128 (perfect-crypto assumption)",
    ]
