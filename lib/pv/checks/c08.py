"""C08 Keys survive serialisation unchanged; secret keys derive the matching public key; invalid keys are rejected."""
import os, json
from .. import common as C
from .. import obs

LEVEL = "model_checking"


def classify(rec, verdict):
    return {"verdict": verdict, "be": rec["be"], "kind": rec["kind"], "cls": rec["cls"]}


def corrupt(rec, rng):
    if rec["fn"] == "keygen":
        if rng.random() < 0.2:
            rec["reparse_equal"] = False
            return rec
        return None
    if rec["fn"] == "keyrel":
        if rec["len"] != len(rec["other"]) and rng.random() < 0.3:
            rec["eq"] = True
            return rec
        return None
    if rec["result"] == "err" and rec["kind"] == "local" and rec["len"] != 32:
        rec["ok"], rec["result"] = True, "ok"
        rec["post"] = {"reenc_equal": True, "reenc_idempotent": True, "text_roundtrip": True, "clone_equal": True, "enc_len": 32, "use_ok": True}
        return rec
    if rec["result"] == "ok" and rng.random() < 0.5:
        rec["post"]["clone_equal"] = False
        return rec
    return None


def run(out, tier, seed):
    out.rule = ("MC (MC_Keys): the validity table on a scaled curve order and all (version, kind) pairs; impl: every byte string of length "
                "0..128 x {random, zeros, ones} offered as local/public/secret/PKE key to every backend, valid keys (generated, fixtures, "
                "boundary scalars 0, 1, n-1, n, n+1, 2^384-1) with single-bit mutations / truncation / extension, SEC1 compressed / "
                "uncompressed / hybrid / infinity / wrong-tag / off-curve encodings, Ed25519 off-curve, small-order, non-canonical, mismatched "
                "halves, RSA DER/PEM with 1024/2048/3072/4096-bit moduli; every accepted key re-encoded, re-parsed, cloned, used; oracles for "
                "curve membership / seed->public / RSA size come from the library family the backend does not use; "
                "distinct = distinct (backend, kind, bytes); non-trivial = offers of the kind's length or derived from a valid key")
    r = C.tlc("MC_Keys", "MC_Keys.cfg", "mc", "c08-mc", workers=4, timeout=1800)
    C.tlc_must_pass(r, "MC_Keys")
    out.add_tlc(r)
    d = C.ensure_dir(os.path.join(C.BUILD, "c08"))
    f = os.path.join(d, "obs.ndjson")
    C.harness(["obs-keys", "--out", f, "--tier", tier, "--seed", str(seed)], timeout=3600)
    obs.validate(out, "Obs_Keys", f, "c08-obs", classify, workers=8)
    out.extra["negative_control_rejected"] = obs.negative_control("Obs_Keys", f, "c08", corrupt, k=6, seed=seed)
    seen, nt, by = set(), 0, {}
    with open(f) as fh:
        for n, l in enumerate(fh):
            rec = json.loads(l)
            key = (rec["be"], rec["kind"], rec["len"], tuple(rec["bytes"]))
            if key not in seen:
                seen.add(key)
                if rec["cls"] not in ("random", "zero", "ones") or rec["ok"]:
                    nt += 1
            c = rec["cls"] + ("+" if rec["ok"] else "-")
            by[c] = by.get(c, 0) + 1
            if n % 1433 == 17 and len(out.samples) < 6:
                out.samples.append(rec)
    out.distinct_nontrivial = nt
    out.extra["offers_by_class_and_outcome"] = by
    out.assumptions += [
        "'identity points' is read as the SEC1 point at infinity; Ed25519 small-order / non-canonical encodings are recorded but no verdict is demanded",
        "k3.public means the 49-byte compressed SEC1 form (PASERK): uncompressed, hybrid and compact encodings are 'wrong length/form' and must be rejected",
        "arbitrary accepted v1 DER/PEM is canonicalised by design: byte identity is demanded of conforming DER only, idempotence of everything",
    ]
