"""C06 Wrapped and sealed keys are tamper-evident and bound to header, key and password."""
import os, json
from .. import common as C
from .. import trace

LEVEL = "model_checking"


def mut_accept(events):
    for i, e in enumerate(events):
        if e["ev"] == "Unwrap" and not e["ok"]:
            e["ok"], e["errc"], e["key"] = True, "", 1
            return events, i + 1
    return None, 0


def run(out, tier, seed):
    out.rule = ("MC: L0 blobs table with every (kind, version, key type, blob, secret) presentation; impl: per backend x {PIE, PBKW, PKE} x "
                "{local, secret}: bit flips of every byte (quick: one random bit per byte, all bits next to field boundaries and of the whole "
                "PBKW parameter block; thorough: all bits), every truncation, extensions, other key/password/recipient, relabel local<->secret "
                "and to every other version's parser; PBKW blobs whose (modified) cost exceeds the budget are parsed but not executed; "
                "distinct = distinct (blob, secret) presentations; non-trivial = all of them")
    r = C.ideal_mc(out, tier, "c06", ("blobs",))
    if tier == "thorough":
        C.refinement(out, "c06", True)
    d = C.ensure_dir(os.path.join(C.BUILD, "c06"))
    f = os.path.join(d, "trace.ndjson")
    p = C.harness(["paserk", "--mode", "tamper", "--out", f, "--tier", tier, "--seed", str(seed)], timeout=7200)
    stats = json.loads(p.stdout.strip().splitlines()[-1])
    out.extra["harness"] = stats
    events, r = trace.validate(out, f, "c06-trace")
    seen, classes = set(), {}
    for e in events:
        if e["ev"] == "Unwrap":
            seen.add((e["be"], e["wkind"], e["ktype"], e["blob"], e["with"]))
            c = e["wkind"] + ":" + (e.get("note") or {}).get("cls", "?")
            classes[c] = classes.get(c, 0) + 1
    out.distinct_nontrivial = len(seen)
    out.extra["presentations_by_class"] = classes
    out.extra["negative_control_rejected"] = trace.negative_control(f, "c06", [("accept-tampered", mut_accept)])
    k = 0
    for i, e in enumerate(events):
        if e["ev"] == "Unwrap" and i % 3001 == 5 and k < 5:
            out.samples.append(e)
            k += 1
    out.samples.append(events[1:6])
    out.assumptions += ["PBKW cost parameters beyond the stated budget (> 64 MiB, > 3 passes, > 10000 iterations) are parsed but never executed",
                        "a corrupted blob colliding with another valid blob has probability <= 2^-128"]
