"""C10 A token or PASERK of one version/purpose/kind is never accepted as another."""
import os, json
from .. import common as C
from .. import obs, trace

LEVEL = "model_checking"


def classify(rec, verdict):
    if rec["fn"] == "xser":
        return {"verdict": verdict, "src": "%s %s" % (rec["be"], rec["kind"]), "dst": "binary serde"}
    if rec["fn"] == "xsuffix":
        return {"verdict": verdict, "src": "%s %s suffix '%s'" % (rec["be"], rec["purpose"], rec["src_suffix"]), "dst": "suffix '%s'" % rec["dst_suffix"]}
    return {"verdict": verdict, "src": "%s %s" % (rec.get("src_ver", ""), rec["src_kind"]), "dst": "%s %s" % (rec["dst_be"], rec["dst_kind"]), "via": rec["fn"]}


def corrupt(rec, rng):
    if rec["fn"] == "xserde" and not rec["ok"] and rec["src_ver"] != rec["dst_ver"] and rng.random() < 0.01:
        rec["ok"], rec["result"] = True, "ok"
        return rec
    if rec["fn"] != "xparse":
        return None
    same = rec["src_ver"] == rec["dst_ver"] and rec["src_kind"] == rec["dst_kind"]
    if not same and not rec["ok"] and rec["src_kind"].split(".")[0] != rec["dst_kind"].split(".")[0]:
        rec["ok"], rec["result"] = True, "ok"
        return rec
    return None


def run(out, tier, seed):
    out.rule = ("MC (MC_Headers): all ordered pairs of the 52 (text kind, version) headers x 9 tails: distinct, prefix-free, no cross "
                "acceptance by the strict grammar; impl: one or two valid serialised values of each of 15 kinds at each of 6 backends "
                "(produced by the real code) offered to each of 18 parsers at each of 6 backends (all ordered pairs); header rewriting of "
                "authenticated blobs and tokens is the relabel class of the C02/C06 tamper traces, re-run here for wrapped keys; "
                "distinct = distinct (source value, destination parser); non-trivial = pairs that differ in version or kind")
    r = C.tlc("MC_Headers", "MC_Headers.cfg", "mc", "c10-mc", workers=8, timeout=1800)
    C.tlc_must_pass(r, "MC_Headers")
    out.add_tlc(r)
    out.exhaustive = True
    d = C.ensure_dir(os.path.join(C.BUILD, "c10"))
    f = os.path.join(d, "obs.ndjson")
    p = C.harness(["obs-cross", "--out", f, "--seed", str(seed)], timeout=3600)
    out.extra["harness"] = json.loads(p.stdout.strip().splitlines()[-1])
    obs.validate(out, "Obs_Cross", f, "c10-obs", classify, workers=8)
    out.extra["negative_control_rejected"] = obs.negative_control("Obs_Cross", f, "c10", corrupt, k=6, seed=seed)
    nt = 0
    with open(f) as fh:
        for n, l in enumerate(fh):
            rec = json.loads(l)
            if rec["fn"] in ("xser", "xsuffix"):
                nt += rec["fn"] == "xsuffix" and rec["src_suffix"] != rec["dst_suffix"]
                continue
            if rec.get("src_ver") != rec["dst_ver"] or rec["src_kind"] != rec["dst_kind"]:
                nt += 1
            if n % 2111 == 5 and len(out.samples) < 5:
                s = dict(rec)
                s["text"] = bytes(s.get("text", [])).decode("latin1")[:80]
                out.samples.append(s)
    out.distinct_nontrivial = nt
    # header rewrite of authenticated blobs: relabel classes of the wrapped-key tamper campaign
    tf = os.path.join(d, "relabel.ndjson")
    C.harness(["paserk", "--mode", "relabel", "--out", tf, "--tier", tier, "--seed", str(seed)], timeout=3600)
    events, _ = trace.validate(out, tf, "c10-relabel")
    out.extra["relabel_unwraps"] = sum(1 for e in events if e["ev"] == "Unwrap")
    out.assumptions += ["Public/PkePublic and Secret/PkeSecret share a PASERK text form by design; for v1 they differ in the required modulus size",
                        "key bytes of another kind's length offered as a key are covered by C08 (every length 0..128)"]
