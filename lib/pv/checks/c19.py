"""C19 Every cargo feature subset builds; reduced builds behave like the full one."""
import os, json, re, subprocess, shutil, collections
from concurrent.futures import ThreadPoolExecutor
from .. import common as C
from .. import obs

LEVEL = "model_checking"
CRATES = ["paseto-v1", "paseto-v2", "paseto-v3", "paseto-v4", "paseto-core", "paseto-json"]


def feature_tables():
    import tomllib
    t = {}
    for c in CRATES:
        with open(os.path.join(C.REPO, c, "Cargo.toml"), "rb") as f:
            d = tomllib.load(f)
        t[c] = {k: list(v) for k, v in d.get("features", {}).items()}
    return t


def cargo_check(crate, feats, target):
    cmd = ["cargo", "check", "--offline", "-q", "-p", crate, "--no-default-features", "--lib"]
    if feats:
        cmd += ["--features", ",".join(feats)]
    env = C.cargo_env()
    env["CARGO_TARGET_DIR"] = target
    r = subprocess.run(cmd, cwd=C.REPO, env=env, stdout=subprocess.PIPE, stderr=subprocess.PIPE, text=True)
    errs = [l for l in r.stderr.splitlines() if l.startswith("error")]
    return r.returncode == 0, errs[:4]


def run(out, tier, seed):
    out.rule = ("the feature tables are read from the Cargo.toml files of the working tree; TLC computes the closure of all 2^9 subsets per "
                "crate (2052 states), checks idempotence, monotonicity of closures and of available operations and the documented "
                "implications, and emits the distinct closures (45 per RustCrypto crate); each distinct closure is `cargo check`ed "
                "(quick: all closures of one crate chosen by the seed + none / each single feature / default for the others; thorough: all); "
                "reduced-feature probe binaries (verify-only, decrypt-only, single PASERK operations) replay full-build tokens and blobs; "
                "distinct = distinct (crate, closure); non-trivial = closures other than empty and full")
    d = C.ensure_dir(os.path.join(C.BUILD, "c19"))
    tables = feature_tables()
    tf = os.path.join(d, "features.json")
    json.dump(tables, open(tf, "w"))
    r = C.tlc("MC_Features", "MC_Features.cfg", "mc", "c19-mc", workers=8, env_extra={"FEATURES": tf}, timeout=1800)
    C.tlc_must_pass_novio = None
    if not r.completed:
        raise C.SpecFailure("MC_Features", r)
    out.add_tlc(r)
    for m in re.finditer(r'<<"VIOL", 0, "([^"]+)", (.*)>>', r.out):
        out.violation({"verdict": m.group(1), "detail": m.group(2).replace('"', "")}, {"tables": tables})
    closures = collections.defaultdict(dict)
    for m in re.finditer(r'<<"FEAT", "([^"]+)", "(.*?)", "(.*?)", "(.*?)">>', r.out):
        c = m.group(1)
        S = json.loads(json.loads('"' + m.group(2) + '"'))
        cl = tuple(sorted(json.loads(json.loads('"' + m.group(3) + '"'))))
        if cl not in closures[c] or (len(S), S) < (len(closures[c][cl]), closures[c][cl]):
            closures[c][cl] = sorted(S)
    out.extra["distinct_closures"] = {c: len(v) for c, v in closures.items()}
    big = ["paseto-v1", "paseto-v2", "paseto-v3", "paseto-v4"]
    full_crate = big[seed % 4]
    jobs = collections.defaultdict(list)
    for c, m in closures.items():
        for cl, S in sorted(m.items()):
            named = len(S) <= 1 or set(cl) >= set(tables[c].keys()) - {"default"}
            if tier == "thorough" or c == full_crate or c not in big or named:
                jobs[c].append((S, list(cl)))
        if "default" in tables[c]:
            jobs[c].append((["default"], ["default"]))

    def per_crate(c):
        target = os.path.join(C.BUILD, "feat-target-" + c)
        recs = []
        for S, cl in jobs[c]:
            ok, errs = cargo_check(c, S, target)
            recs.append({"fn": "featbuild", "crate": c, "features": S, "closure": cl, "ok": ok, "errors": errs})
        return recs

    with ThreadPoolExecutor(max_workers=6) as ex:
        recs = [r_ for rs in ex.map(per_crate, list(jobs)) for r_ in rs]
    recs += behaviour(out, tier, seed, d)
    f = os.path.join(d, "obs.ndjson")
    C.write_ndjson(f, recs)
    obs.validate(out, "Obs_Features", f, "c19-obs",
                 lambda rec, v: {"verdict": v, "crate": rec.get("crate"), "features": ",".join(rec.get("features", []))}, workers=2)

    def corrupt(rec, rng):
        if rec["fn"] == "featbuild":
            rec["ok"] = False
        else:
            rec["same"] = False
        return rec
    out.extra["negative_control_rejected"] = obs.negative_control("Obs_Features", f, "c19", corrupt, k=4, seed=seed)
    out.distinct_nontrivial = sum(1 for r_ in recs if r_["fn"] == "featbuild" and r_["features"] and r_["features"] != ["default"])
    out.extra["cargo_checks"] = sum(1 for r_ in recs if r_["fn"] == "featbuild")
    out.extra["behaviour_records"] = sum(1 for r_ in recs if r_["fn"] == "featbehaviour")
    out.exhaustive = tier == "thorough"
    out.samples = recs[:3] + [r_ for r_ in recs if r_["fn"] == "featbehaviour"][:3]
    if tier == "thorough":
        for c in jobs:
            shutil.rmtree(os.path.join(C.BUILD, "feat-target-" + c), ignore_errors=True)
    out.assumptions += ["`cargo check --lib` (type checking, no code generation) stands for 'builds'",
                        "the documented implications are those named in the property's mechanism list"]


def behaviour(out, tier, seed, d):
    """Reduced-feature probe binaries against material produced by the full build."""
    from . import c19_probe
    return c19_probe.run(tier, seed, d)
